#!/venv/bin/python
"""Re-computes, for every seeded change under <verif>/seeded, which checks detect it: all 20 rule modules, in-process, against a scratch copy of <repo>/Pyro5 with the
patch applied (one shared analysis context per seed; the verdict per property is what `bin/check <P> --tier quick` gives: exit 1 iff a violated instance is not a known finding,
exit 2 on AnalysisError).   seed_matrix.py [--only <substring>] [--no-write]"""
import json, os, shutil, subprocess, tempfile, sys
from concurrent.futures import ProcessPoolExecutor
ROOT = os.path.dirname(os.path.dirname(os.path.abspath(__file__)))
REPO = os.environ.get("VERIF_REPO", "/repo")
sys.path.insert(0, ROOT)
PROPS = ["C%02d" % i for i in range(1, 21)]
ONLY_PROPS = [x for x in (sys.argv[sys.argv.index("--props") + 1].split(",") if "--props" in sys.argv else [])]     # incremental: re-decide only these properties


def one(sid):
    from verif import cli, report
    from verif.engine.model import AnalysisError
    from verif.engine.context import Ctx
    dst = os.path.join(ROOT, "seeded", sid)
    d = tempfile.mkdtemp(prefix="seedchk.")
    try:
        shutil.copytree(os.path.join(REPO, "Pyro5"), d + "/Pyro5", ignore=shutil.ignore_patterns("__pycache__"))
        r = subprocess.run(["patch", "-p1", "-s", "-i", dst + "/patch.diff"], cwd=d, capture_output=True, text=True)
        if r.returncode != 0:
            return sid, {"_error": ["patch does not apply to the current /repo tree"]}
        known = report.load_known_findings()
        detected = {}
        try:
            ctx = Ctx(d)
        except AnalysisError as x:
            return sid, {p: ["ANALYSIS-ERROR: %s" % str(x)[:200]] for p in PROPS}
        for p2 in (ONLY_PROPS or PROPS):
            try:
                R, _, _ = cli.run_property(p2, d, "quick", ctx)
            except AnalysisError as x:
                part = getattr(x, "partial", None)
                if part is not None:
                    new_p, _, _ = cli.classify(p2, part[0], known)
                    if new_p:
                        detected[p2] = [o.key for o in new_p][:6]
                        continue
                detected[p2] = ["ANALYSIS-ERROR: %s" % str(x)[:200]]
                continue
            except Exception as x:
                detected[p2] = ["ANALYSIS-ERROR: internal error %r" % (x,)]
                continue
            new, kn, stale = cli.classify(p2, R, known)
            if new:
                detected[p2] = [o.key for o in new][:6]
        return sid, detected
    finally:
        shutil.rmtree(d, ignore_errors=True)


def main():
    argv = sys.argv[1:]
    only = argv[argv.index("--only") + 1] if "--only" in argv else None
    write = "--no-write" not in argv
    sids = sorted(x for x in os.listdir(os.path.join(ROOT, "seeded")) if os.path.isdir(os.path.join(ROOT, "seeded", x)) and (only is None or only in x))
    index = {}
    with ProcessPoolExecutor(max_workers=16) as ex:
        for sid, det in ex.map(one, sids, chunksize=1):
            mp = os.path.join(ROOT, "seeded", sid, "meta.json")
            meta = json.load(open(mp))
            own = meta["property"] in det and not det[meta["property"]][0].startswith("ANALYSIS-ERROR")
            if ONLY_PROPS and "_error" not in det:
                merged = {k: v for k, v in meta.get("detected_by", {}).items() if k not in ONLY_PROPS}
                merged.update(det)
                det = merged
                own = meta["property"] in det and not det[meta["property"]][0].startswith("ANALYSIS-ERROR")
            if write:
                meta["detected_by"] = det
                meta["detected_by_own_property_check"] = own
                json.dump(meta, open(mp, "w"), indent=1)
            index[sid] = sorted(det)
            print(sid, "own" if own else "MISSED", {k: v[:1] for k, v in det.items()}, flush=True)
    if write and only is None and not ONLY_PROPS:
        json.dump(index, open(os.path.join(ROOT, "seeded", "INDEX.json"), "w"), indent=1)


if __name__ == "__main__":
    main()
