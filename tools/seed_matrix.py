#!/venv/bin/python
"""Re-computes, for every seeded change under /verif/seeded, which checks detect it (all 20 checks against a scratch copy with the patch)."""
import json, os, shutil, subprocess, tempfile, re, sys
from concurrent.futures import ThreadPoolExecutor
ROOT = "/verif"
PROPS = ["C%02d" % i for i in range(1, 21)]


def one(sid):
    dst = os.path.join(ROOT, "seeded", sid)
    d = tempfile.mkdtemp(prefix="seedchk.")
    try:
        shutil.copytree("/repo/Pyro5", d + "/Pyro5")
        r = subprocess.run(["patch", "-p1", "-s", "-i", dst + "/patch.diff"], cwd=d, capture_output=True, text=True)
        if r.returncode != 0:
            return sid, {"_error": ["patch does not apply to the current /repo tree"]}
        detected = {}
        for p2 in PROPS:
            rr = subprocess.run([ROOT + "/bin/check", p2, "--no-evidence", "--no-selftest", "--repo", d], capture_output=True, text=True)
            keys = re.findall(r"^  \S+\s+(C\d\d-R\w+\|\S+)", rr.stdout, re.M)
            if rr.returncode == 1:
                detected[p2] = keys[:6]
            elif rr.returncode == 2:
                detected[p2] = ["ANALYSIS-ERROR: " + rr.stdout.strip()[:200]]
        return sid, detected
    finally:
        shutil.rmtree(d, ignore_errors=True)


sids = sorted(x for x in os.listdir(os.path.join(ROOT, "seeded")) if os.path.isdir(os.path.join(ROOT, "seeded", x)))
index = {}
with ThreadPoolExecutor(max_workers=12) as ex:
    for sid, det in ex.map(one, sids):
        mp = os.path.join(ROOT, "seeded", sid, "meta.json")
        meta = json.load(open(mp))
        meta["detected_by"] = det
        meta["detected_by_own_property_check"] = meta["property"] in det
        json.dump(meta, open(mp, "w"), indent=1)
        index[sid] = sorted(det)
        print(sid, "own" if meta["detected_by_own_property_check"] else "MISSED", {k: v[:1] for k, v in det.items()})
json.dump(index, open(os.path.join(ROOT, "seeded", "INDEX.json"), "w"), indent=1)
