#!/venv/bin/python
"""
Development aid (never a registered command): which single-statement edits survive BOTH the pinned test-suite and all 20 checks?

Reads a mutation map (tools/mutation_map.py --out), re-creates every surviving edit in a scratch copy of /repo (Pyro5 + tests) and runs the suite
fail-fast on it. What is left - edits that neither a test nor a check notices - is the honest list of blind spots for changes "that still pass
the existing tests"; it is read by hand for edits that break a property.

usage: tools/survivors_vs_tests.py --map /tmp/mutation_map2.json --out /tmp/survivors_tests.json [--jobs 12] [--files nameserver.py,...]
"""
import ast, os, sys, json, shutil, tempfile, subprocess, argparse, time
from concurrent.futures import ProcessPoolExecutor
ROOT = os.path.dirname(os.path.dirname(os.path.abspath(__file__)))
sys.path.insert(0, os.path.join(ROOT, "tools"))
import mutation_map as mm

REPO = "/repo"
_scratch = None


def _init(parent):
    global _scratch
    _scratch = tempfile.mkdtemp(prefix="t.", dir=parent)
    for d in ("Pyro5", "tests", "certs"):
        if os.path.isdir(os.path.join(REPO, d)):
            shutil.copytree(os.path.join(REPO, d), os.path.join(_scratch, d), ignore=shutil.ignore_patterns("__pycache__"))
    for f in ("setup.py", "setup.cfg", "pyproject.toml", "tox.ini"):
        if os.path.exists(os.path.join(REPO, f)):
            shutil.copy(os.path.join(REPO, f), _scratch)


def job(args):
    rel, kind, path, fn, lineno, what = args
    src_path = os.path.join(REPO, rel)
    dst_path = os.path.join(_scratch, rel)
    orig = open(src_path).read()
    tree = ast.parse(orig)
    try:
        mm.apply(tree, kind, path)
        ast.fix_missing_locations(tree)
        src = ast.unparse(tree)
        compile(src, dst_path, "exec")
    except Exception as x:
        return (rel, kind, fn, lineno, what, "skipped")
    open(dst_path, "w").write(src)
    try:
        r = subprocess.run(["/venv/bin/python", "-m", "pytest", "-q", "-x", "-p", "no:cacheprovider", "--timeout=120"], cwd=_scratch, capture_output=True, text=True,
                           env=dict(os.environ, PYTHONPATH=_scratch), timeout=600)
        tail = (r.stdout.strip().splitlines() or [""])[-1]
        verdict = "passes-tests" if r.returncode == 0 else "killed-by-tests"
        if r.returncode != 0:
            # one retry for flaky timing / port collisions
            if "passed" in tail and "failed" in tail and tail.split()[0] == "1":
                r2 = subprocess.run(["/venv/bin/python", "-m", "pytest", "-q", "-x", "-p", "no:cacheprovider", "--timeout=120"], cwd=_scratch, capture_output=True, text=True,
                                    env=dict(os.environ, PYTHONPATH=_scratch), timeout=600)
                if r2.returncode == 0:
                    verdict = "passes-tests"
    except subprocess.TimeoutExpired:
        verdict = "killed-by-tests"
    finally:
        open(dst_path, "w").write(orig)
    return (rel, kind, fn, lineno, what, verdict)


def main():
    ap = argparse.ArgumentParser()
    ap.add_argument("--map", required=True)
    ap.add_argument("--out", required=True)
    ap.add_argument("--jobs", type=int, default=12)
    ap.add_argument("--files", default="")
    a = ap.parse_args()
    surv = {(o["file"], o["kind"], o["fn"], o["line"], o["edit"]) for o in json.load(open(a.map)) if not o["fired"]}
    jobs = []
    for rel in sorted({s[0] for s in surv}):
        if a.files and not any(rel.endswith(x) for x in a.files.split(",")):
            continue
        tree = ast.parse(open(os.path.join(REPO, rel)).read())
        for kind, path, fn, lineno in mm.sites(tree):
            t2 = ast.parse(open(os.path.join(REPO, rel)).read())
            try:
                what = mm.apply(t2, kind, path)
            except Exception:
                continue
            if (rel, kind, fn, lineno, what) in surv:
                jobs.append((rel, kind, path, fn, lineno, what))
    print("survivors to test:", len(jobs), file=sys.stderr)
    parent = tempfile.mkdtemp(prefix="survtests.")
    res = []
    t0 = time.time()
    try:
        with ProcessPoolExecutor(max_workers=a.jobs, initializer=_init, initargs=(parent,)) as ex:
            for i, r in enumerate(ex.map(job, jobs, chunksize=2)):
                res.append(r)
                if i % 100 == 0:
                    print(i, round(time.time() - t0), file=sys.stderr, flush=True)
                    json.dump([{"file": x[0], "kind": x[1], "fn": x[2], "line": x[3], "edit": x[4], "verdict": x[5]} for x in res], open(a.out, "w"), indent=0)
    finally:
        shutil.rmtree(parent, ignore_errors=True)
    json.dump([{"file": x[0], "kind": x[1], "fn": x[2], "line": x[3], "edit": x[4], "verdict": x[5]} for x in res], open(a.out, "w"), indent=0)
    from collections import Counter
    print(Counter(x[5] for x in res))


if __name__ == "__main__":
    main()
