#!/venv/bin/python
import sys, json
import os
sys.path.insert(0, os.path.dirname(os.path.dirname(os.path.abspath(__file__))))
from verif.selftest import mutants
props = sys.argv[1:] or ["C%02d" % i for i in range(1, 21)]
for p in props:
    r = mutants.run(p, "/repo", 0)
    print(p, "mutants %d/%d killed, seeds reported %d silent %d, twins %d, skipped %d, %.1fs" % (r["mutants_killed"], r["mutants"], r["seeded_expected_reported"], r["seeded_expected_silent"], r["twins"], len(r["skipped"]), r["wall_s"]))
    for d in r["disagreements"]:
        print("   DISAGREE:", d[:300])
    for s in r["skipped"]:
        print("   skipped:", json.dumps(s)[:200])
