#!/bin/bash
# development aid: all 20 quick checks in parallel against a tree (default /repo), without touching the evidence files
REPO=${1:-/repo}
for i in $(seq -w 1 20); do ( /verif/bin/check C$i --no-evidence --no-selftest --repo "$REPO" > /tmp/allq.C$i.out 2>&1; echo "C$i exit=$? $(grep -c VIOLATION /tmp/allq.C$i.out) viol $(grep -m1 'ANALYSIS-ERROR' /tmp/allq.C$i.out | cut -c1-200)" ) & done | sort
wait
