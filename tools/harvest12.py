#!/venv/bin/python
"""Round 12: copies confirmed seeds from /tmp/wt12/<P>/_seed/<X> to /verif/seeded/<P>-R12<X>/ (no detection; run tools/seed_matrix.py afterwards)."""
import json, os, shutil, re
ROOT = "/verif"
for prop in ["C%02d" % i for i in range(1, 21)]:
    for x in "ABC":
        src = "/tmp/wt12/%s/_seed/%s" % (prop, x)
        if not os.path.exists(src + "/patch.diff") or not os.path.exists(src + "/confirm.json"):
            continue
        conf = json.load(open(src + "/confirm.json"))
        ok = conf["demo_clean_rc"] == 0 and conf["patch_apply_rc"] == 0 and conf["demo_patched_rc"] != 0 and conf["suite_rc"] == 0 and "449 passed" in conf["suite_tail"]
        if not ok:
            print("NOT CONFIRMED", prop, x, conf); continue
        sid = "%s-R12%s" % (prop, x)
        dst = os.path.join(ROOT, "seeded", sid)
        os.makedirs(dst, exist_ok=True)
        shutil.copy(src + "/patch.diff", dst + "/patch.diff")
        shutil.copy(src + "/demo.py", dst + "/demo.py")
        notes = open(src + "/NOTES.md").read() if os.path.exists(src + "/NOTES.md") else ""
        open(dst + "/NOTES.md", "w").write(notes)
        meta = {"id": sid, "property": prop, "round": 12,
                "origin": "independent sub-agent given only the property text and a scratch worktree (round 12: three refactorings with a slip per property (10-40 changed lines each: extract / inline / merge / split, mostly faithful, one detail of the old behaviour lost), each of a different kind (interleaving, fault at one point, multi-step sequence, unusual legal input or configuration, two cooperating sites), written to look like an optimisation, simplification or robustness fix)",
                "files_touched": conf["files"].split(), "needs_to_manifest": "see NOTES.md",
                "confirmed_by_me": {"repo_head": conf["repo_head"], "commands": ["git worktree add --detach /tmp/hv/<id> HEAD", "demo (clean)", "git apply patch.diff", "demo (patched)",
                                                                               "/venv/bin/python -m pytest -q -p no:cacheprovider --timeout=900 -x", "git worktree remove --force"],
                                    "demo_clean_rc": conf["demo_clean_rc"], "demo_patched_rc": conf["demo_patched_rc"], "suite": conf["suite_tail"]},
                "detected_by": {}, "detected_by_own_property_check": False}
        json.dump(meta, open(dst + "/meta.json", "w"), indent=1)
        print("harvested", sid)
