#!/venv/bin/python
"""Regenerates verif/engine/vocabulary.py: the qualified names of every module-level function and method of the CONFIRMED tree (run only after reading a /repo change, e.g. a
`fix:` commit that adds a function; a helper that is not in this list is read through by engine/inline.py).   tools/gen_vocabulary.py [--check]"""
import ast, os, sys
ROOT = os.path.dirname(os.path.dirname(os.path.abspath(__file__)))
REPO = os.environ.get("VERIF_REPO", "/repo")
sys.path.insert(0, ROOT)
from verif.engine.inline import _functions
names = set()
for dp, dn, fns in os.walk(os.path.join(REPO, "Pyro5")):
    for fn in fns:
        if fn.endswith(".py"):
            path = os.path.join(dp, fn)
            rel = os.path.relpath(path, REPO)[:-3].replace(os.sep, ".")
            mod = rel[:-len(".__init__")] if rel.endswith(".__init__") else rel
            for qn, node, owner, cls in _functions(ast.parse(open(path).read()), mod):
                names.add(qn)
out = os.path.join(ROOT, "verif", "engine", "vocabulary.py")
from verif.engine.vocabulary import KNOWN_FUNCTIONS
print("new:", sorted(names - KNOWN_FUNCTIONS), " gone:", sorted(KNOWN_FUNCTIONS - names))
if "--check" not in sys.argv:
    head = open(out).read().split("KNOWN_FUNCTIONS")[0]
    open(out, "w").write(head + "KNOWN_FUNCTIONS = frozenset([\n" + "".join("    %r,\n" % n for n in sorted(names | KNOWN_FUNCTIONS)) + "])\n")
