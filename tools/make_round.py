#!/venv/bin/python
"""Development aid: prepares a blind round of seeded changes.  make_round.py <N> : creates /tmp/wt<N>/<P> (scratch git worktrees of /repo HEAD, one per property) with a
TASK.md that contains ONLY the property's text (statement, quantifier, why the tests cannot settle it, anchors) and the brief; nothing from /verif is copied."""
import json, os, subprocess, sys
N = sys.argv[1]
ROOT = "/tmp/wt%s" % N
WHERE = sys.argv[2] if len(sys.argv) > 2 else ""
props = [json.loads(l) for l in open("/verif/properties.jsonl")]
T = open(os.path.join(os.path.dirname(os.path.abspath(__file__)), "round_task_template.md")).read()
os.makedirs(ROOT, exist_ok=True)
for p in props:
    d = "%s/%s" % (ROOT, p["id"])
    if not os.path.isdir(d):
        subprocess.run(["git", "-C", "/repo", "worktree", "add", "--detach", d, "HEAD"], check=True, capture_output=True)
    txt = (T.replace("@DIR@", d).replace("@ID@", p["id"]).replace("@TITLE@", p["title"]).replace("@STATEMENT@", p["statement"])
            .replace("@QUANT@", p["quantifier"]["text"]).replace("@WHY@", p["why_tests_cant"]).replace("@ANCHORS@", json.dumps(p["anchors"])))
    open(d + "/TASK.md", "w").write(txt)
print("prepared", len(props), "worktrees under", ROOT)
