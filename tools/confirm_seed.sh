#!/bin/bash
# confirm_seed.sh <seed dir containing patch.diff + demo.py> <name> : confirm a seeded change in a scratch worktree of /repo
# writes <seed dir>/confirm.json ; removes the worktree afterwards
S="$1"; NAME="$2"
WT=/tmp/hv/$NAME
mkdir -p /tmp/hv
git -C /repo worktree remove --force "$WT" >/dev/null 2>&1
git -C /repo worktree add --detach "$WT" HEAD >/dev/null 2>&1 || { echo "{\"name\":\"$NAME\",\"error\":\"worktree\"}" > "$S/confirm.json"; exit 1; }
cd "$WT"
mkdir -p _seed/X && cp "$S/demo.py" _seed/X/demo.py
timeout 120 /venv/bin/python _seed/X/demo.py > /tmp/hv/$NAME.clean.log 2>&1; RC_CLEAN=$?
git apply "$S/patch.diff" 2>/tmp/hv/$NAME.apply.log; RC_APPLY=$?
timeout 120 /venv/bin/python _seed/X/demo.py > /tmp/hv/$NAME.patched.log 2>&1; RC_PATCHED=$?
timeout 900 /venv/bin/python -m pytest -q -p no:cacheprovider --timeout=900 -x > /tmp/hv/$NAME.suite.log 2>&1; RC_SUITE=$?
SUITE_TAIL=$(tail -1 /tmp/hv/$NAME.suite.log | tr -d '"')
if [ $RC_SUITE -ne 0 ]; then   # retry once (port collisions between parallel suites)
  timeout 900 /venv/bin/python -m pytest -q -p no:cacheprovider --timeout=900 -x > /tmp/hv/$NAME.suite.log 2>&1; RC_SUITE=$?
  SUITE_TAIL=$(tail -1 /tmp/hv/$NAME.suite.log | tr -d '"')
fi
git checkout -- . 
FILES=$(grep '^+++ b/' "$S/patch.diff" | sed 's#+++ b/##' | tr '\n' ' ')
cat > "$S/confirm.json" <<EOJ
{"name":"$NAME","demo_clean_rc":$RC_CLEAN,"patch_apply_rc":$RC_APPLY,"demo_patched_rc":$RC_PATCHED,"suite_rc":$RC_SUITE,"suite_tail":"$SUITE_TAIL","files":"$FILES","repo_head":"$(git -C /repo rev-parse --short HEAD)"}
EOJ
cd /; git -C /repo worktree remove --force "$WT" >/dev/null 2>&1
cat "$S/confirm.json"
