#!/venv/bin/python
import json, os, shutil, subprocess, tempfile, sys, glob
from concurrent.futures import ProcessPoolExecutor
CHK = sys.argv[1]
sys.path.insert(0, CHK)
PROPS = ["C%02d" % i for i in range(1, 21)]
def one(sd):
    from verif import cli, report
    from verif.engine.model import AnalysisError
    from verif.engine.context import Ctx
    prop = sd.split("/")[3]; x = os.path.basename(sd)
    d = tempfile.mkdtemp(prefix="blind11.")
    try:
        shutil.copytree("/repo/Pyro5", d + "/Pyro5", ignore=shutil.ignore_patterns("__pycache__"))
        r = subprocess.run(["patch", "-p1", "-s", "-i", sd + "/patch.diff"], cwd=d, capture_output=True, text=True)
        if r.returncode != 0:
            return prop, x, {"_error": [r.stdout + r.stderr]}
        known = report.load_known_findings()
        det = {}
        try:
            ctx = Ctx(d)
        except AnalysisError as e:
            return prop, x, {p: ["ANALYSIS-ERROR: %s" % e] for p in PROPS}
        for p2 in PROPS:
            try:
                R, _, _ = cli.run_property(p2, d, "quick", ctx)
            except AnalysisError as e:
                det[p2] = ["ANALYSIS-ERROR: %s" % str(e)[:160]]; continue
            except Exception as e:
                det[p2] = ["ANALYSIS-ERROR: internal %r" % (e,)]; continue
            new, kn, stale = cli.classify(p2, R, known)
            if new: det[p2] = [o.key for o in new][:4]
        return prop, x, det
    finally:
        shutil.rmtree(d, ignore_errors=True)
if __name__ == "__main__":
    sds = sorted(glob.glob("/tmp/wt11/C*/_seed/[ABC]"))
    out = {}
    with ProcessPoolExecutor(10) as ex:
        for prop, x, det in ex.map(one, sds):
            own = prop in det and not det[prop][0].startswith("ANALYSIS")
            tag = "own" if own else ("exit2" if prop in det else ("neighbour" if det else "MISSED"))
            out["%s-R11%s" % (prop, x)] = {"verdict": tag, "detected_by": det}
            print("%s-R11%s %-9s %s" % (prop, x, tag, {k: v[:2] for k, v in det.items()}), flush=True)
    json.dump(out, open("/tmp/wt11/blind_%s.json" % os.path.basename(CHK), "w"), indent=1)
    from collections import Counter
    print(Counter(v["verdict"] for v in out.values()))
