#!/venv/bin/python
"""Regenerates /verif/MANIFEST.json from the table below and from which rule modules exist."""
import json, os, sys
ROOT = os.path.dirname(os.path.dirname(os.path.abspath(__file__)))
sys.path.insert(0, ROOT)
props = [json.loads(l) for l in open(os.path.join(ROOT, "properties.jsonl"))]

TECH = {
 "C01": "sibling-agreement analysis (ast) of each serializer's encode/decode pairs; CFG guard-dominance for the compression flag",
 "C02": "reaching definitions + CFG guard-dominance (gate-before-use), sibling predicate comparison, frozen reference table",
 "C03": "CFG dominance / must-pass path queries, reaching definitions (reply echoes request), handler-class lattice checks",
 "C04": "call-graph reachability from decode entry points with effect table; CFG guard-dominance; reaching definitions of dynamic callees",
 "C05": "interprocedural exception-escape (may-raise) analysis with handler subtraction over the typed call graph; CFG must-pass queries; finite truth table over the exception-class lattice",
 "C06": "constant folding of struct formats and offsets, encoder/decoder positional agreement, CFG dominance of size/tiling checks",
 "C07": "writer/reader key and tag agreement (ast), CFG guard-dominance on the error path",
 "C08": "typestate over the typed call graph (who-may-call) + CFG guard-dominance on handshake results + reaching definitions",
 "C09": "reaching definitions (identity-only presence tests), lock-region (guarded-by) analysis, CFG guard-dominance per instance mode",
 "C10": "who-may-write analysis of the stream table, CFG must-pass/guard-dominance queries",
 "C11": "loop-shape analysis on the CFG (gate inside loop, break after single append), flag agreement",
 "C12": "CFG dominance of fresh-store over readers and user-code sites (sites found by the escape analysis), must-pass store queries, field-set agreement",
 "C13": "CFG must-pass pairing (disconnect hook, close) on all exits incl. exceptional edges filtered by the escape analysis; call-site counting",
 "C14": "SQL text extraction by constant folding, transaction-shape check on the CFG, interface agreement of the two back-ends, def-use of normalised arguments",
 "C15": "guarded-by (lock region) analysis over NameServer with sibling-call accounting; path existence on the CFG",
 "C16": "who-may-write analysis, CFG guard-dominance with disjunctive guards, def-use of registry values (unwrap-before-use)",
 "C17": "CFG guard-dominance of returns by length tests, handler classification, reference errno table",
 "C18": "guarded-by (lock region) analysis of Pool, no-blocking-under-lock, CFG must-pass hand-off and guard-dominance of the worker bound",
 "C19": "state-tuple agreement (eq/hash/getstate/setstate), hashability of fields by def-use, printer/parser constant and presence agreement",
 "C20": "CFG dominance of authorisation gates over Pyro-traffic sinks found through the call graph; def-use of forwarded member/parameters",
}
LEVEL_NOTE = ("Trusted base: CPython 3.12 `ast` grammar; the receiver-type hint table and external-effects tables of the engine "
              "(verif/engine/callgraph.py, escape.py); stated unsoundness: implicit KeyError/IndexError/TypeError/AttributeError and non-Exception "
              "BaseExceptions are not modelled; the library is assumed not to be monkey-patched. The check decides the structural clauses named "
              "in its rule texts (necessary conditions of the property), not the run-time behaviour.")

checks = []
na = []
served = []
for pr in props:
    pid = pr["id"]
    mod = os.path.join(ROOT, "verif", "rules", pid.lower() + ".py")
    if os.path.exists(mod):
        src = open(mod).read()
        import importlib
        m = importlib.import_module("verif.rules." + pid.lower())
        served.append(pid)
        checks.append({
            "property_id": pid,
            "quick_cmd": "/verif/bin/check %s --tier quick" % pid,
            "thorough_cmd": "/verif/bin/check %s --tier thorough" % pid,
            "evidence_file": "/verif/evidence/%s.json" % pid,
            "replay_cmd_template": "/verif/bin/check %s --replay {path}" % pid,
            "engine": "pyro5-static",
            "level_claimed": {"category": "other",
                              "text": "Static analysis of /repo/Pyro5 sources (no execution): every instance of every rule is enumerated and "
                                      "decided on each run (exhaustive over the finite instance space). " + m.EXPLANATION,
                              "design_ref": "DESIGN.md section 4, %s" % pid},
            "level_note": LEVEL_NOTE,
            "technique": "static analysis: " + TECH[pid],
        })
    else:
        na.append({"property_id": pid, "reason": "check under construction (planned static rules: DESIGN.md section 4, %s)" % pid})
man = {
 "version": 1,
 "setup_cmd": "true",
 "hooks": {"guard": "PYRO5_VERIF", "enable": "none needed: the checks read /repo/Pyro5 sources and never run them; no instrumentation exists in /repo",
           "baseline_off_cmd": "cd /repo && /venv/bin/python -m pytest -ra -q -p no:cacheprovider --timeout=900 --continue-on-collection-errors",
           "source_commits": [], "add_only": True},
 "engines": [{"name": "pyro5-static", "path": "/verif/verif", "serves_properties": served,
              "kind_free_text": "repository-specific static analysis on Python ast (stdlib only): module model, per-function CFG with dominators and "
                                "labelled branch/exception edges, reaching definitions, typed call graph with receiver hints, interprocedural "
                                "exception-escape analysis, lock regions, sibling/agreement comparisons, constant folding"}],
 "checks": checks,
 "notes": "quick = all rules of the property on the resolved program (about 1-3 s); thorough = quick + name-based widening of who-may-call rules + "
          "the mutant/benign-twin self-test of the rules on scratch copies. Exit 2 + ANALYSIS-ERROR means the analysis cannot stand (anchor vanished). "
          "Known findings: /verif/known_findings.json.",
 "not_applicable": na,
}
json.dump(man, open(os.path.join(ROOT, "MANIFEST.json"), "w"), indent=1)
print("checks:", len(checks), "not_applicable:", len(na))
