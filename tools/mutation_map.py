#!/venv/bin/python
"""
Mutation map of the rule set: which single-statement edits of /repo/Pyro5 does NO check notice?

For every simple statement of the analysed modules one mutant deletes it (replaces it with `pass`); for every `if`/`while`
test two mutants force it true / false; for every `except` clause one mutant makes the handler re-raise.  All 20 rule
modules are run in-process against each mutant (one shared analysis context per mutant).  The output lists, per function,
the edits that survive every check.  This is a development aid (it tells where the rules are blind), not a registered check:
a surviving edit is not necessarily a property violation, and nothing here feeds the verdicts.

usage: tools/mutation_map.py [--jobs N] [--modules a.py,b.py] [--out FILE]
"""
import ast, os, sys, json, shutil, tempfile, time, argparse, copy
from concurrent.futures import ProcessPoolExecutor
ROOT = os.path.dirname(os.path.dirname(os.path.abspath(__file__)))
sys.path.insert(0, ROOT)
REPO = "/repo"
MODULES = ["Pyro5/server.py", "Pyro5/client.py", "Pyro5/core.py", "Pyro5/protocol.py", "Pyro5/socketutil.py", "Pyro5/serializers.py",
           "Pyro5/callcontext.py", "Pyro5/errors.py", "Pyro5/nameserver.py", "Pyro5/svr_threads.py", "Pyro5/svr_multiplex.py",
           "Pyro5/svr_existingconn.py", "Pyro5/utils/httpgateway.py", "Pyro5/configure.py", "Pyro5/api.py", "Pyro5/__init__.py"]
SIMPLE = (ast.Expr, ast.Assign, ast.AugAssign, ast.AnnAssign, ast.Return, ast.Raise, ast.Delete, ast.Break, ast.Continue, ast.Assert)


def is_log_or_doc(st):
    if isinstance(st, ast.Expr):
        if isinstance(st.value, ast.Constant):
            return True
        if isinstance(st.value, ast.Call):
            t = ast.unparse(st.value.func)
            if t.startswith(("log.", "logging.", "warnings.", "print")):
                return True
    return False


def sites(tree):
    """[(kind, path)] where path addresses a node: list of (field, index) steps from the module"""
    out = []

    def walk(node, path, fn):
        for field, value in ast.iter_fields(node):
            if isinstance(value, list):
                for i, ch in enumerate(value):
                    if isinstance(ch, ast.AST):
                        visit(ch, path + [(field, i)], fn)
            elif isinstance(value, ast.AST):
                visit(value, path + [(field, None)], fn)

    def visit(node, path, fn):
        if isinstance(node, (ast.FunctionDef, ast.AsyncFunctionDef)):
            fn = (fn + "." if fn else "") + node.name
        elif isinstance(node, ast.ClassDef):
            fn = (fn + "." if fn else "") + node.name
        if isinstance(node, ast.stmt):
            if isinstance(node, SIMPLE) and not is_log_or_doc(node):
                out.append(("del", path, fn, node.lineno))
            if isinstance(node, (ast.If, ast.While)):
                out.append(("true", path, fn, node.lineno))
                out.append(("false", path, fn, node.lineno))
        if isinstance(node, ast.ExceptHandler):
            out.append(("reraise", path, fn, node.lineno))
        if isinstance(node, ast.IfExp):
            out.append(("true", path, fn, node.lineno))
            out.append(("false", path, fn, node.lineno))
        walk(node, path, fn)
    walk(tree, [], "")
    return out


def locate(tree, path):
    node = tree
    parent = None
    for field, idx in path:
        parent = (node, field, idx)
        v = getattr(node, field)
        node = v[idx] if idx is not None else v
    return node, parent


def apply(tree, kind, path):
    node, (par, field, idx) = locate(tree, path)
    if kind == "del":
        new = ast.Pass()
        ast.copy_location(new, node)
        getattr(par, field)[idx] = new
        return ast.unparse(node)
    if kind in ("true", "false"):
        old = ast.unparse(node.test)
        node.test = ast.copy_location(ast.Constant(value=(kind == "true")), node.test)
        return "%s := %s" % (old, kind)
    if kind == "reraise":
        old = "except %s" % (ast.unparse(node.type) if node.type is not None else "")
        r = ast.Raise(exc=None, cause=None)
        ast.copy_location(r, node.body[0])
        node.body = [r]
        return old + ": -> raise"
    raise ValueError(kind)


_scratch = None


def _init(parent):
    global _scratch
    _scratch = tempfile.mkdtemp(prefix="w.", dir=parent)
    shutil.copytree(os.path.join(REPO, "Pyro5"), os.path.join(_scratch, "Pyro5"), ignore=shutil.ignore_patterns("__pycache__"))


def job(args):
    rel, kind, path, fn, lineno = args
    from verif import cli
    from verif.engine.context import Ctx
    from verif.engine.model import AnalysisError
    from verif import report
    src_path = os.path.join(REPO, rel)
    dst_path = os.path.join(_scratch, rel)
    orig = open(src_path).read()
    tree = ast.parse(orig)
    try:
        what = apply(tree, kind, path)
        ast.fix_missing_locations(tree)
        src = ast.unparse(tree)
        compile(src, dst_path, "exec")
    except Exception as x:
        return (rel, kind, fn, lineno, "?", {"_skipped": str(x)[:100]})
    open(dst_path, "w").write(src)
    fired = {}
    try:
        try:
            ctx = Ctx(_scratch)
        except Exception as x:
            return (rel, kind, fn, lineno, what, {"ALL": ["exit2: " + str(x)[:120]]})
        known = report.load_known_findings()
        for prop in cli.PROPERTIES:
            try:
                R, _, _ = cli.run_property(prop, _scratch, "quick", ctx)
                new, kn, stale = cli.classify(prop, R, known)
                if new:
                    fired[prop] = [o.key for o in new][:3]
            except AnalysisError as x:
                fired[prop] = ["exit2: " + str(x)[:120]]
            except Exception as x:
                fired[prop] = ["exit2-internal: %r" % (x,)][:1]
    finally:
        open(dst_path, "w").write(orig)
    return (rel, kind, fn, lineno, what, fired)


def main():
    ap = argparse.ArgumentParser()
    ap.add_argument("--jobs", type=int, default=14)
    ap.add_argument("--modules", default=",".join(MODULES))
    ap.add_argument("--out", default="/tmp/mutation_map.json")
    ap.add_argument("--kinds", default="del,true,false,reraise")
    ap.add_argument("--fn", default="", help="only functions whose qualified name contains one of these comma-separated substrings")
    ap.add_argument("--show", action="store_true", help="print every mutant with the checks that noticed it")
    a = ap.parse_args()
    kinds = set(a.kinds.split(","))
    jobs = []
    for rel in a.modules.split(","):
        p = os.path.join(REPO, rel)
        if not os.path.exists(p):
            continue
        tree = ast.parse(open(p).read())
        for kind, path, fn, lineno in sites(tree):
            if kind in kinds and (not a.fn or any(x in fn for x in a.fn.split(","))):
                jobs.append((rel, kind, path, fn, lineno))
    print("mutants:", len(jobs), file=sys.stderr)
    t0 = time.time()
    res = []
    parent = tempfile.mkdtemp(prefix="mutmap.")
    try:
        with ProcessPoolExecutor(max_workers=a.jobs, initializer=_init, initargs=(parent,)) as ex:
            for i, r in enumerate(ex.map(job, jobs, chunksize=4)):
                res.append(r)
                if i % 200 == 0:
                    print(i, round(time.time() - t0), file=sys.stderr)
    finally:
        shutil.rmtree(parent, ignore_errors=True)
    out = [{"file": r[0], "kind": r[1], "fn": r[2], "line": r[3], "edit": r[4], "fired": r[5]} for r in res]
    json.dump(out, open(a.out, "w"), indent=0)
    surv = [o for o in out if not o["fired"]]
    if a.show:
        for o in out:
            print("%-4s %-40s %4d %-60s => %s" % (o["kind"], o["fn"][-40:], o["line"], o["edit"][:60], sorted(o["fired"]) or "SURVIVES"))
    print("mutants %d, noticed %d, survivors %d, %.0fs" % (len(out), len(out) - len(surv), len(surv), time.time() - t0))


if __name__ == "__main__":
    main()
