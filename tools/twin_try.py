#!/venv/bin/python
"""development aid: twin_try.py <twin-name-substring|all2|all> [--suite] [--keep] [props...]
applies one benign twin to a scratch copy of /repo, optionally runs the pinned test-suite on the copy (the twin must be behaviour preserving),
and runs every property's check on it, printing what differs from the unchanged tree."""
import ast, os, sys, shutil, subprocess, tempfile
from concurrent.futures import ProcessPoolExecutor
sys.path.insert(0, os.path.dirname(os.path.dirname(os.path.abspath(__file__))))
from verif.selftest import mutants


def apply_twin(fn, d):
    for root, _, files in os.walk(os.path.join(d, "Pyro5")):
        for f in files:
            if f.endswith(".py"):
                path = os.path.join(root, f)
                tree = ast.parse(open(path).read())
                tree = fn(tree, os.path.relpath(path, d))
                ast.fix_missing_locations(tree)
                src = ast.unparse(tree)
                compile(src, path, "exec")
                open(path, "w").write(src)


def check(args):
    prop, d = args
    return prop, mutants._run_check(prop, d)


def main():
    argv = sys.argv[1:]
    suite = "--suite" in argv
    keep = "--keep" in argv
    argv = [a for a in argv if not a.startswith("--")]
    sel = argv[0]
    props = argv[1:] or ["C%02d" % i for i in range(1, 21)]
    twins = [(n, f) for n, f in mutants.TWINS if sel == "all" or sel in n]
    if not twins:
        print("no twin matches"); return 2
    with ProcessPoolExecutor(16) as ex:
        base = dict(ex.map(check, [(p, "/repo") for p in props]))
        for name, fn in twins:
            d = tempfile.mkdtemp(prefix="twintry.")
            try:
                shutil.copytree("/repo/Pyro5", d + "/Pyro5", ignore=shutil.ignore_patterns("__pycache__"))
                apply_twin(fn, d)
                if suite:
                    shutil.copytree("/repo/tests", d + "/tests", ignore=shutil.ignore_patterns("__pycache__"))
                    for f in ("setup.py", "setup.cfg", "pyproject.toml", "tox.ini"):
                        if os.path.exists("/repo/" + f):
                            shutil.copy("/repo/" + f, d)
                    r = subprocess.run(["/venv/bin/python", "-m", "pytest", "-q", "-p", "no:cacheprovider", "--timeout=900", "-x"], cwd=d, capture_output=True, text=True,
                                       env=dict(os.environ, PYTHONPATH=d))
                    print("  suite on the twin:", r.stdout.strip().splitlines()[-1] if r.stdout.strip() else r.stderr[-300:])
                    for l in r.stdout.splitlines():
                        if l.startswith("FAILED") or l.startswith("ERROR"):
                            print("    ", l[:300])
                res = dict(ex.map(check, [(p, d) for p in props]))
                bad = 0
                for p in props:
                    b, t = base[p], res[p]
                    if b[0] != t[0] or sorted(b[1]) != sorted(t[1]):
                        bad += 1
                        print("  DIFFERS %s: %s %s %s" % (p, t[0], t[1][:6], t[3][:300]))
                print("twin %-70s %s" % (name, "clean" if not bad else "%d properties differ" % bad))
                if keep:
                    print("  kept:", d)
            finally:
                if not keep:
                    shutil.rmtree(d, ignore_errors=True)


if __name__ == "__main__":
    sys.exit(main())
