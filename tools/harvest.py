#!/venv/bin/python
"""Copies confirmed seeded changes from the agents' worktrees into /verif/seeded/<id>/ and records which rules detect them."""
import json, os, shutil, subprocess, sys, tempfile, re
ROOT = "/verif"
out = {}
for prop in ["C%02d" % i for i in range(1, 21)]:
    for x in "ABC":
        src = "/tmp/wt/%s/_seed/%s" % (prop, x)
        if not os.path.exists(src + "/patch.diff") or not os.path.exists(src + "/confirm.json"):
            continue
        conf = json.load(open(src + "/confirm.json"))
        ok = conf["demo_clean_rc"] == 0 and conf["patch_apply_rc"] == 0 and conf["demo_patched_rc"] != 0 and conf["suite_rc"] == 0 and "449 passed" in conf["suite_tail"]
        if not ok:
            print("NOT CONFIRMED", prop, x, conf); continue
        sid = "%s-%s" % (prop, x)
        dst = os.path.join(ROOT, "seeded", sid)
        os.makedirs(dst, exist_ok=True)
        shutil.copy(src + "/patch.diff", dst + "/patch.diff")
        shutil.copy(src + "/demo.py", dst + "/demo.py")
        notes = open(src + "/NOTES.md").read() if os.path.exists(src + "/NOTES.md") else ""
        open(dst + "/NOTES.md", "w").write(notes)
        # detection: run the property's check (and all others) on a scratch copy with the patch
        d = tempfile.mkdtemp(prefix="seedchk.")
        shutil.copytree("/repo/Pyro5", d + "/Pyro5")
        r = subprocess.run(["patch", "-p1", "-s", "-i", dst + "/patch.diff"], cwd=d, capture_output=True, text=True)
        detected = {}
        if r.returncode == 0:
            for p2 in ["C%02d" % i for i in range(1, 21)]:
                rr = subprocess.run([ROOT + "/bin/check", p2, "--no-evidence", "--no-selftest", "--repo", d], capture_output=True, text=True)
                keys = re.findall(r"^  \S+\s+(C\d\d-R\w+\|\S+)", rr.stdout, re.M)
                if rr.returncode == 1:
                    detected[p2] = keys[:6]
                elif rr.returncode == 2:
                    detected[p2] = ["ANALYSIS-ERROR: " + rr.stdout.strip()[:200]]
        shutil.rmtree(d)
        m = re.search(r"(?im)^\*\*(?:what (?:is|it) need(?:s|ed)[^*]*|needs[^*]*)\*\*[:\s]*(.+)$", notes)
        needs = m.group(1).strip() if m else ""
        meta = {
            "id": sid, "property": prop,
            "origin": "independent sub-agent given only the property text and a scratch worktree",
            "files_touched": conf["files"].split(),
            "needs_to_manifest": needs or "see NOTES.md",
            "confirmed_by_me": {
                "repo_head": conf["repo_head"],
                "commands": ["git worktree add --detach /tmp/hv/<id> HEAD", "/venv/bin/python _seed/X/demo.py  (clean)", "git apply patch.diff",
                             "/venv/bin/python _seed/X/demo.py  (patched)", "/venv/bin/python -m pytest -q -p no:cacheprovider --timeout=900 -x", "git worktree remove --force"],
                "demo_clean_rc": conf["demo_clean_rc"], "demo_patched_rc": conf["demo_patched_rc"], "suite": conf["suite_tail"]},
            "detected_by": detected,
            "detected_by_own_property_check": prop in detected,
        }
        json.dump(meta, open(dst + "/meta.json", "w"), indent=1)
        out[sid] = sorted(detected)
        print(sid, "detected by", {k: v[:2] for k, v in detected.items()})
json.dump(out, open(os.path.join(ROOT, "seeded", "INDEX.json"), "w"), indent=1)
