#!/venv/bin/python
"""development aid: run the AST mutants whose name contains one of the given substrings (all if none) against their property's check"""
import sys
sys.path.insert(0, "/verif")
from concurrent.futures import ProcessPoolExecutor
from verif.selftest import mutants
sel = sys.argv[1:]
jobs = [("mutant", m.prop, "/repo", i) for i, m in enumerate(mutants.MUTANTS) if not sel or any(s in m.name for s in sel)]
with ProcessPoolExecutor(16) as ex:
    for kind, p, payload, status, new, msg in ex.map(mutants._job, jobs, chunksize=1):
        m = mutants.MUTANTS[payload]
        ok = status == "violation" and any(k.startswith(m.rule + "|") for k in new)
        print("%-8s %-55s %-8s %s %s %s" % ("killed" if ok else "SURVIVED", m.name, m.rule, status, new[:3], msg[:200]))
