"""
Obligation bookkeeping, known findings, evidence and violation reports.
"""
import json
import os
import hashlib
from .engine.model import AnalysisError

VERIF_ROOT = os.path.dirname(os.path.dirname(os.path.abspath(__file__)))


class Ob:
    __slots__ = ("rule", "key", "desc", "ok", "loc", "detail")

    def __init__(self, rule, key, desc, ok, loc="", detail=""):
        self.rule = rule
        self.key = key
        self.desc = desc
        self.ok = ok
        self.loc = loc
        self.detail = detail

    def as_dict(self):
        d = {"rule": self.rule, "instance": self.key, "what": self.desc, "verdict": "discharged" if self.ok else "VIOLATED",
             "at": self.loc}
        if self.detail:
            d["detail"] = self.detail
        return d


def run_shared(ctx, mod, Rx, tier):
    """run another property's rule module for the obligations this one shares with it. Results are kept per analysis context (the modules are deterministic); a
    property that is already being computed further up the chain takes nothing from itself (A shares from B, B shares from A: the cycle is cut at the second visit,
    and a result computed with a cut is not kept, so nobody downstream sees an incomplete one)"""
    name = Rx.prop
    cache = ctx.__dict__.setdefault("_shared_cache", {})
    active = ctx.__dict__.setdefault("_shared_active", [])
    if name in active:
        ctx.__dict__["_shared_cut"] = True
        return
    key = (name, tier)
    if key in cache:
        obs, err = cache[key]
        for o in obs:
            Rx.obs.append(o)
            Rx._keys.add(o.key)
        if err is not None:
            raise AnalysisError(err)
        return
    active.append(name)
    outer_cut = ctx.__dict__.get("_shared_cut", False)
    ctx.__dict__["_shared_cut"] = False
    err = None
    try:
        mod.run(ctx, Rx, tier)
    except AnalysisError as x:
        err = str(x)
        raise
    finally:
        active.pop()
        if not ctx.__dict__["_shared_cut"]:
            cache[key] = (list(Rx.obs), err)
        ctx.__dict__["_shared_cut"] = ctx.__dict__["_shared_cut"] or outer_cut


class Rules:
    """collector handed to every property module"""

    def __init__(self, prop):
        self.prop = prop
        self.obs = []
        self.floors = {}
        self.texts = {}
        self.notes = []
        self._keys = set()

    def rule(self, rule_id, text, floor=1):
        self.texts[rule_id] = text
        self.floors[rule_id] = floor

    def add(self, rule, key, desc, ok, loc="", detail=""):
        full = "%s|%s" % (rule, key)
        if full in self._keys:
            # same construct reported twice (e.g. through two CFG copies of a finally block): keep the failing one
            for o in self.obs:
                if o.key == full:
                    if o.ok and not ok:
                        o.ok, o.loc, o.detail, o.desc = ok, loc, detail, desc
                    return o
        self._keys.add(full)
        o = Ob(rule, full, desc, bool(ok), loc, detail)
        self.obs.append(o)
        return o

    def ok(self, rule, key, desc, loc=""):
        return self.add(rule, key, desc, True, loc)

    def fail(self, rule, key, desc, loc="", detail=""):
        return self.add(rule, key, desc, False, loc, detail)

    def check(self, cond, rule, key, desc, loc="", detail=""):
        return self.add(rule, key, desc, bool(cond), loc, "" if cond else detail)

    def note(self, text):
        self.notes.append(text)

    def finish(self):
        for rid, floor in self.floors.items():
            n = sum(1 for o in self.obs if o.rule == rid)
            if n < floor:
                raise AnalysisError("rule %s matched %d construct(s), fewer than the %d confirmed by hand: "
                                    "the anchors of this rule no longer describe the code" % (rid, n, floor))
        for o in self.obs:
            if o.rule not in self.texts:
                raise AnalysisError("obligation for undeclared rule %s" % o.rule)


def load_known_findings():
    path = os.path.join(VERIF_ROOT, "known_findings.json")
    if not os.path.exists(path):
        return {"open": [], "fixed": []}
    with open(path) as f:
        return json.load(f)


def write_report(prop, ob, repo_root, out_root=None):
    h = hashlib.sha1(ob.key.encode()).hexdigest()[:12]
    d = os.path.join(out_root or VERIF_ROOT, "reports", prop)
    os.makedirs(d, exist_ok=True)
    path = os.path.join(d, "%s.json" % h)
    with open(path, "w") as f:
        json.dump({"property": prop, "rule": ob.rule, "instance": ob.key, "what": ob.desc, "at": ob.loc, "detail": ob.detail,
                   "repo": repo_root,
                   "replay": "/verif/bin/check %s --replay %s" % (prop, path)}, f, indent=1)
    return path


def write_evidence(prop, tier, seed, R, ctx, wall, violations, extra=None, explanation=""):
    obs = R.obs
    stats = ctx.cg.statistics() if ctx is not None else {}
    cov = {
        "explanation": explanation,
        "obligations": len(obs),
        "discharged": sum(1 for o in obs if o.ok),
        "evaluations": len(obs),
        "distinct_nontrivial": len({o.key for o in obs}),
        "rule": "one obligation per (rule, concrete construct of /repo/Pyro5 matched by the rule's slots); an obligation is "
                "non-trivial because it is bound to a construct found in the source on this run (rules that match fewer "
                "constructs than confirmed by hand abort the run with exit 2); distinct = distinct (rule, construct) keys",
        "samples": [o.as_dict() for o in obs][:400],
        "exhaustive": True,
        "rules": R.texts,
        "instances_per_rule": {rid: sum(1 for o in obs if o.rule == rid) for rid in R.texts},
        "instance_floors": R.floors,
        "modules_analysed": len(ctx.p.modules) if ctx else 0,
        "functions_analysed": len(ctx.p.functions) if ctx else 0,
        "classes_analysed": len(ctx.p.classes) if ctx else 0,
        "source_digest": ctx.p.digest if ctx else "",
        "call_resolution": {k: v for k, v in stats.items() if k != "unknown_samples"},
        "call_resolution_unknown_samples": stats.get("unknown_samples", []),
        "notes": R.notes,
        "functions_consulted": sorted(ctx.consulted) if ctx else [],
        "cfg_built_for_functions": len(ctx._cfg) if ctx else 0,
        "cfg_nodes": sum(len(c.nodes) for c in ctx._cfg.values()) if ctx else 0,
        "cfg_edges": sum(len(n.succ) for c in ctx._cfg.values() for n in c.nodes) if ctx else 0,
        "escape_analysis": ({"used": True, "functions_solved": len(ctx._escape.result), "calls_classified": ctx._escape.calls_classified,
                             "wild_source_sites": len(ctx._escape.wild_sites), "wild_source_samples": ["%s: %s" % w for w in ctx._escape.wild_sites[:8]],
                             "unclassified_external_calls": ctx._escape.unclassified_ext}
                            if ctx is not None and ctx._escape is not None else {"used": False}),
        "checker_cmd": "/verif/bin/check %s --tier %s" % (prop, tier),
        "trusted_base": ["CPython 3.12 ast grammar", "receiver-type hint table (verif/engine/callgraph.py)",
                         "external-effects tables (verif/engine/escape.py)"],
    }
    if extra:
        cov.update(extra)
    ev = {
        "property_id": prop,
        "tier": tier,
        "seed": seed,
        "level": "other",
        "coverage": cov,
        "assumptions": [
            "the library runs as shipped: no monkey-patching of Pyro5 internals, application subclasses override only the documented hooks",
            "receiver types of attribute calls follow the frozen hint table; unresolved calls are treated as running arbitrary code (escape rules) or resolved by name (who-may-call rules)",
            "implicit KeyError/IndexError/TypeError/AttributeError of subscripts, operators and attribute access are not modelled; BaseExceptions that are not Exceptions are out of scope",
            "what is decided is the structural clause named by each rule (a necessary condition of the property), not the run-time behaviour itself",
        ],
        "wall_s": round(wall, 3),
        "violations": violations,
    }
    d = os.path.join(VERIF_ROOT, "evidence")
    os.makedirs(d, exist_ok=True)
    path = os.path.join(d, "%s.json" % prop)
    tmp = path + ".tmp"
    with open(tmp, "w") as f:
        json.dump(ev, f, indent=1, default=str)
    os.replace(tmp, path)
    return path
