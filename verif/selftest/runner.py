"""Self-test of the rules (thorough tier): mutants that must fire, benign twins that must stay silent."""


def run(prop, repo, seed):
    try:
        from . import mutants
    except ImportError:
        return {"mutants": 0, "twins": 0, "disagreements": [], "note": "no mutant catalogue yet"}
    return mutants.run(prop, repo, seed)
