"""
Self-test of the rules (thorough tier).

Three families, all evaluated on scratch copies of /repo/Pyro5 (tempfile.mkdtemp, removed immediately):
  * AST mutants: one AST-computed edit that breaks exactly one rule and still compiles; the property's check must exit 1 and name that rule.
  * seeded changes (/verif/seeded/*/patch.diff, written by independent sub-agents): must be reported by the checks recorded in their
    meta.json and must stay silent in every other property (they double as benign twins for unrelated rules).
  * benign twins: behaviour-preserving whole-package transformations (re-format through ast.unparse, no-op statements inserted
    everywhere, every function-local variable renamed, every else-less `if` inverted, `{}` written as dict(), a log call at every function entry); every check must report exactly what it reports on the unchanged tree.
A disagreement is an ANALYSIS-ERROR (exit 2), never a violation.
"""
import ast
import copy
import json
import os
import shutil
import subprocess
import sys
import tempfile
import time
from concurrent.futures import ProcessPoolExecutor

VERIF = os.path.dirname(os.path.dirname(os.path.dirname(os.path.abspath(__file__))))


# ------------------------------------------------------------------------------------------------ AST helpers
def find_fn(tree, qual):
    """qual like 'Daemon.handleRequest' or 'recv_stub' or 'Daemon._getInstance.createInstance'"""
    parts = qual.split(".")
    scope = tree.body
    node = None
    for p in parts:
        node = None
        for st in _all_stmts(scope):
            if isinstance(st, (ast.FunctionDef, ast.ClassDef)) and st.name == p:
                node = st
                break
        if node is None:
            raise LookupError("mutant anchor %s not found" % qual)
        scope = node.body
    return node


def _all_stmts(stmts):
    for st in stmts:
        yield st
        if not isinstance(st, (ast.FunctionDef, ast.ClassDef)):
            for field in ("body", "orelse", "finalbody"):
                sub = getattr(st, field, None)
                if isinstance(sub, list) and sub and isinstance(sub[0], ast.stmt):
                    yield from _all_stmts(sub)
            for h in getattr(st, "handlers", []):
                yield from _all_stmts(h.body)


def u(node):
    return " ".join(ast.unparse(node).split())


def stmt_lists(node):
    """all statement lists inside node (not nested defs)"""
    for n in ast.walk(node):
        for field in ("body", "orelse", "finalbody"):
            sub = getattr(n, field, None)
            if isinstance(sub, list) and sub and isinstance(sub[0], ast.stmt):
                yield sub
        if isinstance(n, ast.ExceptHandler):
            yield n.body


def delete_stmt(fn, pred, count=1):
    done = 0
    for lst in stmt_lists(fn):
        for i, st in enumerate(list(lst)):
            if pred(st) and done < count:
                lst.remove(st)
                if not lst:
                    lst.append(ast.Pass())
                done += 1
    if not done:
        raise LookupError("statement to delete not found")


def replace_stmt(fn, pred, new_stmts):
    for lst in stmt_lists(fn):
        for i, st in enumerate(lst):
            if pred(st):
                lst[i:i + 1] = new_stmts(st) if callable(new_stmts) else new_stmts
                return
    raise LookupError("statement to replace not found")


def insert_after(fn, pred, new_stmts):
    for lst in stmt_lists(fn):
        for i, st in enumerate(lst):
            if pred(st):
                lst[i + 1:i + 1] = new_stmts
                return
    raise LookupError("anchor statement not found")


def set_test(fn, pred, new_test_src):
    """replace the test of the first if/while whose test matches pred"""
    for n in ast.walk(fn):
        if isinstance(n, (ast.If, ast.While)) and pred(n.test):
            n.test = ast.parse(new_test_src, mode="eval").body
            return
    raise LookupError("test not found")


def replace_expr(fn, pred, new_src):
    class T(ast.NodeTransformer):
        done = False

        def generic_visit(self, node):
            node = super().generic_visit(node)
            if not self.done and isinstance(node, ast.expr) and pred(node):
                self.done = True
                return ast.parse(new_src, mode="eval").body if isinstance(new_src, str) else new_src(node)
            return node
    t = T()
    t.visit(fn)
    if not t.done:
        raise LookupError("expression not found")


def unwrap_with(fn, pred):
    for lst in stmt_lists(fn):
        for i, st in enumerate(lst):
            if isinstance(st, ast.With) and pred(st):
                lst[i:i + 1] = st.body
                return
    raise LookupError("with statement not found")


def stmts(src):
    return ast.parse(src).body


# ------------------------------------------------------------------------------------------------ mutant catalogue
class Mutant:
    def __init__(self, prop, name, rule, relpath, fn, edit, also=()):
        self.prop, self.name, self.rule, self.relpath, self.fn, self.edit = prop, name, rule, relpath, fn, edit
        self.also = tuple(also)   # other properties whose check legitimately fires too (shared rules)


S, C, P, SU, ST, MX, NSV, CO, CC, GW, SER = ("Pyro5/server.py", "Pyro5/client.py", "Pyro5/protocol.py", "Pyro5/socketutil.py", "Pyro5/svr_threads.py",
                                            "Pyro5/svr_multiplex.py", "Pyro5/nameserver.py", "Pyro5/core.py", "Pyro5/callcontext.py",
                                            "Pyro5/utils/httpgateway.py", "Pyro5/serializers.py")

MUTANTS = [
    # ---- C01
    Mutant("C01", "json-loadsCall-kwargs-not-recreated", "C01-R1", SER, "JsonSerializer.loadsCall",
           lambda f, t: replace_expr(f, lambda e: u(e) == "self.recreate_classes(data['kwargs'])", "data['kwargs']")),
    Mutant("C01", "json-dumpsCall-without-default-hook", "C01-R2", SER, "JsonSerializer.dumpsCall",
           lambda f, t: [setattr(c, "keywords", [k for k in c.keywords if k.arg != "default"]) for c in ast.walk(f)
                         if isinstance(c, ast.Call) and u(c.func) == "json.dumps"]),
    Mutant("C01", "marshal-dumpsCall-kwargs-not-converted", "C01-R2", SER, "MarshalSerializer.dumpsCall",
           lambda f, t: delete_stmt(f, lambda s: isinstance(s, ast.Assign) and u(s.targets[0]) == "kwargs")),
    Mutant("C01", "msgpack-complex-format-mismatch", "C01-R4", SER, "MsgpackSerializer.ext_hook",
           lambda f, t: replace_expr(f, lambda e: isinstance(e, ast.Constant) and e.value == "dd", "'ff'")),
    # ---- C02
    Mutant("C02", "gate-without-private-test", "C02-R2", S, "_get_attribute",
           lambda f, t: set_test(f, lambda e: "is_private_attribute" in u(e), "False")),
    Mutant("C02", "gate-without-exposed-test", "C02-R2", S, "_get_attribute",
           lambda f, t: set_test(f, lambda e: "_pyroExposed" in u(e), "True")),
    Mutant("C02", "direct-getattr-in-normal-call", "C02-R1", S, "Daemon.handleRequest",
           lambda f, t: replace_stmt(f, lambda s: isinstance(s, ast.Assign) and u(s) == "method = _get_attribute(obj, method)" and
                                     not any(isinstance(p_, ast.For) for p_ in _parents(f, s)), stmts("method = getattr(obj, method)"))),
    Mutant("C02", "dotted-traversal", "C02-R2", S, "_get_attribute",
           lambda f, t: replace_stmt(f, lambda s: isinstance(s, ast.Assign) and u(s) == "obj = getattr(obj, attr)",
                                     stmts("for part in attr.split('.'):\n    obj = getattr(obj, part)"))),
    Mutant("C02", "setter-gate-without-exposed-test", "C02-R2", S, "_set_exposed_property_value",
           lambda f, t: set_test(f, lambda e: "_pyroExposed" in u(e), "v.fset")),
    Mutant("C02", "metadata-lists-unexposed", "C02-R3", S, "_get_exposed_members",
           lambda f, t: set_test(f, lambda e: u(e) == "getattr(v, '_pyroExposed', not only_exposed)", "True")),
    # ---- C03
    Mutant("C03", "no-sequence-check", "C03-R1", C, "Proxy._pyroInvoke",
           lambda f, t: delete_stmt(f, lambda s: isinstance(s, ast.Expr) and "pyroCheckSequence" in u(s))),
    Mutant("C03", "handler-does-not-release", "C03-R2", C, "Proxy._pyroInvoke",
           lambda f, t: delete_stmt(f, lambda s: isinstance(s, ast.Expr) and u(s) == "self._pyroRelease()")),
    Mutant("C03", "retry-on-any-communication-error", "C03-R6", C, "_RemoteMethod.__call__",
           lambda f, t: [setattr(h, "type", ast.parse("errors.CommunicationError", mode="eval").body) for h in ast.walk(f) if isinstance(h, ast.ExceptHandler)]),
    Mutant("C03", "reply-with-constant-seq", "C03-R5", S, "Daemon.handleRequest",
           lambda f, t: [c.args.__setitem__(2, ast.Constant(0)) for c in ast.walk(f) if isinstance(c, ast.Call) and u(c.func) == "protocol.SendingMessage"
                         and u(c.args[0]) == "protocol.MSG_RESULT"]),
    Mutant("C03", "server-replies-to-oneway", "C03-R4", S, "Daemon.handleRequest",
           lambda f, t: set_test(f, lambda e: u(e) == "request_flags & protocol.FLAGS_ONEWAY" and True, "False") if False else
           _set_nth_test(f, lambda e: u(e) == "request_flags & protocol.FLAGS_ONEWAY", "False", last=True)),
    Mutant("C03", "client-accepts-any-type", "C03-R7", C, "Proxy._pyroInvoke",
           lambda f, t: replace_expr(f, lambda e: u(e) == "[protocol.MSG_RESULT]", "[protocol.MSG_RESULT, protocol.MSG_PING]")),
    Mutant("C03", "seq-incremented-twice", "C03-R3", C, "Proxy._pyroInvoke",
           lambda f, t: insert_after(f, lambda s: isinstance(s, ast.Assign) and u(s.targets[0]) == "self._pyroSeq", stmts("self._pyroSeq = self._pyroSeq + 1 & 65535"))),
    # ---- C04
    Mutant("C04", "no-dunder-refusal", "C04-R1", SER, "SerializerBase.dict_to_class",
           lambda f, t: set_test(f, lambda e: u(e) == "'__' in classname", "False")),
    Mutant("C04", "errors-branch-without-issubclass", "C04-R2", SER, "SerializerBase.dict_to_class",
           lambda f, t: set_test(f, lambda e: u(e) == "issubclass(errortype, errors.PyroError)", "True")),
    Mutant("C04", "import-in-decoder", "C04-R3", SER, "SerializerBase.dict_to_class",
           lambda f, t: insert_after(f, lambda s: isinstance(s, ast.Assign) and u(s.targets[0]) == "classname" and "get" in u(s.value),
                                     stmts("import importlib\nimportlib.import_module(classname.rsplit('.', 1)[0])"))),
    Mutant("C04", "proxy-constructor-in-decoder", "C04-R3", SER, "SerializerBase.dict_to_class",
           lambda f, t: replace_stmt(f, lambda s: isinstance(s, ast.Assign) and u(s) == "proxy = client.Proxy.__new__(client.Proxy)",
                                     stmts("proxy = client.Proxy(data['state'][0])"))),
    Mutant("C04", "whitelist-without-filter", "C04-R5", SER, None,
           lambda f, t: [setattr(n, "test", ast.Constant(True)) for n in ast.walk(t) if isinstance(n, ast.If) and "issubclass(t, BaseException)" in u(n.test)]),
    # ---- C05
    Mutant("C05", "job-and-worker-catch-only-valueerror", "C05-R1", ST, None,
           lambda f, t: [setattr(h, "type", ast.Name("ValueError", ast.Load())) for fn_ in (find_fn(t, "Worker.run"), find_fn(t, "ClientConnectionJob.__call__"))
                         for h in ast.walk(fn_) if isinstance(h, ast.ExceptHandler) and h.type is not None and u(h.type) == "Exception"], also=("C13", "C18")),
    Mutant("C05", "multiplex-wrapper-narrow-catch", "C05-R1", MX, "SocketServer_Multiplex.handleRequest",
           lambda f, t: [setattr(h, "type", ast.Name("ValueError", ast.Load())) for h in ast.walk(f) if isinstance(h, ast.ExceptHandler) and u(h.type) == "Exception"],
           also=("C13",)),
    Mutant("C05", "no-serialisation-fallback", "C05-R4", S, "Daemon._sendExceptionResponse",
           lambda f, t: replace_stmt(f, lambda s: isinstance(s, ast.Try), lambda s: s.body), also=("C07",)),
    Mutant("C05", "handshake-uncontained-in-thread-server", "C05-R5", ST, "ClientConnectionJob.handleConnection",
           lambda f, t: [setattr(h, "type", ast.Name("OSError", ast.Load())) for h in ast.walk(f) if isinstance(h, ast.ExceptHandler)]),
    Mutant("C05", "accept-loop-handler-breaks", "C05-R1b", ST, "SocketServer_Threadpool.loop",
           lambda f, t: replace_stmt(f, lambda s: isinstance(s, ast.Continue), [ast.Break()])),
    Mutant("C05", "error-reply-also-for-oneway", "C05-R3", S, "Daemon.handleRequest",
           lambda f, t: set_test(f, lambda e: u(e) == "not request_flags & protocol.FLAGS_ONEWAY" and True, "True") if False else
           _set_nth_test(f, lambda e: u(e) == "not request_flags & protocol.FLAGS_ONEWAY", "True", last=True), also=("C03", "C07")),
    # ---- C06
    Mutant("C06", "receiver-without-size-check", "C06-R4", P, "ReceivingMessage.__init__",
           lambda f, t: set_test(f, lambda e: "MAX_MESSAGE_SIZE" in u(e), "False")),
    Mutant("C06", "validate-wrong-slice", "C06-R3", P, "ReceivingMessage.validate",
           lambda f, t: replace_expr(f, lambda e: isinstance(e, ast.Slice) and u(e) == "4:6", lambda e: ast.Slice(ast.Constant(4), ast.Constant(5)))),
    Mutant("C06", "no-tiling-check", "C06-R5", P, "ReceivingMessage.add_payload",
           lambda f, t: delete_stmt(f, lambda s: isinstance(s, ast.Assert) and "annotations_size" in u(s))),
    Mutant("C06", "seq-and-flags-swapped-in-pack", "C06-R2", P, "SendingMessage.__init__",
           lambda f, t: [c.args.__setitem__(slice(5, 7), [c.args[6], c.args[5]]) for c in ast.walk(f) if isinstance(c, ast.Call) and u(c.func) == "struct.pack"
                         and u(c.args[0]) == "_header_format"]),
    Mutant("C06", "body-read-before-header-parse", "C06-R4", P, "recv_stub",
           lambda f, t: _move_before(f, lambda s: isinstance(s, ast.Assign) and u(s.targets[0]) == "payload", lambda s: isinstance(s, ast.Assign) and u(s.targets[0]) == "msg",
                                     "payload = connection.recv(int.from_bytes(header[12:16], 'big') + int.from_bytes(header[16:20], 'big'))")),
    Mutant("C06", "no-identity-check", "C06-R6", P, "ReceivingMessage.__init__",
           lambda f, t: set_test(f, lambda e: "PROTOCOL_VERSION" in u(e), "tag != b'PYRO' or magic != _magic_number")),
    Mutant("C06", "flag-not-cleared-after-decompress", "C06-R7", P, "ReceivingMessage.add_payload",
           lambda f, t: delete_stmt(f, lambda s: isinstance(s, ast.AugAssign) and "FLAGS_COMPRESSED" in u(s)), also=("C01",)),
    # ---- C07
    Mutant("C07", "exception-dict-without-attributes", "C07-R1", SER, "SerializerBase.class_to_dict",
           lambda f, t: [(_drop_key(d, "attributes")) for d in ast.walk(f) if isinstance(d, ast.Dict) and any(isinstance(k, ast.Constant) and k.value == "__exception__" for k in d.keys)]),
    Mutant("C07", "uri-tag-renamed-on-reader", "C07-R2", SER, "SerializerBase.dict_to_class",
           lambda f, t: replace_expr(f, lambda e: isinstance(e, ast.Constant) and e.value == "Pyro5.core.URI", "'Pyro5.core.Uri'")),
    Mutant("C07", "error-reply-without-exception-flag", "C07-R3", S, "Daemon._sendExceptionResponse",
           lambda f, t: delete_stmt(f, lambda s: isinstance(s, ast.AugAssign) and "FLAGS_EXCEPTION" in u(s))),
    Mutant("C07", "client-returns-exception-object", "C07-R4", C, "Proxy._pyroInvoke",
           lambda f, t: set_test(f, lambda e: u(e) == "msg.flags & protocol.FLAGS_EXCEPTION", "False")),
    Mutant("C07", "batch-wrapper-without-traceback", "C07-R5", S, "Daemon.handleRequest",
           lambda f, t: delete_stmt(f, lambda s: isinstance(s, ast.Assign) and u(s.targets[0]) == "xv._pyroTraceback"), also=("C11",)),
    # ---- C08
    Mutant("C08", "request-loop-regardless-of-handshake", "C08-R2", ST, "ClientConnectionJob.__call__",
           lambda f, t: set_test(f, lambda e: u(e) == "self.handleConnection()", "self.handleConnection() or True")),
    Mutant("C08", "register-connection-unconditionally", "C08-R3", MX, "SocketServer_Multiplex.events",
           lambda f, t: set_test(f, lambda e: u(e) == "conn", "True")),
    Mutant("C08", "handshake-accepts-invoke", "C08-R4", S, "Daemon._handshake",
           lambda f, t: replace_expr(f, lambda e: u(e) == "[protocol.MSG_CONNECT]", "[protocol.MSG_CONNECT, protocol.MSG_INVOKE]")),
    Mutant("C08", "connectok-before-validator", "C08-R4", S, "Daemon._handshake",
           lambda f, t: _move_before(f, lambda s: isinstance(s, ast.Assign) and u(s) == "msgtype = protocol.MSG_CONNECTOK",
                                     lambda s: isinstance(s, ast.Assign) and "validateHandshake" in u(s), None)),
    Mutant("C08", "request-receiver-accepts-connect", "C08-R5", S, "Daemon.handleRequest",
           lambda f, t: replace_expr(f, lambda e: u(e) == "[protocol.MSG_INVOKE, protocol.MSG_PING]", "[protocol.MSG_INVOKE, protocol.MSG_PING, protocol.MSG_CONNECT]")),
    Mutant("C08", "dispatch-helper-called-from-daemonobject", "C08-R1", S, "DaemonObject.info",
           lambda f, t: f.body.insert(0, stmts("_get_attribute(self.daemon, 'locationStr')")[0])),
    Mutant("C08", "handshake-true-for-connectfail", "C08-R4", S, "Daemon._handshake",
           lambda f, t: replace_stmt(f, lambda s: isinstance(s, ast.Return) and "MSG_CONNECTOK" in u(s), stmts("return True"))),
    # ---- C09
    Mutant("C09", "session-uses-daemon-table", "C09-R3", S, "Daemon._getInstance",
           lambda f, t: (replace_expr(f, lambda e: u(e) == "conn.pyroInstances.get(clazz)", "self._pyroInstances.get(clazz)"),
                         replace_expr(f, lambda e: u(e) == "conn.pyroInstances[clazz]", "self._pyroInstances[clazz]"))),
    Mutant("C09", "percall-cached", "C09-R4", S, "Daemon._getInstance",
           lambda f, t: replace_stmt(f, lambda s: isinstance(s, ast.Return) and u(s) == "return createInstance(clazz, instance_creator)",
                                     stmts("instance = conn.pyroInstances[clazz] = createInstance(clazz, instance_creator)\nreturn instance"))),
    Mutant("C09", "creator-called-twice", "C09-R5", S, "Daemon._getInstance.createInstance",
           lambda f, t: insert_after(f, lambda s: isinstance(s, ast.Assign) and u(s) == "obj = creator(clazz)", stmts("obj = creator(clazz)"))),
    Mutant("C09", "unknown-mode-accepted-by-decorator", "C09-R6", S, "behavior._behavior",
           lambda f, t: replace_expr(f, lambda e: isinstance(e, ast.Tuple) and u(e) == "('single', 'session', 'percall')", "('single', 'session', 'percall', 'pooled')")),
    # ---- C10
    Mutant("C10", "disconnect-selects-by-equality", "C10-R4", S, "Daemon._clientDisconnect",
           lambda f, t: [setattr(c, "ops", [ast.Eq()]) for c in ast.walk(f) if isinstance(c, ast.Compare) and isinstance(c.ops[0], ast.Is) and u(c.comparators[0]) == "conn"]),
    Mutant("C10", "housekeeping-deletes-unconditionally", "C10-R5", S, "Daemon._housekeeping",
           lambda f, t: set_test(f, lambda e: "last_use_period" in u(e), "True")),
    Mutant("C10", "stream-table-cleared-from-ping", "C10-R2", S, "DaemonObject.ping",
           lambda f, t: f.body.insert(0, stmts("self.daemon.streaming_responses.clear()")[0])),
    Mutant("C10", "stream-id-from-counter", "C10-R3", S, "Daemon._streamResponse",
           lambda f, t: replace_expr(f, lambda e: u(e) == "str(uuid.uuid4())", "str(len(self.streaming_responses))")),
    Mutant("C10", "unknown-stream-not-refused", "C10-R1", S, "DaemonObject.get_next_stream_item",
           lambda f, t: set_test(f, lambda e: "not in" in u(e), "False")),
    # ---- C11
    Mutant("C11", "batch-continues-after-failure", "C11-R2", S, "Daemon.handleRequest",
           lambda f, t: replace_stmt(f, lambda s: isinstance(s, ast.Break) and any(isinstance(p_, ast.ExceptHandler) for p_ in _parents(f, s)) and
                                     any(isinstance(p_, ast.For) for p_ in _parents(f, s)), [ast.Continue()])),
    Mutant("C11", "batch-reply-without-flag", "C11-R4", S, "Daemon.handleRequest",
           lambda f, t: delete_stmt(f, lambda s: isinstance(s, ast.Assign) and u(s) == "wasBatched = True")),
    Mutant("C11", "oneway-batch-not-flagged", "C11-R4", C, "Proxy._pyroInvokeBatch",
           lambda f, t: set_test(f, lambda e: u(e) == "oneway", "False")),
    # ---- C12
    Mutant("C12", "snapshot-forgets-annotations", "C12-R3", CC, "_CallContext.from_global",
           lambda f, t: delete_stmt(f, lambda s: isinstance(s, ast.Assign) and u(s.targets[0]) == "self.annotations")),
    Mutant("C12", "snapshot-taken-in-new-thread", "C12-R3", S, "_OnewayCallThread.__init__",
           lambda f, t: replace_stmt(f, lambda s: isinstance(s, ast.Assign) and "to_global" in u(s), stmts("self.parent_context = None"))),
    Mutant("C12", "shared-empty-dict-as-reset", "C12-R1", S, "Daemon._handshake",
           lambda f, t: replace_stmt(f, lambda s: isinstance(s, ast.Assign) and u(s.targets[0]) == "current_context.response_annotations",
                                     stmts("current_context.response_annotations = _EMPTY_ANNOTATIONS"))),
    Mutant("C12", "error-reply-merges-into-callers-dict", "C12-R4", S, "Daemon._sendExceptionResponse",
           lambda f, t: replace_stmt(f, lambda s: isinstance(s, ast.Assign) and u(s) == "annotations = dict(annotations or {})", stmts("annotations = annotations or current_context.annotations"))),
    Mutant("C12", "seq-not-stored-in-context", "C12-R2", S, "Daemon.handleRequest",
           lambda f, t: delete_stmt(f, lambda s: isinstance(s, ast.Assign) and u(s.targets[0]) == "current_context.seq")),
    Mutant("C12", "context-not-thread-local", "C12-R0", CC, None,
           lambda f, t: [setattr(c, "bases", [ast.Name("object", ast.Load())]) for c in ast.walk(t) if isinstance(c, ast.ClassDef) and c.name == "_CallContext"]),
    # ---- C13
    Mutant("C13", "thread-server-skips-disconnect-handling", "C13-R1", ST, "ClientConnectionJob.__call__",
           lambda f, t: delete_stmt(f, lambda s: isinstance(s, ast.With) and "_client_disconnect_lock" in u(s.items[0].context_expr))),
    Mutant("C13", "hook-called-twice", "C13-R3", S, "Daemon._clientDisconnect",
           lambda f, t: f.body.append(stmts("self.clientDisconnect(conn)")[0])),
    Mutant("C13", "tracked-set-not-cleared", "C13-R5", SU, "SocketConnection.close",
           lambda f, t: delete_stmt(f, lambda s: isinstance(s, ast.Expr) and u(s) == "self.tracked_resources.clear()")),
    Mutant("C13", "timeout-keeps-thread-connection", "C13-R4", ST, "ClientConnectionJob.__call__",
           lambda f, t: [h.body.__setitem__(-1, ast.Continue()) for h in ast.walk(f) if isinstance(h, ast.ExceptHandler) and h.type is not None and "TimeoutError" in u(h.type)]),
    Mutant("C13", "multiplex-skips-unregister", "C13-R2", MX, "SocketServer_Multiplex.events",
           lambda f, t: delete_stmt(f, lambda s: isinstance(s, ast.Expr) and "unregister" in u(s))),
    # ---- C14
    Mutant("C14", "commit-per-item", "C14-R2", NSV, "SqlStorage.remove_items",
           lambda f, t: _move_into_loop(f, lambda s: isinstance(s, ast.Expr) and u(s) == "db.commit()")),
    Mutant("C14", "regex-removal-keeps-own-entry-check-out", "C14-R4", NSV, "NameServer.remove",
           lambda f, t: _delete_nth(f, lambda s: isinstance(s, ast.If) and "NAMESERVER_NAME in items" in u(s.test), 1)),
    Mutant("C14", "memory-storage-without-everything", "C14-R3", NSV, None,
           lambda f, t: [c.body.remove(m) for c in ast.walk(t) if isinstance(c, ast.ClassDef) and c.name == "MemoryStorage" for m in list(c.body)
                         if isinstance(m, ast.FunctionDef) and m.name == "everything"]),
    Mutant("C14", "sql-built-by-concatenation", "C14-R1", NSV, "SqlStorage.__contains__",
           lambda f, t: replace_expr(f, lambda e: isinstance(e, ast.Call) and u(e.func) == "db.execute",
                                     "db.execute(\"SELECT EXISTS(SELECT 1 FROM pyro_names WHERE name='\" + item + \"' LIMIT 1)\")")),
    Mutant("C14", "remove-count-hardcoded", "C14-R6", NSV, "NameServer.remove",
           lambda f, t: replace_stmt(f, lambda s: isinstance(s, ast.Return) and u(s) == "return len(items)", stmts("return len(self.storage)"))),
    # ---- C15
    Mutant("C15", "plain-lock", "C15-R2", NSV, "NameServer.__init__",
           lambda f, t: replace_expr(f, lambda e: u(e) == "threading.RLock()", "threading.Lock()")),
    Mutant("C15", "list-without-lock", "C15-R1", NSV, "NameServer.list",
           lambda f, t: unwrap_with(f, lambda w: u(w.items[0].context_expr) == "self.lock")),
    Mutant("C15", "sleep-under-lock", "C15-R2", NSV, "NameServer.register",
           lambda f, t: [w.body.insert(0, stmts("time.sleep(0.01)")[0]) for w in ast.walk(f) if isinstance(w, ast.With)]),
    # ---- C16
    Mutant("C16", "unregister-can-remove-daemon-object", "C16-R1", S, "Daemon.unregister",
           lambda f, t: delete_stmt(f, lambda s: isinstance(s, ast.If) and "DAEMON_NAME" in u(s.test))),
    Mutant("C16", "registry-written-from-daemonobject", "C16-R3", S, "DaemonObject.ping",
           lambda f, t: f.body.insert(0, stmts("self.daemon.objectsById.pop('x', None)")[0])),
    Mutant("C16", "weak-flag-ignored", "C16-R5", S, "Daemon.register",
           lambda f, t: replace_expr(f, lambda e: isinstance(e, ast.IfExp) and "weakref.ref" in u(e), "obj_or_class")),
    Mutant("C16", "raw-registry-value-used", "C16-R6", S, "Daemon.proxyFor",
           lambda f, t: replace_expr(f, lambda e: u(e) == "_unpack_weakref(self.objectsById[uri.object])", "self.objectsById[uri.object]")),
    # ---- C17
    Mutant("C17", "short-chunk-returned", "C17-R1", SU, "receive_data",
           lambda f, t: set_test(f, lambda e: u(e) == "len(chunk) == size", "chunk")),
    Mutant("C17", "every-errno-retried", "C17-R2", SU, "send_data",
           lambda f, t: set_test(f, lambda e: u(e) == "err not in ERRNO_RETRIES", "False")),
    Mutant("C17", "timeout-reported-as-closed", "C17-R2", SU, "send_data",
           lambda f, t: replace_expr(f, lambda e: u(e) == "TimeoutError('sending: timeout')", "ConnectionClosedError('sending: timeout')")),
    Mutant("C17", "connection-reset-retried", "C17-R4", SU, None,
           lambda f, t: [a.value.elts.append(ast.parse("errno.ECONNRESET", mode="eval").body) for a in t.body if isinstance(a, ast.Assign) and u(a.targets[0]) == "ERRNO_RETRIES"]),
    Mutant("C17", "counter-not-advanced", "C17-R3", SU, "receive_data",
           lambda f, t: delete_stmt(f, lambda s: isinstance(s, ast.AugAssign) and u(s.target) == "msglen")),
    # ---- C18
    Mutant("C18", "process-without-lock", "C18-R1", ST, "Pool.process",
           lambda f, t: unwrap_with(f, lambda w: u(w.items[0].context_expr) == "self.count_lock")),
    Mutant("C18", "join-under-lock", "C18-R2", ST, "Pool.close",
           lambda f, t: [w.body.append(stmts("for p in list(self.idle):\n    p.join(timeout=0.1)")[0]) for w in list(ast.walk(f))[:400] if isinstance(w, ast.With)][:1]),
    Mutant("C18", "refusal-swallowed", "C18-R3", ST, "SocketServer_Threadpool.events",
           lambda f, t: [setattr(h, "body", [ast.Pass()]) for h in ast.walk(f) if isinstance(h, ast.ExceptHandler)]),
    Mutant("C18", "worker-bound-off-by-one", "C18-R3", ST, "Pool.process",
           lambda f, t: [setattr(c, "ops", [ast.LtE()]) for c in ast.walk(f) if isinstance(c, ast.Compare) and "THREADPOOL_SIZE" in u(c)]),
    Mutant("C18", "close-forgets-busy-workers", "C18-R4", ST, "Pool.close",
           lambda f, t: delete_stmt(f, lambda s: isinstance(s, ast.For) and u(s.iter) == "list(self.busy)")),
    # ---- C19
    Mutant("C19", "setstate-fields-swapped", "C19-R1", CO, "URI.__setstate__",
           lambda f, t: [a.targets[0].elts.__setitem__(slice(3, 5), [a.targets[0].elts[4], a.targets[0].elts[3]]) for a in ast.walk(f) if isinstance(a, ast.Assign)]),
    Mutant("C19", "hash-of-object-only", "C19-R1", CO, "URI.__hash__",
           lambda f, t: replace_expr(f, lambda e: u(e) == "hash(self.__getstate__())", "hash(self.object)")),
    Mutant("C19", "empty-sockname-accepted", "C19-R4", CO, "URI._parseLocation",
           lambda f, t: set_test(f, lambda e: "not self.sockname" in u(e), "':' in self.sockname")),
    Mutant("C19", "unix-prefix-differs", "C19-R3", CO, "URI.location",
           lambda f, t: replace_expr(f, lambda e: isinstance(e, ast.Constant) and e.value == "./u:", "'./U:'")),
    Mutant("C19", "nameserver-stores-uri-object", "C19-R5", NSV, "NameServer.register",
           lambda f, t: replace_stmt(f, lambda s: isinstance(s, ast.Assign) and u(s) == "uri = str(uri)", [ast.Pass()])),
    # ---- C20
    Mutant("C20", "key-comparison-inverted", "C20-R1", GW, "process_pyro_request",
           lambda f, t: [setattr(c, "ops", [ast.Eq()]) for c in ast.walk(f) if isinstance(c, ast.Compare) and u(c).endswith("!= pyro_app.gateway_key")] or (_ for _ in ()).throw(LookupError("key comparison not found"))),
    Mutant("C20", "no-pattern-check", "C20-R1", GW, "process_pyro_request",
           lambda f, t: set_test(f, lambda e: "re.match(pyro_app.ns_regex" in u(e), "False")),
    Mutant("C20", "method-invoked-twice", "C20-R3", GW, "process_pyro_request",
           lambda f, t: insert_after(f, lambda s: isinstance(s, ast.Assign) and u(s) == "msg = getattr(proxy, method)(**parameters)", stmts("msg = getattr(proxy, method)(**parameters)"))),
    Mutant("C20", "lookup-before-key-check", "C20-R1", GW, "process_pyro_request",
           lambda f, t: insert_after(f, lambda s: isinstance(s, ast.Assign) and "matches.groups()" in u(s), stmts("uri = get_nameserver().lookup(object_name)"))),
    Mutant("C20", "put-requests-forwarded", "C20-R2", GW, "pyro_app",
           lambda f, t: replace_expr(f, lambda e: isinstance(e, ast.Tuple) and u(e) == "('GET', 'POST', 'OPTIONS')", "('GET', 'POST', 'OPTIONS', 'PUT')")),
    Mutant("C20", "key-compared-as-text", "C20-R4", GW, "process_pyro_request",
           lambda f, t: delete_stmt(f, lambda s: isinstance(s, ast.Assign) and u(s) == "gateway_key = gateway_key.encode('utf-8')")),
    # ---- additions for the agreement rules
    Mutant("C01", "tuples-not-recreated", "C01-R5", SER, "SerializerBase.recreate_classes",
           lambda f, t: delete_stmt(f, lambda s: isinstance(s, ast.If) and u(s.test) == "t is tuple")),
    Mutant("C07", "traceback-attribute-renamed-on-server", "C07-R3", S, "Daemon._sendExceptionResponse",
           lambda f, t: [setattr(a, "attr", "_pyroTB") for a in ast.walk(f) if isinstance(a, ast.Attribute) and a.attr == "_pyroTraceback"]),
    Mutant("C10", "client-calls-renamed-stream-method", "C10-R6", C, "_StreamResultIterator.__next__",
           lambda f, t: replace_expr(f, lambda e: isinstance(e, ast.Constant) and e.value == "get_next_stream_item", "'next_stream_item'")),
    Mutant("C11", "batch-triple-order-swapped", "C11-R5", C, "_BatchedRemoteMethod.__call__",
           lambda f, t: [c.args[0].elts.__setitem__(slice(1, 3), [c.args[0].elts[2], c.args[0].elts[1]]) for c in ast.walk(f) if isinstance(c, ast.Call) and
                         isinstance(c.func, ast.Attribute) and c.func.attr == "append"]),
    Mutant("C14", "sql-getitem-returns-none-for-missing", "C14-R7", NSV, "SqlStorage.__getitem__",
           lambda f, t: replace_stmt(f, lambda s: isinstance(s, ast.Raise) and "KeyError" in u(s), stmts("return None"))),
    Mutant("C17", "connection-recv-caps-size", "C17-R5", SU, "SocketConnection.recv",
           lambda f, t: replace_expr(f, lambda e: u(e) == "receive_data(self.sock, size)", "receive_data(self.sock, min(size, 65536))")),
    Mutant("C19", "proxy-hash-by-identity", "C19-R1", C, "Proxy.__hash__",
           lambda f, t: replace_expr(f, lambda e: u(e) == "hash(self._pyroUri)", "hash(id(self))")),
    # ---- additions (round-2 rules and own extensions)
    Mutant("C01", "marshal-dumpsCall-kwargs-none-dereferenced", "C01-R9", SER, "MarshalSerializer.dumpsCall",
           lambda f, t: replace_expr(f, lambda e: u(e) == "kwargs or {}", "kwargs"), also=("C11",)),
    Mutant("C01", "serpent-dumpsCall-kwargs-len", "C01-R9", SER, "SerpentSerializer.dumpsCall",
           lambda f, t: f.body.insert(0, stmts("if len(kwargs) > 255:\n    raise ValueError('too many keyword arguments')")[0]), also=("C11",)),
    Mutant("C01", "msgpack-loadsCall-kwargs-items-unguarded", "C01-R9", SER, "MsgpackSerializer.loadsCall",
           lambda f, t: replace_expr(f, lambda e: u(e) == "self.recreate_classes(kwargs)", "self.recreate_classes({str(k): v for k, v in kwargs.items()})")),
    # ---- round-4 rules and the rules for F19-F28
    Mutant("C01", "convertToBytes-returns-underlying-buffer", "C01-R11", SER, "SerializerBase._convertToBytes",
           lambda f, t: replace_expr(f, lambda e: u(e) == "data.tobytes()", "data.obj")),
    Mutant("C01", "marshal-lists-passed-through-unconverted", "C01-R10", SER, "MarshalSerializer.convert_obj_into_marshallable",
           lambda f, t: replace_expr(f, lambda e: u(e) == "(str, int, float, type(None), bool, complex, bytes, bytearray)",
                                     "(str, int, float, type(None), bool, complex, bytes, bytearray, list, tuple)"), also=("C11",)),
    Mutant("C02", "reset-cache-key-without-class-normalisation", "C02-R3", S, "_reset_exposed_members",
           lambda f, t: delete_stmt(f, lambda s: isinstance(s, ast.If) and "isclass" in u(s.test))),
    Mutant("C02", "msgpack-loadsCall-coerces-method-name", "C02-R6", SER, "MsgpackSerializer.loadsCall",
           lambda f, t: replace_expr(f, lambda e: isinstance(e, ast.Tuple) and isinstance(e.ctx, ast.Load) and u(e) == "(obj, method, vargs, kwargs)", "(obj, str(method), vargs, kwargs)")),
    Mutant("C03", "invoke-handler-narrowed-to-connection-closed", "C03-R2", C, "Proxy._pyroInvoke",
           lambda f, t: replace_expr(f, lambda e: u(e) == "(errors.CommunicationError, KeyboardInterrupt)", "(errors.ConnectionClosedError, KeyboardInterrupt)")),
    Mutant("C07", "default-error-hook-indexes-client-address", "C07-R6", S, "_default_methodcall_error_handler",
           lambda f, t: replace_expr(f, lambda e: isinstance(e, ast.Constant) and isinstance(e.value, str) and e.value.startswith("exception occurred in method call"),
                                     "'exception occurred in method call user code: client={0[0]} method={1} exception={2}'")),
    Mutant("C08", "handshake-adopts-serializer-id-before-lookup", "C08-R4", S, "Daemon._handshake",
           lambda f, t: _move_before(f, lambda s: u(s) == "serializer_id = msg.serializer_id", lambda s: u(s).startswith("serializer = serializers.serializers_by_id["), None), also=("C18",)),
    Mutant("C09", "session-table-shared-default", "C09-R7", SU, "SocketConnection.__init__",
           lambda f, t: replace_stmt(f, lambda s: u(s).startswith("self.pyroInstances ="), stmts("self.pyroInstances = _NO_INSTANCES"))),
    Mutant("C10", "stream-removal-with-plain-del", "C10-R1", S, "DaemonObject.get_next_stream_item",
           lambda f, t: replace_stmt(f, lambda s: isinstance(s, ast.Expr) and "streaming_responses.pop(" in u(s), stmts("del self.daemon.streaming_responses[streamId]"))),
    Mutant("C10", "stream-table-shared-default", "C10-R7", S, "Daemon.__init__",
           lambda f, t: replace_stmt(f, lambda s: u(s).startswith("self.streaming_responses ="), stmts("self.streaming_responses = _NO_STREAMS"))),
    Mutant("C13", "tracked-resources-shared-default", "C13-R6", SU, "SocketConnection.__init__",
           lambda f, t: replace_stmt(f, lambda s: u(s).startswith("self.tracked_resources"), stmts("self.tracked_resources = _NO_RESOURCES"))),
    Mutant("C14", "sql-setitem-writes-key-instead-of-uri", "C14-R10", NSV, "SqlStorage.__setitem__",
           lambda f, t: replace_expr(f, lambda e: u(e) == "(key, uri)", "(key, key)"), also=("C19",)),
    Mutant("C16", "class_to_dict-detaches-the-object", "C16-R7", SER, "SerializerBase.class_to_dict",
           lambda f, t: f.body.insert(1, stmts("if hasattr(obj, '_pyroDaemon'):\n    obj._pyroDaemon = None")[0])),
    Mutant("C16", "nothing-exposed-test-ignores-attributes", "C16-R9", C, "Proxy.__processMetadata",
           lambda f, t: set_test(f, lambda e: u(e) == "not self._pyroMethods and (not self._pyroAttrs)", "not self._pyroMethods")),
    Mutant("C16", "registry-shared-default", "C16-R8", S, "Daemon.__init__",
           lambda f, t: replace_stmt(f, lambda s: u(s).startswith("self.objectsById ="), stmts("self.objectsById = _REGISTRY"))),
    Mutant("C17", "partialData-dropped-on-fatal-errno", "C17-R2", SU, "receive_data",
           lambda f, t: delete_stmt(f, lambda s: u(s) == "err.partialData = data", count=1)),
    Mutant("C17", "buffer-reset-inside-retry-loop", "C17-R1", SU, "receive_data",
           lambda f, t: [w for w in ast.walk(f) if isinstance(w, ast.While) and any(isinstance(x, ast.While) for b in w.body for x in ast.walk(b))][-1].body.insert(
               0, stmts("data = bytearray()")[0]), also=("C06",)),
    Mutant("C17", "sendall-retried-in-a-loop", "C17-R3", SU, "send_data",
           lambda f, t: replace_stmt(f, lambda s: isinstance(s, ast.Try) and "sendall" in u(s), lambda s: [ast.While(test=ast.Constant(True), body=[s], orelse=[])])),
    Mutant("C18", "deny-handler-narrowed-to-oserror", "C18-R3", ST, "ClientConnectionJob.denyConnection",
           lambda f, t: [setattr(h, "type", ast.parse("OSError", mode="eval").body) for n in ast.walk(f) if isinstance(n, ast.Try) for h in n.handlers], also=("C05",)),
    Mutant("C18", "pool-sets-shared-default", "C18-R5", ST, "Pool.__init__",
           lambda f, t: replace_stmt(f, lambda s: u(s) == "self.busy = set()", stmts("self.busy = _BUSY"))),
    Mutant("C19", "blank-metadata-tag-set-accepted", "C19-R4", CO, "URI.__init__",
           lambda f, t: delete_stmt(f, lambda s: isinstance(s, ast.If) and u(s.test) == "not self.object")),
    Mutant("C20", "member-name-not-screened-for-proxy-internals", "C20-R3", GW, "process_pyro_request",
           lambda f, t: delete_stmt(f, lambda s: isinstance(s, ast.If) and "startswith('_')" in u(s.test))),
    Mutant("C20", "cached-nameserver-returned-unchecked", "C20-R3", GW, "get_nameserver",
           lambda f, t: replace_stmt(f, lambda s: isinstance(s, ast.Try), stmts("return _nameserver"))),
    # ---- rules derived from the mutation map (DESIGN 10.9)
    Mutant("C03", "ping-answer-falls-through-to-dispatch", "C03-R4", S, "Daemon.handleRequest",
           lambda f, t: delete_stmt(f, lambda s: isinstance(s, ast.Return) and s.value is None, count=1)),
    Mutant("C03", "receive-failure-swallowed", "C03-R4", S, "Daemon.handleRequest",
           lambda f, t: delete_stmt(f, lambda s: u(s) == "raise x")),
    Mutant("C12", "peer-address-left-stale-when-getpeername-fails", "C12-R2", S, "Daemon.handleRequest",
           lambda f, t: delete_stmt(f, lambda s: u(s) == "current_context.client_sock_addr = None")),
    Mutant("C12", "request-correlation-id-ignored", "C12-R2", S, "Daemon.handleRequest",
           lambda f, t: set_test(f, lambda e: u(e) == "msg.flags & protocol.FLAGS_CORR_ID", "False")),
    Mutant("C12", "client-does-not-reset-annotations-before-send", "C12-R5", C, "Proxy._pyroInvoke",
           lambda f, t: delete_stmt(f, lambda s: u(s) == "current_context.response_annotations = {}")),
    Mutant("C16", "unknown-object-not-refused", "C16-R3", S, "Daemon.handleRequest",
           lambda f, t: delete_stmt(f, lambda s: isinstance(s, ast.Raise) and "unknown object" in u(s))),
    Mutant("C01", "reply-serializer-mismatch-not-refused", "C01-R6", C, "Proxy._pyroInvoke",
           lambda f, t: delete_stmt(f, lambda s: isinstance(s, ast.Raise) and "SerializeError" in u(s))),
    Mutant("C20", "raw-wire-response-ignored", "C20-R3", C, "Proxy._pyroInvoke",
           lambda f, t: delete_stmt(f, lambda s: u(s) == "return msg")),
    Mutant("C10", "client-ignores-stream-flag", "C10-R6", C, "Proxy._pyroInvoke",
           lambda f, t: set_test(f, lambda e: u(e) == "msg.flags & protocol.FLAGS_ITEMSTREAMRESULT", "False")),
    Mutant("C08", "multiplex-refused-connection-left-open", "C08-R3", MX, "SocketServer_Multiplex._handleConnection",
           lambda f, t: delete_stmt(f, lambda s: u(s) == "conn.close()")),
    Mutant("C08", "handshake-answer-header-keeps-default-serializer", "C08-R4", S, "Daemon._handshake",
           lambda f, t: delete_stmt(f, lambda s: u(s) == "serializer_id = msg.serializer_id")),
    Mutant("C08", "handshake-answer-not-sent", "C08-R4", S, "Daemon._handshake",
           lambda f, t: delete_stmt(f, lambda s: u(s) == "conn.send(msg.data)")),
    Mutant("C17", "short-waitall-read-not-counted", "C17-R3", SU, "receive_data",
           lambda f, t: delete_stmt(f, lambda s: u(s) == "msglen = len(chunk)")),
    Mutant("C17", "waitall-read-repeated-after-short-read", "C17-R1", SU, "receive_data",
           lambda f, t: delete_stmt(f, lambda s: isinstance(s, ast.Break), count=1), also=("C06",)),
    Mutant("C05", "handler-variable-not-initialised", "C05-R8", S, "Daemon.handleRequest",
           lambda f, t: delete_stmt(f, lambda s: u(s) == "isCallback = False"), also=("C07",)),
    Mutant("C09", "registered-class-dispatched-without-instance", "C09-R5", S, "Daemon.handleRequest",
           lambda f, t: set_test(f, lambda e: u(e) == "inspect.isclass(obj)", "False")),
    Mutant("C10", "call-result-bypasses-streamResponse", "C10-R3", S, "Daemon.handleRequest",
           lambda f, t: delete_stmt(f, lambda s: "_streamResponse(" in u(s) and isinstance(s, ast.Assign), count=1)),
    Mutant("C06", "annotation-id-width-not-checked", "C06-R3", P, "SendingMessage.__init__",
           lambda f, t: delete_stmt(f, lambda s: isinstance(s, ast.If) and u(s.test) == "len(k) != 4")),
    Mutant("C06", "annotation-value-type-not-checked", "C06-R3", P, "SendingMessage.__init__",
           lambda f, t: delete_stmt(f, lambda s: isinstance(s, ast.If) and "isinstance(v" in u(s.test))),
    Mutant("C16", "instances-get-no-auto-proxy-hook", "C16-R5", S, "Daemon.register",
           lambda f, t: replace_stmt(f, lambda s: isinstance(s, ast.Expr) and "register_type_replacement(type(" in u(s), [ast.Pass()])),
    Mutant("C13", "connection-close-does-not-close-the-socket", "C13-R5", SU, "SocketConnection.close",
           lambda f, t: delete_stmt(f, lambda s: u(s) == "self.sock.close()")),
    Mutant("C02", "property-named-call-falls-through-to-the-object", "C02-R2", S, "_get_attribute",
           lambda f, t: delete_stmt(f, lambda s: isinstance(s, ast.Raise) and "unexposed attribute" in u(s), count=1)),
    Mutant("C02", "property-gate-falls-off-its-end", "C02-R2", S, "_get_exposed_property_value",
           lambda f, t: delete_stmt(f, lambda s: isinstance(s, ast.Raise) and "unexposed or unknown" in u(s))),
    Mutant("C02", "class-expose-marks-private-members", "C02-R5", S, "expose",
           lambda f, t: set_test(f, lambda e: u(e) == "is_private_attribute(name)", "False")),
    Mutant("C18", "finished-worker-stays-busy", "C18-R4", ST, "Pool.notify_done",
           lambda f, t: delete_stmt(f, lambda s: u(s) == "self.busy.remove(worker)")),
    Mutant("C18", "finished-worker-neither-idle-nor-retired", "C18-R4", ST, "Pool.notify_done",
           lambda f, t: delete_stmt(f, lambda s: u(s) == "self.idle.add(worker)")),
    Mutant("C18", "idle-workers-kept-without-minimum-test", "C18-R4", ST, "Pool.notify_done",
           lambda f, t: set_test(f, lambda e: u(e) == "len(self.idle) >= config.THREADPOOL_SIZE_MIN", "False")),
    Mutant("C18", "chosen-worker-not-counted-busy", "C18-R3", ST, "Pool.process",
           lambda f, t: delete_stmt(f, lambda s: u(s) == "self.busy.add(worker)")),
    Mutant("C18", "new-worker-not-started", "C18-R3", ST, "Pool.process",
           lambda f, t: delete_stmt(f, lambda s: u(s) == "worker.start()")),
    Mutant("C18", "idle-workers-never-reused", "C18-R3", ST, "Pool.process",
           lambda f, t: set_test(f, lambda e: u(e) == "self.idle", "False")),
    Mutant("C18", "worker-event-not-cleared", "C18-R4", ST, "Worker.run",
           lambda f, t: delete_stmt(f, lambda s: u(s) == "self.job_available.clear()")),
    Mutant("C09", "session-instance-not-remembered", "C09-R3", S, "Daemon._getInstance",
           lambda f, t: delete_stmt(f, lambda s: u(s) == "conn.pyroInstances[clazz] = instance")),
    Mutant("C07", "error-reply-without-traceback", "C07-R3", S, "Daemon._sendExceptionResponse",
           lambda f, t: delete_stmt(f, lambda s: u(s) == "exc_value._pyroTraceback = tbinfo", count=1)),
    Mutant("C07", "error-reply-not-sent", "C07-R3", S, "Daemon._sendExceptionResponse",
           lambda f, t: delete_stmt(f, lambda s: u(s) == "connection.send(msg.data)")),
    # ---- round-5 rules
    Mutant("C11", "batchproxy-copy-shares-the-call-list", "C11-R4", C, "BatchProxy.__copy__",
           lambda f, t: replace_expr(f, lambda e: u(e) == "list(self.__calls)", "self.__calls")),
    Mutant("C09", "session-table-written-under-another-key", "C09-R3", S, "Daemon._getInstance",
           lambda f, t: replace_stmt(f, lambda s: u(s) == "conn.pyroInstances[clazz] = instance", stmts("conn.pyroInstances[type(instance)] = instance"))),
    Mutant("C04", "class-tag-tested-by-truthiness", "C04-R1", SER, "SerializerBase.recreate_classes",
           lambda f, t: set_test(f, lambda e: u(e) == "'__class__' in literal", "literal.get('__class__')")),
    Mutant("C16", "falsy-weak-object-reported-dead", "C16-R6", S, "_unpack_weakref",
           lambda f, t: set_test(f, lambda e: u(e) == "ret is None", "not ret")),
    Mutant("C16", "blob-annotation-names-the-uri-object", "C16-R3", C, "Proxy.__serializeBlobArgs",
           lambda f, t: replace_expr(f, lambda e: u(e) == "(blob.info, objectId, methodname)", "(blob.info, self._pyroUri.object, methodname)")),
    Mutant("C19", "metadata-tags-joined-with-blank", "C19-R3", CO, "URI.__str__",
           lambda f, t: replace_expr(f, lambda e: isinstance(e, ast.Constant) and e.value == ",", "', '")),
    Mutant("C15", "nsc-register-not-safe", "C15-R4", "Pyro5/nsc.py", "handle_command.cmd_register",
           lambda f, t: [setattr(c, "keywords", []) for c in ast.walk(f) if isinstance(c, ast.Call) and u(c.func) == "namesrv.register"]),
    Mutant("C14", "nsc-yplookup-all-asks-any", "C14-R11", "Pyro5/nsc.py", "handle_command.cmd_yplookup_all",
           lambda f, t: [setattr(k, "arg", "meta_any") for c in ast.walk(f) if isinstance(c, ast.Call) for k in c.keywords if k.arg == "meta_all"]),
    Mutant("C05", "any-accept-error-ends-the-multiplex-loop", "C05-R1b", MX, "SocketServer_Multiplex._handleConnection",
           lambda f, t: set_test(f, lambda e: "ERRNO_BADF" in u(e), "err not in socketutil.ERRNO_RETRIES")),
    Mutant("C10", "stream-close-helper-is-a-bare-proxy", "C10-R6", C, "_StreamResultIterator.close",
           lambda f, t: replace_expr(f, lambda e: u(e) == "self.proxy.__copy__()", "Proxy(self.proxy._pyroUri)")),
    Mutant("C18", "deny-log-line-indexes-the-peer-address", "C18-R3", ST, "ClientConnectionJob.denyConnection",
           lambda f, t: replace_stmt(f, lambda s: isinstance(s, ast.Expr) and "client connection was denied" in u(s),
                                     stmts("log.warning('client connection from %s was denied: %s', self.caddr[0], reason)"))),
    # ---- round-6 rules
    Mutant("C10", "stream-id-from-correlation-id-or-uuid", "C10-R3", S, "Daemon._streamResponse",
           lambda f, t: replace_expr(f, lambda e: u(e) == "str(uuid.uuid4())", "str(current_context.correlation_id or uuid.uuid4())"), also=("C03",)),
    Mutant("C07", "default-error-hook-percent-formats-peer-address", "C07-R6", S, "_default_methodcall_error_handler",
           lambda f, t: f.body.append(stmts("log.debug('client %s:%d' % client_sock)")[0])),
    Mutant("C13", "disconnect-handler-indexes-exception-args", "C13-R4", ST, "ClientConnectionJob.__call__",
           lambda f, t: replace_expr(f, lambda e: isinstance(e, ast.Call) and u(e.func) == "log.warning" and "clientDisconnect" in u(e), "log.warning('Error in clientDisconnect: %s', x.args[0])"),
           also=("C09",)),
    Mutant("C05", "timeout-set-on-the-listening-socket", "C05-R1b", ST, "SocketServer_Threadpool.events",
           lambda f, t: replace_expr(f, lambda e: u(e) == "csock.settimeout", "self.sock.settimeout")),
    Mutant("C11", "compat-batch-drops-oneway", "C11-R4", "Pyro5/compatibility/Pyro4.py", "BatchProxy.__call__",
           lambda f, t: replace_expr(f, lambda e: isinstance(e, ast.Call) and u(e.func).endswith("__call__") and "super" in u(e), "super().__call__(oneway=asynchronous)")),
    Mutant("C14", "sqlite-name-column-with-numeric-affinity", "C14-R12", NSV, "SqlStorage._create_schema",
           lambda f, t: replace_expr(f, lambda e: isinstance(e, ast.Constant) and isinstance(e.value, str) and "CREATE TABLE pyro_names" in e.value,
                                     lambda e: ast.Constant(value=e.value.replace("name nvarchar", "name string")))),
    Mutant("C15", "sql-setitem-in-autocommit-mode", "C15-R3", NSV, "SqlStorage.__setitem__",
           lambda f, t: [c.keywords.append(ast.keyword(arg="isolation_level", value=ast.Constant(value=None))) for c in ast.walk(f) if isinstance(c, ast.Call) and u(c.func) == "sqlite3.connect"], also=("C14",)),
    Mutant("C17", "empty-chunk-raises-before-length-test", "C17-R1", SU, "receive_data",
           lambda f, t: insert_after(f, lambda s: isinstance(s, ast.Assign) and "MSG_WAITALL" in u(s), stmts("if not chunk:\n    raise ConnectionClosedError('receiving: not enough data')")), also=("C06", "C08")),
    Mutant("C14", "yplookup-any-passes-tags-as-given", "C14-R5", NSV, "NameServer.yplookup",
           lambda f, t: delete_stmt(f, lambda s: u(s) == "meta_any = frozenset(meta_any)")),
    Mutant("C06", "annotation-memoryviews-measured-in-items", "C06-R3", P, "SendingMessage.__init__",
           lambda f, t: delete_stmt(f, lambda s: isinstance(s, ast.Assign) and "cast('B')" in u(s))),
    Mutant("C01", "marshal-call-envelope-swapped", "C01-R7", SER, "MarshalSerializer.dumpsCall",
           lambda f, t: replace_expr(f, lambda e: u(e) == "(obj, method, vargs, kwargs)", "(obj, method, kwargs, vargs)")),
    Mutant("C01", "json-call-envelope-key-mismatch", "C01-R7", SER, "JsonSerializer.loadsCall",
           lambda f, t: replace_expr(f, lambda e: u(e) == "data['params']", "data['kwargs']")),
    Mutant("C02", "gate-called-with-star-args", "C02-R1", S, "Daemon.handleRequest",
           lambda f, t: replace_expr(f, lambda e: u(e) == "_get_exposed_property_value(obj, vargs[0])", "_get_exposed_property_value(obj, *vargs)")),
    Mutant("C02", "metadata-cache-keyed-by-name", "C02-R3", S, "_get_exposed_members",
           lambda f, t: replace_expr(f, lambda e: u(e) == "(obj, only_exposed)", "(obj.__name__, only_exposed)")),
    Mutant("C03", "no-reconnect-after-release", "C03-R8", C, "Proxy._pyroInvoke",
           lambda f, t: delete_stmt(f, lambda s: isinstance(s, ast.If) and "self._pyroConnection is None" in u(s.test))),
    Mutant("C07", "property-errors-swallowed", "C07-R6", S, "_get_exposed_property_value",
           lambda f, t: replace_stmt(f, lambda s: isinstance(s, ast.If) and "isdatadescriptor" in u(s.test),
                                     lambda s: stmts("try:\n    pass\nexcept AttributeError:\n    pass")[0:0] + [ast.Try(body=[s], handlers=[ast.ExceptHandler(type=ast.Name("AttributeError", ast.Load()), name=None, body=[ast.Pass()])], orelse=[], finalbody=[])])),
    Mutant("C08", "validator-in-conditional-expression", "C08-R4", S, "Daemon._handshake",
           lambda f, t: replace_expr(f, lambda e: u(e) == "self.validateHandshake(conn, data['handshake'])", "self.validateHandshake(conn, data['handshake']) if 'handshake' in data else None")),
    Mutant("C10", "lifetime-only-for-attached-streams", "C10-R5", S, "Daemon._housekeeping",
           lambda f, t: set_test(f, lambda e: u(e) == "info", "info and not info[2]")),
    Mutant("C14", "prefix-filter-case-folded", "C14-R8", NSV, "NameServer.list",
           lambda f, t: replace_expr(f, lambda e: u(e) == "name.startswith(prefix)", "name.lower().startswith(prefix.lower())")),
    Mutant("C18", "handoff-after-lock-release", "C18-R3", ST, "Pool.process",
           lambda f, t: _move_out_of_with(f, lambda s: isinstance(s, ast.Expr) and u(s) == "worker.process(job)")),
    Mutant("C19", "host-in-format-string", "C19-R3", CO, "URI.location",
           lambda f, t: replace_expr(f, lambda e: u(e) == "'%s:%d' % (self.host, self.port)", "(self.host + ':%d') % self.port")),
    # ---- rules added after the seventh blind round (DESIGN 10.12)
    Mutant("C03", "remote-method-cached-in-proxy-dict", "C03-R6", C, "Proxy.__getattr__",
           lambda f, t: replace_stmt(f, lambda s: isinstance(s, ast.Return) and "_RemoteMethod" in u(s),
                                     stmts("m = _RemoteMethod(self._pyroInvoke, name, self._pyroMaxRetries)\nself.__dict__[name] = m\nreturn m"))),
    Mutant("C09", "expose-establishes-default-instance-mode", "C09-R6", S, "expose",
           lambda f, t: insert_after(f, lambda s: isinstance(s, ast.Expr) and "exposing all members" in u(s), stmts("if '_pyroInstancing' not in clazz.__dict__:\n    clazz._pyroInstancing = ('session', None)"))),
    Mutant("C12", "annotations-merged-into-the-hooks-dict", "C12-R4", S, "Daemon.__annotations",
           lambda f, t: setattr(f, "body", stmts("annotations = self.annotations()\nannotations.update(current_context.response_annotations)\nreturn annotations"))),
    Mutant("C14", "old-tags-removed-only-if-new-tags-given", "C14-R10", NSV, "SqlStorage.__setitem__",
           lambda f, t: replace_stmt(f, lambda s: isinstance(s, ast.Expr) and "DELETE FROM pyro_metadata" in u(s),
                                     stmts("if metadata:\n    cursor.execute('DELETE FROM pyro_metadata WHERE object=?', (dbid,))")) or
           replace_stmt(f, lambda s: isinstance(s, ast.Expr) and "DELETE FROM pyro_names" in u(s), stmts("if metadata:\n    cursor.execute('DELETE FROM pyro_names WHERE id=?', (dbid,))")),
           also=("C15", "C19")),
    Mutant("C15", "autocleaner-deletes-through-the-storage", "C15-R1", NSV, "AutoCleaner.run",
           lambda f, t: replace_expr(f, lambda e: u(e) == "self.nameserver.remove(name)", "self.nameserver.storage.remove_items([name])")),
    Mutant("C15", "memory-storage-edits-stored-tags", "C15-R1", NSV, "MemoryStorage.__setitem__",
           lambda f, t: insert_after(f, lambda s: isinstance(s, ast.Assign) and u(s) == "uri, metadata = value",
                                     stmts("current = self.get(key)\nif current is not None and metadata and current[0] == uri and isinstance(current[1], set):\n    current[1].clear()\n    current[1].update(metadata)\n    return"))),
    Mutant("C17", "waitall-chosen-by-global-ssl-switch", "C17-R1", SU, "receive_data",
           lambda f, t: set_test(f, lambda e: "getpeercert" in u(e), "USE_MSG_WAITALL and not config.SSL"), also=("C06", "C08")),
    Mutant("C18", "worker-returned-from-finally", "C18-R4", ST, "Worker.run",
           lambda f, t: _worker_finally(f), also=("C05",)),
    Mutant("C05", "event-cleared-after-notify-done", "C05-R2", ST, "Worker.run",
           lambda f, t: (delete_stmt(f, lambda s: isinstance(s, ast.Expr) and u(s) == "self.job_available.clear()"),
                         insert_after(f, lambda s: isinstance(s, ast.Expr) and u(s) == "self.pool.notify_done(self)", stmts("self.job_available.clear()"))), also=("C18",)),
    Mutant("C13", "stream-closed-before-the-hook", "C13-R3", S, "Daemon._clientDisconnect",
           lambda f, t: replace_stmt(f, lambda s: isinstance(s, ast.Delete), lambda s: stmts("info[3].close()") + [s])),
    Mutant("C13", "client-set-after-instance-creation", "C13-R7", S, "Daemon.handleRequest",
           lambda f, t: (delete_stmt(f, lambda s: isinstance(s, ast.Assign) and u(s) == "current_context.client = conn"),
                         insert_after(f, lambda s: isinstance(s, ast.If) and u(s.test) == "inspect.isclass(obj)", stmts("current_context.client = conn"))), also=("C12",)),
    Mutant("C02", "property-read-through-getattr", "C02-R2", S, "_get_exposed_property_value",
           lambda f, t: replace_expr(f, lambda e: u(e) == "v.fget(obj)", "getattr(obj, propname)"), also=("C07",)),
    Mutant("C07", "property-written-through-setattr", "C07-R6", S, "_set_exposed_property_value",
           lambda f, t: replace_expr(f, lambda e: u(e) == "v.fset(obj, value)", "setattr(obj, propname, value)"), also=("C02",)),
    Mutant("C02", "cache-reset-given-the-weak-reference", "C02-R3", S, "Daemon.resetMetadataCache",
           lambda f, t: replace_expr(f, lambda e: u(e) == "_unpack_weakref(self.objectsById[uri.object])", "self.objectsById[uri.object]"), also=("C16",)),
    Mutant("C16", "handshake-lookup-by-truthiness", "C16-R3", S, "DaemonObject.get_metadata",
           lambda f, t: set_test(f, lambda e: u(e) == "obj is not None", "obj"), also=("C08",)),
    Mutant("C20", "key-tested-by-membership", "C20-R1", GW, "process_pyro_request",
           lambda f, t: set_test(f, lambda e: u(e) == "gateway_key != pyro_app.gateway_key", "not gateway_key or gateway_key not in pyro_app.gateway_key")),
    Mutant("C20", "sqlite-answers-the-regex-listing-unanchored", "C20-R1", NSV, "SqlStorage.optimized_regex_list",
           lambda f, t: setattr(f, "body", stmts("with sqlite3.connect(self.dbfile) as db:\n    db.create_function('REGEXP', 2, lambda pat, s: re.search(pat, s) is not None)\n"
                                                 "    return dict(db.execute('SELECT name, uri FROM pyro_names WHERE name REGEXP ?', (regex,)).fetchall())")), also=("C14",)),
    Mutant("C05", "multiplex-catch-all-formats-the-exception-eagerly", "C05-R1", MX, "SocketServer_Multiplex.handleRequest",
           lambda f, t: replace_stmt(f, lambda s: isinstance(s, ast.Expr) and u(s).startswith("log.warning('error during handleRequest: %s; %s', ex_v"),
                                     stmts("log.warning('error during handleRequest: %s; %s' % (ex_v, ''.join(tb)))"))),
    Mutant("C13", "disconnect-handler-stringifies-the-hooks-exception", "C13-R1", ST, "ClientConnectionJob.__call__",
           lambda f, t: replace_stmt(f, lambda s: isinstance(s, ast.Expr) and u(s) == "log.warning('Error in clientDisconnect: %s', x)",
                                     stmts("log.warning('Error in clientDisconnect: ' + str(x))")), also=("C09",)),
    Mutant("C11", "call-list-rebound-after-submission", "C11-R4", C, "BatchProxy.__call__",
           lambda f, t: replace_stmt(f, lambda s: isinstance(s, ast.Expr) and u(s) == "self.__calls.clear()", stmts("self.__calls = []"))),
    Mutant("C12", "blob-annotation-written-into-the-callers-dict", "C12-R5", C, "Proxy._pyroInvoke",
           lambda f, t: delete_stmt(f, lambda s: isinstance(s, ast.Assign) and u(s) == "annotations = dict(annotations)")),
    Mutant("C16", "uri-built-after-the-registry-store", "C16-R2", S, "Daemon.register",
           lambda f, t: (delete_stmt(f, lambda s: isinstance(s, ast.Assign) and u(s) == "uri = self.uriFor(objectId)"),
                         replace_stmt(f, lambda s: isinstance(s, ast.Return) and u(s) == "return uri", stmts("return self.uriFor(objectId)")))),
    # ---- rules added after the eighth blind round (DESIGN 10.13)
    Mutant("C03", "retry-budget-or-default", "C03-R6", C, "_RemoteMethod.__init__",
           lambda f, t: replace_expr(f, lambda e: isinstance(e, ast.Name) and e.id == "max_retries" and isinstance(e.ctx, ast.Load), "max_retries or config.MAX_RETRIES")),
    Mutant("C07", "property-getter-under-suppress-attributeerror", "C07-R6", S, "_get_exposed_property_value",
           lambda f, t: replace_stmt(f, lambda s: isinstance(s, ast.If) and "isdatadescriptor" in u(s.test),
                                     lambda s: [ast.With(items=[ast.withitem(context_expr=ast.parse("contextlib.suppress(AttributeError)", mode="eval").body, optional_vars=None)], body=[s])])),
    Mutant("C10", "falsy-environment-setting-replaced-by-default", "C10-R5", "Pyro5/configure.py", "Configuration.reset",
           lambda f, t: replace_expr(f, lambda e: isinstance(e, ast.Call) and u(e) == "setattr(self, item, envvalue)", "setattr(self, item, envvalue or value)"), also=("C03",)),
    Mutant("C14", "safe-registration-through-dict-setdefault", "C14-R3", NSV, "NameServer.register",
           lambda f, t: replace_stmt(f, lambda s: isinstance(s, ast.Assign) and u(s.targets[0]) == "self.storage[name]",
                                     stmts("self.storage.setdefault(name, (uri, set(metadata) if metadata else None))"))),
    Mutant("C16", "daemon-blanked-in-the-live-state", "C16-R7", SER, "SerializerBase.__without_daemon",
           lambda f, t: delete_stmt(f, lambda s: isinstance(s, ast.Assign) and u(s) == "state = dict(state)")),
    Mutant("C17", "retry-table-from-names-with-a-missing-comma", "C17-R4", SU, None,
           lambda f, t: [setattr(st, "value", ast.parse("[getattr(errno, n) for n in ('EINTR', 'EAGAIN' 'EWOULDBLOCK', 'EINPROGRESS') if hasattr(errno, n)]", mode="eval").body)
                         for st in t.body if isinstance(st, ast.Assign) and u(st.targets[0]) == "ERRNO_RETRIES"]),
    # ---- rules added after the ninth blind round (DESIGN 10.14)
    Mutant("C01", "batch-result-converted-to-list", "C01-R7", S, "Daemon.handleRequest",
           lambda f, t: insert_after(f, lambda s: isinstance(s, ast.Assign) and u(s) == "result = method(*vargs, **kwargs)",
                                     stmts("if isinstance(result, collections.abc.Iterable) and not isinstance(result, (str, bytes, list, tuple, set, dict)):\n    result = list(result)")), also=("C11",)),
    Mutant("C04", "proxy-setstate-assigns-undeclared-attribute", "C04-R6", C, "Proxy.__setstate__",
           lambda f, t: f.body.append(stmts("self._pyroLogicalUri = core.URI(self._pyroUri)")[0])),
    Mutant("C08", "validator-keyerror-means-nothing-to-validate", "C08-R4", S, "Daemon._handshake",
           lambda f, t: replace_stmt(f, lambda s: isinstance(s, ast.Assign) and "validateHandshake" in u(s.value),
                                     lambda s: stmts("try:\n    handshake_response = self.validateHandshake(conn, data['handshake'])\nexcept KeyError:\n    handshake_response = None"))),
    Mutant("C08", "refused-connection-drained-before-close", "C08-R2", ST, "ClientConnectionJob.handleConnection",
           lambda f, t: replace_stmt(f, lambda s: isinstance(s, ast.Expr) and u(s) == "self.csock.close()" and isinstance(_parents(f, s)[-1] if _parents(f, s) else None, ast.Try),
                                     lambda s: stmts("while self.csock.sock.recv(4096):\n    pass") + [s])),
    Mutant("C09", "falsy-creator-dropped-by-the-decorator", "C09-R5", S, "behavior._behavior",
           lambda f, t: (insert_after(f, lambda s: isinstance(s, ast.If) and "invalid instance mode" in u(s), stmts("creator = instance_creator or None")),
                         replace_expr(f, lambda e: isinstance(e, ast.Tuple) and u(e) == "(instance_mode, instance_creator)", "(instance_mode, creator)"))),
    Mutant("C10", "stream-fetch-retried", "C10-R6", C, "_StreamResultIterator.__next__",
           lambda f, t: replace_stmt(f, lambda s: isinstance(s, ast.Try), lambda s: [ast.For(target=ast.Name(id="attempt", ctx=ast.Store()), iter=ast.parse("range(2)", mode="eval").body, body=[s], orelse=[])])),
    Mutant("C10", "housekeeping-closes-expired-generators", "C10-R5", S, "Daemon._housekeeping",
           lambda f, t: replace_stmt(f, lambda s: isinstance(s, ast.Delete), lambda s: stmts("info[3].close()") + [s])),
    Mutant("C11", "wrapper-builds-the-exception-dict-itself", "C11-R3", CO, "_ExceptionWrapper.__serialized_dict__",
           lambda f, t: replace_expr(f, lambda e: isinstance(e, ast.Call) and "class_to_dict" in u(e.func),
                                     "{'__class__': type(self.exception).__module__ + '.' + type(self.exception).__name__, '__exception__': True, 'args': self.exception.args, 'attributes': vars(self.exception)}"),
           also=("C07",)),
    Mutant("C16", "forced-register-unregisters-first", "C16-R2", S, "Daemon.register",
           lambda f, t: insert_after(f, lambda s: isinstance(s, ast.Assign) and u(s) == "uri = self.uriFor(objectId)", stmts("if force:\n    self.unregister(objectId)"))),
    Mutant("C18", "refusal-decided-after-the-validator", "C18-R3", S, "Daemon._handshake",
           lambda f, t: (lambda st: (delete_stmt(f, lambda s: s is st), insert_after(f, lambda s: isinstance(s, ast.Assign) and "validateHandshake" in u(s.value), [st])))(
               [s for s in ast.walk(f) if isinstance(s, ast.If) and u(s.test) == "denied_reason"][0]), also=("C08",)),
    Mutant("C15", "lookup-remembers-the-last-parsed-uri", "C15-R2", NSV, "NameServer.lookup",
           lambda f, t: insert_after(f, lambda s: isinstance(s, ast.Assign) and u(s) == "uri = core.URI(uri)", stmts("self._last_uri = uri")), also=("C19",)),
    Mutant("C19", "lookup-returns-a-remembered-uri", "C19-R5", NSV, "NameServer.lookup",
           lambda f, t: insert_after(f, lambda s: isinstance(s, ast.Assign) and u(s) == "uri = core.URI(uri)", stmts("self._last_uri = uri\nuri = core.URI(self._last_uri)")), also=("C15",)),
    Mutant("C20", "gateway-keeps-proxies-between-requests", "C20-R3", GW, "process_pyro_request",
           lambda f, t: [setattr(w.items[0], "context_expr", ast.parse("_kept_proxies.setdefault(str(uri), client.Proxy(uri))", mode="eval").body) for w in ast.walk(f)
                         if isinstance(w, ast.With) and "client.Proxy" in u(w.items[0].context_expr)] and t.body.append(stmts("_kept_proxies = {}")[0])),
    Mutant("C06", "header-packed-into-a-module-level-buffer", "C06-R2", P, "SendingMessage.__init__",
           lambda f, t: (replace_stmt(f, lambda s: isinstance(s, ast.Assign) and u(s.targets[0]) == "header_data",
                                      lambda s: stmts("struct.pack_into(_header_format, _shared_header, 0, " + ", ".join(u(a) for a in s.value.args[1:]) + ")\nheader_data = bytes(_shared_header)")),
                         t.body.insert(len(t.body) - 1, stmts("_shared_header = bytearray(40)")[0]))),
    Mutant("C17", "kernel-receive-timeout", "C17-R2", MX, "SocketServer_Multiplex._handleConnection",
           lambda f, t: replace_stmt(f, lambda s: isinstance(s, ast.Expr) and "settimeout" in u(s),
                                     stmts("csock.setsockopt(socket.SOL_SOCKET, socket.SO_RCVTIMEO, struct.pack('ll', int(config.COMMTIMEOUT), 0))")), also=("C05",)),
    Mutant("C05", "timeout-with-partial-data-keeps-reading", "C05-R1b", SU, "receive_data",
           lambda f, t: _timeout_keeps_reading(f), also=("C17", "C06", "C08")),
    Mutant("C13", "worker-handed-back-before-its-slot-is-cleared", "C13-R1", ST, "Worker.run",
           lambda f, t: (delete_stmt(f, lambda s: isinstance(s, ast.Assign) and u(s) == "self.job = None"),
                         insert_after(f, lambda s: isinstance(s, ast.Expr) and "notify_done" in u(s), stmts("self.job = None"))), also=("C05", "C18")),
    Mutant("C07", "stream-entry-removed-with-a-plain-del", "C07-R6", S, "DaemonObject.get_next_stream_item",
           lambda f, t: replace_stmt(f, lambda s: isinstance(s, ast.Expr) and ".pop(streamId, None)" in u(s), stmts("del self.daemon.streaming_responses[streamId]")), also=("C10",)),
    # ---- rules added after the tenth blind round (DESIGN 10.15)
    Mutant("C01", "cycle-guard-kept-on-the-serializer", "C01-R10", SER, "MarshalSerializer.convert_obj_into_marshallable",
           lambda f, t: (replace_expr(f, lambda e: isinstance(e, ast.Call) and u(e.func) == "self.convert_obj_into_marshallable" and len(e.args) == 2, "self.convert_obj_into_marshallable(value)"),
                         replace_expr(f, lambda e: isinstance(e, ast.Call) and u(e.func) == "self.convert_obj_into_marshallable" and len(e.args) == 2, "self.convert_obj_into_marshallable(value)")),
           also=("C11",)),
    Mutant("C01", "oneway-arguments-through-thread-kwargs", "C01-R7", S, "_OnewayCallThread.__init__",
           lambda f, t: (replace_expr(f, lambda e: isinstance(e, ast.Call) and "__init__" in u(e.func),
                                      "super(_OnewayCallThread, self).__init__(target=self._methodcall, name='oneway-call', args=(pyro_method, *vargs), kwargs=kwargs)"),
                         (lambda g: (setattr(g, "args", ast.parse("def _(self, method, *vargs, **kwargs): pass").body[0].args),
                                     replace_expr(g, lambda e: isinstance(e, ast.Call) and u(e.func) == "self.pyro_method", "method(*vargs, **kwargs)")))(find_fn(t, "_OnewayCallThread._methodcall")))),
    Mutant("C10", "stream-item-remembered-and-replayed", "C10-R1", S, "DaemonObject.get_next_stream_item",
           lambda f, t: replace_stmt(f, lambda s: isinstance(s, ast.Return) and "next(stream)" in u(s),
                                     stmts("self._last_item = next(stream)\nreturn self._last_item")), also=("C03", "C07")),
    Mutant("C10", "stream-refused-for-another-connection", "C10-R1", S, "DaemonObject.get_next_stream_item",
           lambda f, t: insert_after(f, lambda s: isinstance(s, ast.If) and u(s.test) == "client is None",
                                     stmts("if client is not None and client is not current_context.client:\n    raise errors.PyroError('item stream belongs to another connection')"))),
    Mutant("C10", "daemon-constructed-in-shutdown-state", "C10-R5", S, "Daemon.__init__",
           lambda f, t: delete_stmt(f, lambda s: isinstance(s, ast.Expr) and "mustshutdown.clear()" in u(s))),
    Mutant("C12", "compat-proxy-merges-into-the-callers-annotations", "C12-R5", "Pyro5/compatibility/Pyro4.py", None,
           lambda f, t: [c.body.append(stmts("def _pyroInvoke(self, methodname, vargs, kwargs, flags=0, objectId=None):\n"
                                             "    current_context.annotations.update({'COMP': b'4'})\n"
                                             "    return super()._pyroInvoke(methodname, vargs, kwargs, flags, objectId)")[0])
                         for c in t.body if isinstance(c, ast.ClassDef) and c.name == "Proxy"]),
    Mutant("C04", "registry-copied-on-registration", "C04-R5", SER, "SerializerBase.register_dict_to_class",
           lambda f, t: f.body.insert(0, stmts("cls._SerializerBase__custom_dict_to_class_registry = dict(cls._SerializerBase__custom_dict_to_class_registry)")[0])),
    Mutant("C08", "metadata-answered-from-a-cache", "C08-R4", S, "DaemonObject.get_metadata",
           lambda f, t: f.body.insert(1 if isinstance(f.body[0], ast.Expr) and isinstance(f.body[0].value, ast.Constant) else 0,
                                      stmts("cached = self.daemon.__dict__.setdefault('_metadataById', {}).get(objectId)\nif cached is not None:\n    return cached")[0]) or
           f.body.insert(2 if isinstance(f.body[0], ast.Expr) and isinstance(f.body[0].value, ast.Constant) else 1,
                         stmts("if self.daemon.__dict__.get('_metadataById', {}).get(objectId) is not None:\n    return self.daemon.__dict__['_metadataById'][objectId]")[0])),
    Mutant("C14", "nsc-strips-its-arguments", "C14-R11", "Pyro5/nsc.py", "handle_command",
           lambda f, t: f.body.insert(0, stmts("args = [a.strip() for a in args]")[0])),
    Mutant("C14", "nsc-lookup-lowercases-the-name", "C14-R11", "Pyro5/nsc.py", "handle_command.cmd_lookup",
           lambda f, t: replace_expr(f, lambda e: isinstance(e, ast.Subscript) and u(e) == "args[0]" and isinstance(getattr(e, "ctx", None), ast.Load), "args[0].lower()")),
    Mutant("C14", "autocleaner-removes-by-escaped-regex", "C14-R4", NSV, "AutoCleaner.run",
           lambda f, t: replace_expr(f, lambda e: isinstance(e, ast.Call) and u(e) == "self.nameserver.remove(name)", "self.nameserver.remove(regex=re.escape(name))")),
    Mutant("C16", "error-handler-remembers-the-last-exception", "C16-R5", S, "_default_methodcall_error_handler",
           lambda f, t: f.body.append(stmts("daemon.last_methodcall_error = exception")[0])),
    Mutant("C17", "back-off-generator-made-finite", "C17-R4", SU, "__retrydelays",
           lambda f, t: replace_stmt(f, lambda s: isinstance(s, ast.While), stmts("for tenths in range(1, 6):\n    yield tenths / 10"))),
    Mutant("C18", "new-worker-counted-before-it-is-started", "C18-R3", ST, "Pool.process",
           lambda f, t: _move_before(f, lambda s: isinstance(s, ast.Expr) and u(s) == "worker.start()", lambda s: False, "self.busy.add(worker)") if False else
           insert_after(f, lambda s: isinstance(s, ast.Assign) and u(s) == "worker = Worker(self)", stmts("self.busy.add(worker)")), also=("C05",)),
    Mutant("C19", "pyro-object-state-normalised-on-the-wire", "C19-R1", SER, "serialize_pyro_object_to_dict",
           lambda f, t: replace_expr(f, lambda e: isinstance(e, ast.Call) and u(e) == "obj.__getstate__()", "tuple(sorted(i) if isinstance(i, (set, frozenset)) else i for i in obj.__getstate__())")),
    Mutant("C19", "broadcast-answer-encoded-as-utf8", "C19-R5", NSV, "BroadcastServer.processRequest",
           lambda f, t: replace_expr(f, lambda e: isinstance(e, ast.Constant) and e.value == "iso-8859-1", "'utf-8'")),
    Mutant("C20", "json-encoder-skips-unencodable-keys", "C20-R3", SER, "JsonSerializer.dumps",
           lambda f, t: [c.keywords.append(ast.keyword(arg="skipkeys", value=ast.Constant(True))) for c in ast.walk(f) if isinstance(c, ast.Call) and u(c.func) == "json.dumps"], also=("C01", "C11")),
    Mutant("C01", "msgpack-bytes-packed-as-str", "C01-R2", SER, "MsgpackSerializer.dumpsCall",
           lambda f, t: [setattr(k, "value", ast.Constant(False)) for c in ast.walk(t) if isinstance(c, ast.Call) and u(c.func) == "msgpack.packb" for k in c.keywords if k.arg == "use_bin_type"], also=("C11", "C20")),
    Mutant("C03", "batch-submission-under-the-retry-loop", "C03-R6", C, "BatchProxy.__call__",
           lambda f, t: replace_stmt(f, lambda s: isinstance(s, ast.If) and u(s.test) == "not oneway",
                                     stmts("if not oneway:\n    return _RemoteMethod(self._pyroInvoke, '<batch>', self._BatchProxy__proxy._pyroMaxRetries)()")), also=("C11",)),
    Mutant("C08", "refused-peer-drained-inside-the-handshake", "C08-R2", S, "Daemon._handshake",
           lambda f, t: insert_after(f, lambda s: isinstance(s, ast.Expr) and u(s) == "conn.send(msg.data)",
                                     stmts("if msg.type != protocol.MSG_CONNECTOK:\n    with contextlib.suppress(Exception):\n        while conn.sock.recv(4096):\n            pass")), also=("C05", "C18")),
    Mutant("C19", "uri-object-part-percent-decoded", "C19-R3", CO, "URI.__init__",
           lambda f, t: replace_expr(f, lambda e: isinstance(e, ast.Call) and u(e) == "match.group('object')", "__import__('urllib.parse').parse.unquote(match.group('object'))"), also=("C16", "C04")),
    Mutant("C13", "cleanup-loop-over-the-live-resource-set", "C13-R5", SU, "SocketConnection.close",
           lambda f, t: replace_expr(f, lambda e: isinstance(e, ast.Call) and u(e) == "list(self.tracked_resources)", "self.tracked_resources")),
    Mutant("C07", "msgpack-packer-kept-on-the-serializer", "C07-R5", SER, "MsgpackSerializer.dumps",
           lambda f, t: (replace_expr(f, lambda e: isinstance(e, ast.Call) and u(e.func) == "msgpack.packb", "self._packer.pack(data)"),
                         replace_expr(find_fn(t, "MsgpackSerializer.dumpsCall"), lambda e: isinstance(e, ast.Call) and u(e.func) == "msgpack.packb", "self._packer.pack((obj, method, vargs, kwargs))"),
                         [c.body.insert(1, stmts("def __init__(self):\n    self._packer = msgpack.Packer(use_bin_type=True, default=self.default)")[0]) for c in t.body
                          if isinstance(c, ast.ClassDef) and c.name == "MsgpackSerializer"]), also=("C01", "C11", "C04", "C20")),
    Mutant("C10", "remote-iterator-consumed-under-the-fallback-handler", "C10-R6", C, "Proxy.__iter__",
           lambda f, t: (lambda tr: (tr.body.append(tr.orelse[0]), setattr(tr, "orelse", [])))([n for n in ast.walk(f) if isinstance(n, ast.Try) and n.orelse][0])),
    Mutant("C14", "remove-by-name-only-for-truthy-names", "C14-R4", NSV, "NameServer.remove",
           lambda f, t: replace_expr(f, lambda e: isinstance(e, ast.Compare) and u(e) == "name is not None", "name")),
    Mutant("C16", "weak-finalizer-unregisters-whatever-has-the-id", "C16-R5", S, "Daemon.register",
           lambda f, t: replace_expr(f, lambda e: isinstance(e, ast.Call) and u(e.func) == "weakref.finalize", "weakref.finalize(obj_or_class, self.unregister, objectId)")),
    Mutant("C16", "weak-finalizer-callback-without-the-identity-test", "C16-R5", S, "Daemon.__unregister_collected",
           lambda f, t: replace_stmt(f, lambda s: isinstance(s, ast.If), stmts("self.unregister(objectId)"))),
    Mutant("C16", "urifor-hands-out-whatever-the-text-parses-to", "C16-R3", S, "Daemon.uriFor",
           lambda f, t: delete_stmt(f, lambda s: isinstance(s, ast.If) and ".object" in u(s.test))),
    Mutant("C10", "in-sync-close-forgets-to-tell-the-server", "C10-R6", C, "_StreamResultIterator.close",
           lambda f, t: replace_stmt(f, lambda s: isinstance(s, ast.Expr) and "close_stream" in u(s) and u(s).startswith("self.proxy._pyroInvoke"), stmts("pass"))),
    Mutant("C03", "sequence-error-text-never-assigned", "C03-R1", C, "Proxy.__pyroCheckSequence",
           lambda f, t: delete_stmt(f, lambda s: isinstance(s, ast.Assign) and u(s.targets[0]) == "err"), also=("C05",)),
    Mutant("C14", "naming-error-built-from-an-unbound-name", "C14-R7", NSV, "NameServer.lookup",
           lambda f, t: replace_expr(f, lambda e: isinstance(e, ast.BinOp) and "unknown name" in u(e), "'unknown name: ' + requested_name")),
    Mutant("C14", "sqlite-prefix-listing-always-with-metadata", "C14-R3", NSV, "SqlStorage.optimized_prefix_list",
           lambda f, t: set_test(f, lambda e: u(e) == "return_metadata", "True")),
    Mutant("C14", "regex-listing-ignores-the-metadata-flag", "C14-R3", NSV, "NameServer.list",
           lambda f, t: _set_nth_test(f, lambda e: False, "True") if False else
           [setattr(n, "value", n.value.body) for n in ast.walk(f) if isinstance(n, ast.Assign) and isinstance(n.value, ast.IfExp) and u(n.value.test) == "return_metadata"][-1:]),
    Mutant("C14", "yplookup-asks-the-storage-without-the-flag", "C14-R3", NSV, "NameServer.yplookup",
           lambda f, t: [c.keywords.remove(k) for c in ast.walk(f) if isinstance(c, ast.Call) and u(c.func).endswith("optimized_metadata_search") for k in list(c.keywords) if k.arg == "return_metadata"]),
    Mutant("C19", "empty-metadata-tag-kept", "C19-R4", CO, "URI.__init__",
           lambda f, t: delete_stmt(f, lambda s: isinstance(s, ast.Expr) and "discard" in u(s))),
    Mutant("C19", "metadata-uri-printed-like-any-other", "C19-R3", CO, "URI.__str__",
           lambda f, t: set_test(f, lambda e: "PYROMETA" in u(e), "False")),
    # ---- rules added after the eleventh blind round (DESIGN 10.16)
    Mutant("C17", "short-first-read-counted-before-it-is-appended", "C17-R3", SU, "receive_data",
           lambda f, t: replace_stmt(f, lambda s: isinstance(s, ast.Assign) and u(s) == "msglen = len(chunk)" and not any(isinstance(p_, ast.While) and "msglen < size" in u(p_.test) for p_ in _parents(f, s)),
                                     stmts("msglen = len(data)")), also=("C06", "C01", "C08")),
    Mutant("C02", "metadata-reset-keyed-by-type-of-the-registration", "C02-R3", S, "Daemon.resetMetadataCache",
           lambda f, t: replace_expr(f, lambda e: isinstance(e, ast.Call) and u(e) == "_reset_exposed_members(registered_object)", "_reset_exposed_members(type(registered_object))")),
    Mutant("C03", "connection-published-before-the-handshake", "C03-R8", C, "Proxy.__pyroCreateConnection.connect_and_handshake",
           lambda f, t: insert_after(f, lambda s: isinstance(s, ast.Assign) and u(s.targets[0]) == "conn" and "SocketConnection" in u(s.value), stmts("self._pyroConnection = conn"))),
    Mutant("C17", "connection-wrapper-rebuilds-the-read-error", "C17-R5", SU, "SocketConnection.recv",
           lambda f, t: replace_stmt(f, lambda s: isinstance(s, ast.Return),
                                     stmts("try:\n    return receive_data(self.sock, size)\nexcept ConnectionClosedError as x:\n    raise ConnectionClosedError('%s [%s]' % (x, self.objectId)) from x")),
           also=("C06",)),
    Mutant("C14", "memory-listing-hands-out-the-live-storage", "C14-R3", NSV, "MemoryStorage.everything",
           lambda f, t: replace_expr(f, lambda e: isinstance(e, ast.Call) and u(e) == "self.copy()", "self"), also=("C15",)),
    Mutant("C14", "storage-specification-lowercased", "C14-R3", NSV, "NameServerDaemon.__init__",
           lambda f, t: replace_stmt(f, lambda s: isinstance(s, ast.Assign) and u(s) == "storage = storage or 'memory'", stmts("storage = (storage or 'memory').strip().lower()"))),
    Mutant("C14", "safe-registration-of-the-same-uri-passes", "C14-R3", NSV, "NameServer.register",
           lambda f, t: set_test(f, lambda e: u(e) == "safe and name in self.storage", "safe and name in self.storage and self.storage[name][0] != uri"), also=("C15",)),
    Mutant("C19", "broadcast-answer-edits-the-servers-own-uri", "C19-R5", NSV, "BroadcastServer.processRequest",
           lambda f, t: replace_expr(f, lambda e: isinstance(e, ast.Call) and u(e) == "core.URI(self.nsUri)", "self.nsUri")),
    Mutant("C05", "accepted-socket-switched-back-to-blocking", "C05-R1b", ST, "SocketServer_Threadpool.events",
           lambda f, t: insert_after(f, lambda s: isinstance(s, ast.Expr) and "csock.settimeout" in u(s), stmts("csock.setblocking(True)"))),
    Mutant("C20", "one-retry-even-without-a-retry-budget", "C20-R3", C, "_RemoteMethod.__call__",
           lambda f, t: replace_expr(f, lambda e: isinstance(e, ast.Compare) and u(e) == "attempt >= self.__max_retries", "attempt > self.__max_retries") or
           replace_expr(f, lambda e: isinstance(e, ast.Call) and u(e) == "range(self.__max_retries + 1)", "range(self.__max_retries + 2)"), also=("C03",)),
    Mutant("C13", "disconnect-removes-streams-with-del", "C13-R3", S, "Daemon._clientDisconnect",
           lambda f, t: replace_stmt(f, lambda s: isinstance(s, ast.Expr) and ".pop(streamId, None)" in u(s), stmts("del self.streaming_responses[streamId]"))),
    Mutant("C20", "presented-key-encoded-before-its-type-is-known", "C20-R1", GW, "process_pyro_request",
           lambda f, t: replace_expr(f, lambda e: isinstance(e, ast.BoolOp) and "isinstance(gateway_key, str)" in u(e), "gateway_key.encode('utf-8') != pyro_app.gateway_key")),
    Mutant("C01", "json-dates-lose-their-branch", "C01-R8", SER, "JsonSerializer.default",
           lambda f, t: delete_stmt(f, lambda s: isinstance(s, ast.If) and "datetime.date" in u(s.test))),
    Mutant("C01", "msgpack-complex-loses-its-branch", "C01-R8", SER, "MsgpackSerializer.default",
           lambda f, t: set_test(f, lambda e: u(e) == "isinstance(obj, complex)", "False")),
    Mutant("C01", "marshal-containers-all-rebuilt-as-frozenset", "C01-R8", SER, "MarshalSerializer.convert_obj_into_marshallable",
           lambda f, t: replace_expr(f, lambda e: isinstance(e, ast.Call) and u(e) == "isinstance(obj, frozenset)", "True"), also=("C11",)),
    Mutant("C06", "memoryview-recast-switched-off", "C06-R3", P, "SendingMessage.__init__",
           lambda f, t: replace_expr(f, lambda e: isinstance(e, ast.BoolOp) and "memoryview" in u(e) and "itemsize" in u(e), "False")),
    Mutant("C06", "memoryview-recast-only-for-two-byte-items", "C06-R3", P, "SendingMessage.__init__",
           lambda f, t: replace_expr(f, lambda e: isinstance(e, ast.Compare) and u(e) == "v.itemsize != 1", "v.itemsize == 2")),
    Mutant("C06", "correlation-id-never-sent", "C06-R2", P, "SendingMessage.__init__",
           lambda f, t: set_test(f, lambda e: u(e) == "current_context.correlation_id", "False"), also=("C12",)),
    Mutant("C10", "orphaned-stream-never-adopted", "C10-R4", S, "DaemonObject.get_next_stream_item",
           lambda f, t: set_test(f, lambda e: u(e) == "client is None", "False")),
    Mutant("C10", "every-fetch-adopts-the-stream", "C10-R4", S, "DaemonObject.get_next_stream_item",
           lambda f, t: set_test(f, lambda e: u(e) == "client is None", "True")),
    # ---- rules added after the twelfth blind round (DESIGN 10.17)
    Mutant("C07", "traceback-banner-built-before-the-guard", "C07-R3", "Pyro5/errors.py", "format_traceback",
           lambda f, t: (lambda ifd: ifd.body.insert(1, stmts("banner = ' EXCEPTION %s: %s\\n' % (ex_type, ex_value)")[0]))([n for n in f.body if isinstance(n, ast.If) and u(n.test) == "detailed"][0])),
    Mutant("C14", "tags-stored-as-given", "C14-R5", NSV, "NameServer.register",
           lambda f, t: replace_expr(f, lambda e: isinstance(e, ast.IfExp) and u(e) == "set(metadata) if metadata else None", "metadata or None")),
    Mutant("C14", "autocleaner-never-forgets-a-recovered-name", "C14-R4", NSV, "AutoCleaner.run",
           lambda f, t: delete_stmt(f, lambda s: isinstance(s, ast.If) and u(s.test) == "name in self.unreachable" and any(isinstance(x, ast.Delete) for x in s.body))),
    Mutant("C09", "existing-connection-wrapped-per-request", "C09-R3", "Pyro5/svr_existingconn.py", "SocketServer_ExistingConnection.handleRequest",
           lambda f, t: f.body.insert(0, stmts("conn = socketutil.SocketConnection(self.sock)")[0])),
    Mutant("C20", "request-options-collected-on-the-class", "C20-R3", GW, None,
           lambda f, t: t.body.append(stmts("class RequestOptions:\n    given = set()\n    def __init__(self, environ):\n        for o in environ.get('HTTP_X_PYRO_OPTIONS', '').split(','):\n            self.given.add(o)")[0])),
    Mutant("C03", "oneway-thread-without-its-target", "C03-R8", S, "_OnewayCallThread.__init__",
           lambda f, t: replace_expr(f, lambda e: isinstance(e, ast.Call) and "__init__" in u(e.func), "super(_OnewayCallThread, self).__init__(name='oneway-call')")),
    Mutant("C03", "oneway-thread-forgets-the-arguments", "C03-R8", S, "_OnewayCallThread.__init__",
           lambda f, t: delete_stmt(f, lambda s: isinstance(s, ast.Assign) and u(s) == "self.pyro_vargs = vargs")),
    Mutant("C10", "every-result-filed-as-a-stream", "C10-R3", S, "Daemon._streamResponse",
           lambda f, t: set_test(f, lambda e: "isgenerator" in u(e), "True")),
    Mutant("C18", "communication-timeout-set-by-the-worker", "C18-R3", ST, "SocketServer_Threadpool.events",
           lambda f, t: (delete_stmt(f, lambda s: isinstance(s, ast.If) and "COMMTIMEOUT" in u(s.test)),
                         find_fn(t, "ClientConnectionJob.__call__").body.insert(0, stmts("if config.COMMTIMEOUT:\n    self.csock.timeout = config.COMMTIMEOUT")[0])), also=("C05",)),
]


def _parents(root, node):
    """ancestors of node inside root (computed by search)"""
    path = []

    def rec(n, trail):
        if n is node:
            path.extend(trail)
            return True
        for c in ast.iter_child_nodes(n):
            if rec(c, trail + [n]):
                return True
        return False
    rec(root, [])
    return path


def _set_nth_test(fn, pred, new_src, last=False):
    hits = [n for n in ast.walk(fn) if isinstance(n, (ast.If, ast.While)) and pred(n.test)]
    if not hits:
        raise LookupError("test not found")
    hits.sort(key=lambda n: n.lineno)
    n = hits[-1] if last else hits[0]
    n.test = ast.parse(new_src, mode="eval").body


def _delete_nth(fn, pred, idx):
    hits = []
    for lst in stmt_lists(fn):
        for st in lst:
            if pred(st):
                hits.append((st.lineno, lst, st))
    hits.sort(key=lambda x: x[0])
    if len(hits) <= idx:
        raise LookupError("nth statement not found")
    _, lst, st = hits[idx]
    lst.remove(st)
    if not lst:
        lst.append(ast.Pass())


def _move_before(fn, pred_move, pred_anchor, new_src):
    """move the statement matching pred_move (or a new statement) right before the anchor statement"""
    moved = None
    for lst in stmt_lists(fn):
        for st in list(lst):
            if pred_move(st):
                moved = st
                lst.remove(st)
                if not lst:
                    lst.append(ast.Pass())
                break
        if moved is not None:
            break
    if moved is None:
        raise LookupError("statement to move not found")
    if new_src:
        moved = stmts(new_src)[0]
    for lst in stmt_lists(fn):
        for i, st in enumerate(lst):
            if pred_anchor(st):
                lst.insert(i, moved)
                return
    raise LookupError("anchor not found")


def _move_into_loop(fn, pred):
    st0 = None
    for lst in stmt_lists(fn):
        for st in list(lst):
            if pred(st):
                st0 = st
                lst.remove(st)
                break
    loops = [n for n in ast.walk(fn) if isinstance(n, ast.For)]
    if st0 is None or not loops:
        raise LookupError("commit / loop not found")
    loops[0].body.append(st0)


def _move_out_of_with(fn, pred):
    for lst in stmt_lists(fn):
        for i, st in enumerate(lst):
            if isinstance(st, ast.With):
                for inner in list(st.body):
                    if pred(inner):
                        st.body.remove(inner)
                        lst.insert(i + 1, inner)
                        return
    raise LookupError("statement inside a with block not found")


def _timeout_keeps_reading(f):
    """receive_data: the socket.timeout handler of the chunk loop raises only when nothing was received yet, otherwise it sleeps and goes on"""
    loops = [n for n in ast.walk(f) if isinstance(n, ast.While)]
    for lp in loops[::-1]:
        for tr in [x for x in lp.body if isinstance(x, ast.Try)]:
            for h in tr.handlers:
                if h.type is not None and u(h.type) == "socket.timeout" and any(isinstance(x, ast.While) for x in ast.walk(tr)):
                    h.body = stmts("if not data:\n    raise TimeoutError('receiving: timeout')\ntime.sleep(next(delays))")
                    return
    raise LookupError("receive_data: timeout handler of the chunk loop not found")


def _worker_finally(f):
    """Worker.run: `self.job = None; self.pool.notify_done(self)` moved into a finally of the try around the job"""
    for body in stmt_lists(f):
        for i, st in enumerate(body):
            if isinstance(st, ast.Try) and any(u(x) == "self.job()" for x in st.body) and i + 2 < len(body) + 1:
                tail = body[i + 1:i + 3]
                if len(tail) == 2 and u(tail[0]) == "self.job = None" and "notify_done" in u(tail[1]):
                    st.finalbody = tail
                    del body[i + 1:i + 3]
                    return
    raise LookupError("Worker.run: try around the job followed by the slot reset and notify_done not found")


def _drop_key(d, key):
    for i, k in enumerate(d.keys):
        if isinstance(k, ast.Constant) and k.value == key:
            del d.keys[i]
            del d.values[i]
            return
    raise LookupError("dict key not found")


# ------------------------------------------------------------------------------------------------ benign twins
def twin_reformat(tree, relpath):
    return tree


class _Noop(ast.NodeTransformer):
    def _pad(self, body):
        out = []
        for st in body:
            out.append(st)
            if not isinstance(st, (ast.Return, ast.Raise, ast.Break, ast.Continue)):
                out.append(ast.Expr(ast.Constant(None)))
        return out

    def generic_visit(self, node):
        node = super().generic_visit(node)
        if isinstance(node, (ast.FunctionDef,)):
            doc = ast.get_docstring(node)
            head = node.body[:1] if doc is not None else []
            rest = node.body[1:] if doc is not None else node.body
            node.body = head + [ast.Expr(ast.Constant(None))] + self._pad(rest)
        elif not isinstance(node, (ast.ClassDef, ast.Module)):
            for field in ("body", "orelse", "finalbody"):
                sub = getattr(node, field, None)
                if isinstance(sub, list) and sub and isinstance(sub[0], ast.stmt):
                    setattr(node, field, self._pad(sub))
        return node


def twin_noops(tree, relpath):
    return _Noop().visit(tree)


class _Rename(ast.NodeTransformer):
    """renames function-local variables (not parameters, not names used by nested scopes, not globals/nonlocals)"""

    def visit_FunctionDef(self, node):
        # nested functions first
        node.body = [self.visit(st) for st in node.body]
        params = {a.arg for a in node.args.posonlyargs + node.args.args + node.args.kwonlyargs}
        if node.args.vararg:
            params.add(node.args.vararg.arg)
        if node.args.kwarg:
            params.add(node.args.kwarg.arg)
        stored, nested_used, declared = set(), set(), set()

        def scan(n, nested):
            for c in ast.iter_child_nodes(n):
                if isinstance(c, (ast.FunctionDef, ast.Lambda, ast.ClassDef, ast.ListComp, ast.SetComp, ast.DictComp, ast.GeneratorExp)):
                    for x in ast.walk(c):
                        if isinstance(x, ast.Name):
                            nested_used.add(x.id)
                    if isinstance(c, (ast.FunctionDef, ast.ClassDef)):
                        declared.add(c.name)
                    continue
                if isinstance(c, ast.Name) and isinstance(c.ctx, (ast.Store, ast.Del)):
                    stored.add(c.id)
                if isinstance(c, (ast.Global, ast.Nonlocal)):
                    declared.update(c.names)
                if isinstance(c, ast.ExceptHandler) and c.name:
                    stored.add(c.name)
                if isinstance(c, (ast.Import, ast.ImportFrom)):
                    for a in c.names:
                        declared.add((a.asname or a.name).split(".")[0])
                scan(c, nested)
        scan(node, False)
        targets = {n for n in stored if n not in params and n not in nested_used and n not in declared and not n.startswith("__") and n != "_"}
        if not targets:
            return node

        class R(ast.NodeTransformer):
            def visit_FunctionDef(self, n):
                return n

            def visit_Lambda(self, n):
                return n

            def visit_ClassDef(self, n):
                return n

            def visit_Name(self, n):
                if n.id in targets:
                    n.id = n.id + "_tw"
                return n

            def visit_ExceptHandler(self, n):
                if n.name in targets:
                    n.name = n.name + "_tw"
                self.generic_visit(n)
                return n
        r = R()
        node.body = [r.visit(st) for st in node.body]
        return node


def twin_rename_locals(tree, relpath):
    return _Rename().visit(tree)


class _InvertIfs(ast.NodeTransformer):
    """`if c: A`  ->  `if not c: pass  else: A`   (only ifs without an else part)"""

    def visit_If(self, node):
        self.generic_visit(node)
        if not node.orelse:
            node.test = ast.UnaryOp(ast.Not(), node.test)
            node.orelse = node.body
            node.body = [ast.Pass()]
        return node


def twin_invert_ifs(tree, relpath):
    return _InvertIfs().visit(tree)


class _DictCalls(ast.NodeTransformer):
    def visit_Dict(self, node):
        if not node.keys:
            return ast.Call(ast.Name("dict", ast.Load()), [], [])
        self.generic_visit(node)
        return node


def twin_dict_calls(tree, relpath):
    return _DictCalls().visit(tree)


def twin_logging(tree, relpath):
    has_log = any(isinstance(st, ast.Assign) and isinstance(st.targets[0], ast.Name) and st.targets[0].id == "log" for st in tree.body)
    if not has_log:
        return tree
    for n in ast.walk(tree):
        if isinstance(n, ast.FunctionDef) and not any(isinstance(x, (ast.Yield, ast.YieldFrom)) for x in ast.walk(n)):
            doc = ast.get_docstring(n)
            idx = 1 if doc is not None else 0
            n.body.insert(idx, ast.parse("log.debug('entering %s', %r)" % ("%s", n.name)).body[0])
    return tree


class _SwapIfElse(ast.NodeTransformer):
    """`if c: A else: B`  ->  `if not c: B else: A`  (only ifs that have a plain else part, not elif chains)"""

    def visit_If(self, node):
        self.generic_visit(node)
        if node.orelse and not (len(node.orelse) == 1 and isinstance(node.orelse[0], ast.If)):
            node.test = ast.UnaryOp(ast.Not(), node.test)
            node.body, node.orelse = node.orelse, node.body
        return node


def twin_swap_if_else(tree, relpath):
    return _SwapIfElse().visit(tree)


class _DeMorgan(ast.NodeTransformer):
    """in if/while tests:  a and b  ->  not (not a or not b);   a != b  ->  not (a == b)"""

    def _rw(self, e):
        if isinstance(e, ast.BoolOp) and isinstance(e.op, ast.And):
            return ast.UnaryOp(ast.Not(), ast.BoolOp(ast.Or(), [ast.UnaryOp(ast.Not(), self._rw(v)) for v in e.values]))
        if isinstance(e, ast.BoolOp):
            return ast.BoolOp(e.op, [self._rw(v) for v in e.values])
        if isinstance(e, ast.UnaryOp) and isinstance(e.op, ast.Not):
            return ast.UnaryOp(ast.Not(), self._rw(e.operand))
        if isinstance(e, ast.Compare) and len(e.ops) == 1 and isinstance(e.ops[0], ast.NotEq):
            return ast.UnaryOp(ast.Not(), ast.Compare(e.left, [ast.Eq()], e.comparators))
        if isinstance(e, ast.Compare) and len(e.ops) == 1 and isinstance(e.ops[0], ast.IsNot):
            return ast.UnaryOp(ast.Not(), ast.Compare(e.left, [ast.Is()], e.comparators))
        return e

    def visit_If(self, node):
        self.generic_visit(node)
        node.test = self._rw(node.test)
        return node

    def visit_While(self, node):
        self.generic_visit(node)
        node.test = self._rw(node.test)
        return node


def twin_de_morgan(tree, relpath):
    return _DeMorgan().visit(tree)


class _ExtractTests(ast.NodeTransformer):
    """`if <expr>:` -> `_t<N> = <expr>` ; `if _t<N>:` for every if statement that is a direct member of a statement list and whose test is not already a plain name
    (introduce explaining variable). elif chains are left alone except for their first test (the assignment cannot be hoisted over earlier tests)."""

    def __init__(self):
        self.n = 0

    def _rewrite(self, body):
        out = []
        for st in body:
            if isinstance(st, ast.If) and not isinstance(st.test, (ast.Name, ast.Constant)) and not any(isinstance(x, (ast.NamedExpr, ast.Yield, ast.YieldFrom, ast.Await)) for x in ast.walk(st.test)):
                self.n += 1
                name = "_t%d" % self.n
                out.append(ast.Assign(targets=[ast.Name(id=name, ctx=ast.Store())], value=st.test))
                st.test = ast.Name(id=name, ctx=ast.Load())
            out.append(st)
        return out

    def generic_visit(self, node):
        node = super().generic_visit(node)
        if isinstance(node, (ast.FunctionDef, ast.For, ast.While, ast.With, ast.Try, ast.If, ast.ExceptHandler)):
            for field in ("body", "orelse", "finalbody"):
                sub = getattr(node, field, None)
                if isinstance(sub, list) and sub and isinstance(sub[0], ast.stmt):
                    if isinstance(node, ast.If) and field == "orelse" and len(sub) == 1 and isinstance(sub[0], ast.If):
                        continue    # elif chain
                    setattr(node, field, self._rewrite(sub))
        return node


class _NoElseAfterJump(ast.NodeTransformer):
    """`if c: ...; return/raise/continue/break` + `else: rest` -> the same `if` without else, followed by `rest` (and the converse is not applied)"""

    def _flatten(self, body):
        out = []
        for st in body:
            out.append(st)
            if isinstance(st, ast.If) and st.orelse and st.body and isinstance(st.body[-1], (ast.Return, ast.Raise, ast.Continue, ast.Break)) \
                    and not (len(st.orelse) == 1 and isinstance(st.orelse[0], ast.If)):
                rest, st.orelse = st.orelse, []
                out.extend(rest)
        return out

    def generic_visit(self, node):
        node = super().generic_visit(node)
        for field in ("body", "orelse", "finalbody"):
            sub = getattr(node, field, None)
            if isinstance(sub, list) and sub and isinstance(sub[0], ast.stmt) and not isinstance(node, ast.ClassDef):
                setattr(node, field, self._flatten(sub))
        return node


def twin_no_else_after_jump(tree, relpath):
    return _NoElseAfterJump().visit(tree)


class _GuardClauses(ast.NodeTransformer):
    """a function whose last statement is `if c: <body>` (no else) becomes `if not c: return` followed by <body> (guard clause); generators and functions whose
    value is used are left alone only if the body's end could fall through with a value (it cannot: both forms return None at the end)"""

    def visit_FunctionDef(self, node):
        self.generic_visit(node)
        if node.body and isinstance(node.body[-1], ast.If) and not node.body[-1].orelse and not any(isinstance(x, (ast.Yield, ast.YieldFrom)) for x in ast.walk(node)):
            last = node.body[-1]
            guard = ast.If(test=ast.UnaryOp(op=ast.Not(), operand=last.test), body=[ast.Return(value=None)], orelse=[])
            ast.copy_location(guard, last)
            node.body = node.body[:-1] + [guard] + last.body
        return node


def twin_guard_clauses(tree, relpath):
    return _GuardClauses().visit(tree)


class _ExpandAug(ast.NodeTransformer):
    """`x op= e` -> `x = x op e` for plain names and attributes (same meaning for the immutable counters / flags the library uses them on; lists are left alone)"""

    def visit_AugAssign(self, node):
        self.generic_visit(node)
        if isinstance(node.target, (ast.Name, ast.Attribute)) and isinstance(node.op, (ast.Add, ast.Sub, ast.BitOr, ast.BitAnd, ast.Mult)) \
                and not isinstance(node.value, (ast.List, ast.Tuple, ast.ListComp)):
            import copy
            load = copy.deepcopy(node.target)
            for x in ast.walk(load):
                if hasattr(x, "ctx"):
                    x.ctx = ast.Load()
            new = ast.Assign(targets=[node.target], value=ast.BinOp(left=load, op=node.op, right=node.value))
            return ast.copy_location(new, node)
        return node


def twin_expand_augmented(tree, relpath):
    return _ExpandAug().visit(tree)


class _Yoda(ast.NodeTransformer):
    """`x == C` -> `C == x` (also !=, is, is not) for constant C: operand order of a symmetric comparison"""

    def visit_Compare(self, node):
        self.generic_visit(node)
        if len(node.ops) == 1 and isinstance(node.ops[0], (ast.Eq, ast.NotEq, ast.Is, ast.IsNot)) and isinstance(node.comparators[0], ast.Constant) \
                and not isinstance(node.left, ast.Constant):
            node.left, node.comparators = node.comparators[0], [node.left]
        return node


def twin_yoda(tree, relpath):
    return _Yoda().visit(tree)


def twin_extract_tests(tree, relpath):
    return _ExtractTests().visit(tree)


TWINS = [("if-tests-extracted-into-explaining-variables", twin_extract_tests), ("no-else-after-return-raise-continue-break", twin_no_else_after_jump), ("trailing-if-turned-into-guard-clause", twin_guard_clauses), ("augmented-assignments-expanded", twin_expand_augmented),
         ("constant-first-in-symmetric-comparisons", twin_yoda), ("swap-branches-of-every-if-else", twin_swap_if_else), ("de-morgan-and-negated-comparisons-in-tests", twin_de_morgan),
         ("reformat-through-unparse", twin_reformat), ("noop-statements-everywhere", twin_noops), ("rename-all-function-locals", twin_rename_locals),
         ("invert-every-if-without-else", twin_invert_ifs), ("dict()-instead-of-{}", twin_dict_calls), ("log.debug-at-every-function-entry", twin_logging)]
from . import twins2 as _twins2     # noqa: E402
TWINS = TWINS + list(_twins2.TWINS2)


# ------------------------------------------------------------------------------------------------ execution
def _scratch(repo):
    d = tempfile.mkdtemp(prefix="pyro5verif.")
    shutil.copytree(os.path.join(repo, "Pyro5"), os.path.join(d, "Pyro5"), ignore=shutil.ignore_patterns("__pycache__"))
    return d


def _run_check(prop, repo_dir):
    """in-process run; returns (status, new_violation_keys, known_keys, message)"""
    sys.path.insert(0, VERIF)
    from verif import cli, report
    from verif.engine.model import AnalysisError
    try:
        R, ctx, _ = cli.run_property(prop, repo_dir, "quick")
    except AnalysisError as x:
        part = getattr(x, "partial", None)
        if part is not None:
            new_p, kn_p, _ = cli.classify(prop, part[0], report.load_known_findings())
            if new_p:
                return ("violation", [o.key for o in new_p], [o.key for o, _ in kn_p], "incomplete analysis: " + str(x))
        return ("error", [], [], str(x))
    except Exception as x:     # pragma: no cover
        return ("error", [], [], "internal error: %r" % (x,))
    known = report.load_known_findings()
    new, kn, stale = cli.classify(prop, R, known)
    return ("violation" if new else "ok", [o.key for o in new], [o.key for o, _ in kn], "")


def _job(job):
    kind, prop, repo, payload = job
    d = _scratch(repo)
    try:
        if kind == "mutant":
            m = MUTANTS[payload]
            path = os.path.join(d, m.relpath)
            tree = ast.parse(open(path).read())
            fn = find_fn(tree, m.fn) if m.fn else None
            m.edit(fn, tree)
            ast.fix_missing_locations(tree)
            src = ast.unparse(tree)
            compile(src, path, "exec")
            open(path, "w").write(src)
        elif kind == "seed":
            r = subprocess.run(["patch", "-p1", "-s", "-i", os.path.join(VERIF, "seeded", payload, "patch.diff")], cwd=d, capture_output=True, text=True)
            if r.returncode != 0:
                return (kind, prop, payload, "skipped", [], "patch no longer applies to /repo")
        elif kind == "twin":
            name, fn = TWINS[payload]
            for root, _, files in os.walk(os.path.join(d, "Pyro5")):
                for f in files:
                    if f.endswith(".py"):
                        path = os.path.join(root, f)
                        tree = ast.parse(open(path).read())
                        tree = fn(tree, os.path.relpath(path, d))
                        ast.fix_missing_locations(tree)
                        src = ast.unparse(tree)
                        compile(src, path, "exec")
                        open(path, "w").write(src)
        status, new, kn, msg = _run_check(prop, d)
        return (kind, prop, payload, status, new, msg)
    except LookupError as x:
        return (kind, prop, payload, "skipped", [], "anchor of the mutant not found in the current tree: %s" % x)
    except SyntaxError as x:
        return (kind, prop, payload, "error", [], "the edit does not compile: %s" % x)
    finally:
        shutil.rmtree(d, ignore_errors=True)


def run(prop, repo, seed):
    t0 = time.time()
    jobs = []
    for i, m in enumerate(MUTANTS):
        if m.prop == prop:
            jobs.append(("mutant", prop, repo, i))
    seeds = {}
    sdir = os.path.join(VERIF, "seeded")
    if os.path.isdir(sdir):
        for sid in sorted(os.listdir(sdir)):
            mp = os.path.join(sdir, sid, "meta.json")
            if os.path.exists(mp):
                seeds[sid] = json.load(open(mp))
                jobs.append(("seed", prop, repo, sid))
    for i, _ in enumerate(TWINS):
        jobs.append(("twin", prop, repo, i))
    # baseline on the unchanged tree
    base_status, base_new, base_known, base_msg = _run_check(prop, repo)
    disagreements = []
    results = []
    workers = min(16, max(1, os.cpu_count() or 1))
    with ProcessPoolExecutor(max_workers=workers) as ex:
        for kind, p, payload, status, new, msg in ex.map(_job, jobs, chunksize=1):
            if kind == "mutant":
                m = MUTANTS[payload]
                ok = status == "violation" and any(k.startswith(m.rule + "|") for k in new)
                if status == "skipped":
                    results.append({"mutant": m.name, "verdict": "skipped", "why": msg})
                    continue
                results.append({"mutant": m.name, "expected_rule": m.rule, "verdict": "killed" if ok else "SURVIVED", "reported": new[:4]})
                if not ok:
                    disagreements.append("mutant %s (%s) was not reported by %s (status %s %s %s)" % (m.name, m.relpath, m.rule, status, new[:3], msg))
            elif kind == "seed":
                meta = seeds[payload]
                expected = prop in meta.get("detected_by", {})
                if status == "skipped":
                    results.append({"seed": payload, "verdict": "skipped", "why": msg})
                    continue
                recorded = meta.get("detected_by", {}).get(prop) or []
                if expected and recorded and str(recorded[0]).startswith("ANALYSIS-ERROR"):
                    # recorded as "the check stops on this change" (a construct it is anchored in was restructured): exit 2 then, exit 2 now - or, after the rules
                    # learnt the new shape, a report. Never a clean pass.
                    ok = status in ("error", "violation")
                    results.append({"seed": payload, "expect": "stops with ANALYSIS-ERROR (or reports)", "verdict": "as recorded" if ok else "PASSES-NOW", "reported": new[:4], "message": msg[:160]})
                    if not ok:
                        disagreements.append("seeded change %s used to stop the %s check (anchor restructured) and now passes it silently" % (payload, prop))
                elif expected:
                    ok = status == "violation"
                    results.append({"seed": payload, "expect": "reported", "verdict": "reported" if ok else "MISSED", "reported": new[:4]})
                    if not ok:
                        disagreements.append("seeded change %s is no longer reported by the %s check (status %s %s)" % (payload, prop, status, msg))
                else:
                    ok = status == "ok"
                    results.append({"seed": payload, "expect": "silent (change of an unrelated property)", "verdict": "silent" if ok else "FALSE-ALARM", "reported": new[:4]})
                    if not ok:
                        disagreements.append("seeded change %s (property %s) makes the %s check report %s %s" % (payload, meta["property"], prop, new[:3], msg))
            else:
                name = TWINS[payload][0]
                ok = status == base_status and sorted(new) == sorted(base_new)
                results.append({"twin": name, "verdict": "same as unchanged tree" if ok else "DIFFERS", "reported": new[:4], "message": msg})
                if not ok:
                    disagreements.append("benign twin %s changes the verdict of %s: %s %s %s" % (name, prop, status, new[:3], msg))
    # mutants of other properties that list this property in `also` are not run here; they are covered when that property is checked
    n_mut = sum(1 for r in results if "mutant" in r and r["verdict"] != "skipped")
    return {
        "mutants": n_mut,
        "mutants_killed": sum(1 for r in results if r.get("verdict") == "killed"),
        "seeded_expected_reported": sum(1 for r in results if r.get("verdict") == "reported"),
        "seeded_expected_silent": sum(1 for r in results if r.get("verdict") == "silent"),
        "twins": sum(1 for r in results if "twin" in r),
        "skipped": [r for r in results if r.get("verdict") == "skipped"],
        "disagreements": disagreements,
        "results": results,
        "wall_s": round(time.time() - t0, 2),
    }
