"""
More benign twins: behaviour-preserving whole-package refactorings of the kind a maintainer makes (extract constant, extract variable for a returned /
raised value, contextlib.suppress <-> try/except/pass, docstrings, method order, operand order of comparisons, annotated locals, renamed module aliases,
a conditional expression written out as an if statement, membership in a tuple instead of an `or` of equalities).
Every check must report exactly what it reports on the unchanged tree.
"""
import ast
import copy


def _is_doc(st):
    return isinstance(st, ast.Expr) and isinstance(st.value, ast.Constant) and isinstance(st.value.value, str)


def _future_idx(tree):
    i = 0
    if tree.body and _is_doc(tree.body[0]):
        i = 1
    while i < len(tree.body) and isinstance(tree.body[i], ast.ImportFrom) and tree.body[i].module == "__future__":
        i += 1
    return i


def _after_imports_idx(tree):
    i = _future_idx(tree)
    last = i
    for j, st in enumerate(tree.body):
        if isinstance(st, (ast.Import, ast.ImportFrom)):
            last = j + 1
    return max(i, last)


# ---------------------------------------------------------------------------------------------- extract constants
class _ExtractConstants(ast.NodeTransformer):
    """every int literal > 1 and every string literal compared with ==/!=/in inside a function body is replaced by a module-level constant
    (`_K_65535 = 65535`, `_S_single = 'single'`) defined after the imports  ("no magic numbers")"""

    def __init__(self):
        self.consts = {}
        self.depth = 0

    def visit_FunctionDef(self, node):
        # defaults and decorators are evaluated at definition time (after our constants exist, they come first) - leave them alone anyway
        self.depth += 1
        node.body = [self.visit(st) for st in node.body]
        self.depth -= 1
        return node

    def visit_JoinedStr(self, node):
        return node

    def visit_Compare(self, node):
        self.generic_visit(node)
        if self.depth and all(isinstance(o, (ast.Eq, ast.NotEq)) for o in node.ops):
            node.left = self._str(node.left)
            node.comparators = [self._str(c) for c in node.comparators]
        return node

    def _str(self, e):
        if isinstance(e, ast.Constant) and isinstance(e.value, str) and e.value.isidentifier():
            name = "_S_" + e.value
            self.consts[name] = e.value
            return ast.copy_location(ast.Name(id=name, ctx=ast.Load()), e)
        return e

    def visit_Constant(self, node):
        if self.depth and type(node.value) is int and node.value > 1:
            name = "_K_%d" % node.value
            self.consts[name] = node.value
            return ast.copy_location(ast.Name(id=name, ctx=ast.Load()), node)
        return node


def twin_extract_constants(tree, relpath):
    t = _ExtractConstants()
    tree = t.visit(tree)
    idx = _future_idx(tree)
    defs = [ast.Assign(targets=[ast.Name(id=k, ctx=ast.Store())], value=ast.Constant(v)) for k, v in sorted(t.consts.items())]
    tree.body[idx:idx] = defs
    return tree


# ---------------------------------------------------------------------------------------------- returned / raised value through a variable
class _ReturnTemps(ast.NodeTransformer):
    """`return <expr>` -> `_rv = <expr>; return _rv`   and   `raise X(...)` -> `_exc = X(...); raise _exc`  (not `raise ... from`, not bare names)"""

    def _rw(self, body):
        out = []
        for st in body:
            if isinstance(st, ast.Return) and st.value is not None and not isinstance(st.value, (ast.Name, ast.Constant)):
                out.append(ast.copy_location(ast.Assign(targets=[ast.Name(id="_rv", ctx=ast.Store())], value=st.value), st))
                out.append(ast.copy_location(ast.Return(value=ast.Name(id="_rv", ctx=ast.Load())), st))
            elif isinstance(st, ast.Raise) and isinstance(st.exc, ast.Call) and st.cause is None:
                out.append(ast.copy_location(ast.Assign(targets=[ast.Name(id="_exc", ctx=ast.Store())], value=st.exc), st))
                out.append(ast.copy_location(ast.Raise(exc=ast.Name(id="_exc", ctx=ast.Load()), cause=None), st))
            else:
                out.append(st)
        return out

    def generic_visit(self, node):
        node = super().generic_visit(node)
        if isinstance(node, ast.ClassDef) or isinstance(node, ast.Module):
            return node
        if isinstance(node, ast.Lambda):
            return node
        for field in ("body", "orelse", "finalbody"):
            sub = getattr(node, field, None)
            if isinstance(sub, list) and sub and isinstance(sub[0], ast.stmt):
                setattr(node, field, self._rw(sub))
        return node


def twin_return_temps(tree, relpath):
    return _ReturnTemps().visit(tree)


# ---------------------------------------------------------------------------------------------- suppress <-> try/except/pass
class _SuppressToTry(ast.NodeTransformer):
    """`with contextlib.suppress(E...): body` -> `try: body  except (E...): pass`"""

    def visit_With(self, node):
        self.generic_visit(node)
        if len(node.items) == 1 and node.items[0].optional_vars is None:
            c = node.items[0].context_expr
            if isinstance(c, ast.Call) and ((isinstance(c.func, ast.Attribute) and c.func.attr == "suppress") or (isinstance(c.func, ast.Name) and c.func.id == "suppress")) and c.args and not c.keywords:
                typ = c.args[0] if len(c.args) == 1 else ast.Tuple(elts=list(c.args), ctx=ast.Load())
                h = ast.ExceptHandler(type=typ, name=None, body=[ast.Pass()])
                return ast.copy_location(ast.Try(body=node.body, handlers=[h], orelse=[], finalbody=[]), node)
        return node


def twin_suppress_to_try(tree, relpath):
    return _SuppressToTry().visit(tree)


class _TryToSuppress(ast.NodeTransformer):
    """`try: body  except E: pass` (one handler, no name, no else/finally) -> `with contextlib.suppress(E): body`; bodies containing break/continue/return are fine
    inside a with. Adds `import contextlib` when needed."""

    def __init__(self):
        self.used = False

    def visit_Try(self, node):
        self.generic_visit(node)
        if len(node.handlers) == 1 and not node.orelse and not node.finalbody:
            h = node.handlers[0]
            if h.type is not None and h.name is None and len(h.body) == 1 and isinstance(h.body[0], ast.Pass):
                args = list(h.type.elts) if isinstance(h.type, ast.Tuple) else [h.type]
                self.used = True
                call = ast.Call(func=ast.Attribute(value=ast.Name(id="contextlib", ctx=ast.Load()), attr="suppress", ctx=ast.Load()), args=args, keywords=[])
                return ast.copy_location(ast.With(items=[ast.withitem(context_expr=call, optional_vars=None)], body=node.body), node)
        return node


def twin_try_to_suppress(tree, relpath):
    t = _TryToSuppress()
    tree = t.visit(tree)
    if t.used and not any(isinstance(st, ast.Import) and any(a.name == "contextlib" and a.asname is None for a in st.names) for st in tree.body):
        tree.body.insert(_future_idx(tree), ast.Import(names=[ast.alias(name="contextlib", asname=None)]))
    return tree


# ---------------------------------------------------------------------------------------------- docstrings
def twin_docstrings(tree, relpath):
    """every docstring removed where present (a `pass` is left when the body would be empty), a docstring added where there was none"""
    for n in ast.walk(tree):
        if isinstance(n, (ast.FunctionDef, ast.ClassDef)):
            if n.body and _is_doc(n.body[0]):
                n.body = n.body[1:] or [ast.Pass()]
            else:
                n.body.insert(0, ast.Expr(ast.Constant("Documented by the twin.")))
    return tree


# ---------------------------------------------------------------------------------------------- method / function order
def twin_reverse_definition_order(tree, relpath):
    """the undecorated methods of every class are written in reverse order (class attributes and decorated members stay where they are);
    nothing at class-definition time depends on the order of plain `def`s"""
    for n in ast.walk(tree):
        if isinstance(n, ast.ClassDef):
            idx = [i for i, st in enumerate(n.body) if isinstance(st, ast.FunctionDef) and not st.decorator_list]
            # a class attribute assigned from a method name (`__next__ = next`-style aliases) pins the order: skip such classes
            names = {n.body[i].name for i in idx}
            pinned = any(isinstance(st, ast.Assign) and any(isinstance(x, ast.Name) and x.id in names for x in ast.walk(st.value)) for st in n.body)
            if pinned:
                continue
            fns = [n.body[i] for i in idx][::-1]
            for i, f in zip(idx, fns):
                n.body[i] = f
    return tree


# ---------------------------------------------------------------------------------------------- operand order
_FLIP = {ast.Lt: ast.Gt, ast.Gt: ast.Lt, ast.LtE: ast.GtE, ast.GtE: ast.LtE, ast.Eq: ast.Eq, ast.NotEq: ast.NotEq, ast.Is: ast.Is, ast.IsNot: ast.IsNot}


def _pure(e):
    return not any(isinstance(x, (ast.Call, ast.NamedExpr, ast.Yield, ast.YieldFrom, ast.Await)) for x in ast.walk(e))


class _FlipComparisons(ast.NodeTransformer):
    """`a < b` -> `b > a`, `a == b` -> `b == a` ... for every single-operator comparison whose operands are call-free (evaluation order is then irrelevant)"""

    def visit_Compare(self, node):
        self.generic_visit(node)
        if len(node.ops) == 1 and type(node.ops[0]) in _FLIP and _pure(node.left) and _pure(node.comparators[0]):
            node.left, node.comparators, node.ops = node.comparators[0], [node.left], [_FLIP[type(node.ops[0])]()]
        return node


def twin_flip_comparisons(tree, relpath):
    return _FlipComparisons().visit(tree)


# ---------------------------------------------------------------------------------------------- annotated locals / signatures
class _Annotate(ast.NodeTransformer):
    """`x = v` (single plain-name target, inside a function) -> `x: object = v`; every un-annotated parameter except self/cls gets `: object`"""

    def __init__(self):
        self.depth = 0

    def visit_FunctionDef(self, node):
        self.depth += 1
        declared = set()
        for x in ast.walk(node):
            if isinstance(x, (ast.Global, ast.Nonlocal)):
                declared.update(x.names)
        self.declared = getattr(self, "declared", set()) | declared
        for a in node.args.posonlyargs + node.args.args + node.args.kwonlyargs:
            if a.annotation is None and a.arg not in ("self", "cls"):
                a.annotation = ast.Name(id="object", ctx=ast.Load())
        node.body = [self.visit(st) for st in node.body]
        self.depth -= 1
        return node

    def visit_ClassDef(self, node):
        d, self.depth = self.depth, 0
        self.generic_visit(node)
        self.depth = d
        return node

    def visit_Assign(self, node):
        if self.depth and len(node.targets) == 1 and isinstance(node.targets[0], ast.Name) and node.targets[0].id not in getattr(self, "declared", set()):
            return ast.copy_location(ast.AnnAssign(target=node.targets[0], annotation=ast.Name(id="object", ctx=ast.Load()), value=node.value, simple=1), node)
        return node


def twin_annotate(tree, relpath):
    return _Annotate().visit(tree)


# ---------------------------------------------------------------------------------------------- module aliases renamed
def twin_rename_module_aliases(tree, relpath):
    """`from . import core, errors` -> `from . import core as core_m, errors as errors_m` (and `import x` -> `import x as x_m`) with every use renamed; only aliases
    that are never rebound, never a parameter / attribute-free local anywhere in the module"""
    cand = {}
    for st in tree.body:
        if isinstance(st, ast.ImportFrom) and st.level >= 1 and st.module is None:
            for a in st.names:
                if a.asname is None:
                    cand[a.name] = a
        elif isinstance(st, ast.Import):
            for a in st.names:
                if a.asname is None and "." not in a.name:
                    cand[a.name] = a
    if not cand:
        return tree
    banned = set()
    for n in ast.walk(tree):
        if isinstance(n, ast.Name) and isinstance(n.ctx, (ast.Store, ast.Del)):
            banned.add(n.id)
        elif isinstance(n, ast.arg):
            banned.add(n.arg)
        elif isinstance(n, (ast.Global, ast.Nonlocal)):
            banned.update(n.names)
        elif isinstance(n, ast.ExceptHandler) and n.name:
            banned.add(n.name)
        elif isinstance(n, (ast.FunctionDef, ast.ClassDef)):
            banned.add(n.name)
        elif isinstance(n, (ast.Import, ast.ImportFrom)) and n not in tree.body:
            for a in n.names:
                banned.add((a.asname or a.name).split(".")[0])
    # __all__ strings / re-exports: a module that is itself imported for these names (api.py, compatibility) must keep them
    if any(isinstance(st, ast.Assign) and any(isinstance(t, ast.Name) and t.id == "__all__" for t in st.targets) for st in tree.body):
        return tree
    if relpath.endswith("__init__.py") or relpath.endswith("api.py"):
        return tree
    ren = {k: k + "_m" for k in cand if k not in banned}
    for k, a in cand.items():
        if k in ren:
            a.asname = ren[k]
    for n in ast.walk(tree):
        if isinstance(n, ast.Name) and n.id in ren:
            n.id = ren[n.id]
    return tree


# ---------------------------------------------------------------------------------------------- conditional expression written out
class _ExpandIfExp(ast.NodeTransformer):
    """`x = a if c else b` -> `if c: x = a  else: x = b` (single target; plain assignment statements only)"""

    def _rw(self, body):
        out = []
        for st in body:
            if isinstance(st, ast.Assign) and isinstance(st.value, ast.IfExp) and len(st.targets) == 1 and isinstance(st.targets[0], (ast.Name, ast.Attribute)):
                t2 = copy.deepcopy(st.targets[0])
                new = ast.If(test=st.value.test, body=[ast.Assign(targets=[st.targets[0]], value=st.value.body)], orelse=[ast.Assign(targets=[t2], value=st.value.orelse)])
                out.append(ast.copy_location(new, st))
            else:
                out.append(st)
        return out

    def generic_visit(self, node):
        node = super().generic_visit(node)
        if isinstance(node, (ast.ClassDef, ast.Module)):
            return node
        for field in ("body", "orelse", "finalbody"):
            sub = getattr(node, field, None)
            if isinstance(sub, list) and sub and isinstance(sub[0], ast.stmt):
                setattr(node, field, self._rw(sub))
        return node


def twin_expand_ifexp(tree, relpath):
    return _ExpandIfExp().visit(tree)


# ---------------------------------------------------------------------------------------------- `x == a or x == b` -> `x in (a, b)`
class _OrToIn(ast.NodeTransformer):
    def visit_BoolOp(self, node):
        self.generic_visit(node)
        if isinstance(node.op, ast.Or) and len(node.values) >= 2 and all(isinstance(v, ast.Compare) and len(v.ops) == 1 and isinstance(v.ops[0], ast.Eq) for v in node.values):
            lefts = {ast.dump(v.left) for v in node.values}
            if len(lefts) == 1 and _pure(node.values[0].left) and all(isinstance(v.comparators[0], (ast.Constant, ast.Attribute, ast.Name)) for v in node.values):
                return ast.copy_location(ast.Compare(left=node.values[0].left, ops=[ast.In()], comparators=[ast.Tuple(elts=[v.comparators[0] for v in node.values], ctx=ast.Load())]), node)
        return node


def twin_or_to_in(tree, relpath):
    return _OrToIn().visit(tree)


# ---------------------------------------------------------------------------------------------- context-manager expression through a variable
class _WithTemps(ast.NodeTransformer):
    """`with self.lock:` -> `_cm = self.lock` ; `with _cm:`  (attribute expressions only; calls stay where they are)"""

    def _rw(self, body):
        out = []
        for st in body:
            if isinstance(st, ast.With) and len(st.items) == 1 and st.items[0].optional_vars is None and isinstance(st.items[0].context_expr, ast.Attribute):
                out.append(ast.copy_location(ast.Assign(targets=[ast.Name(id="_cm", ctx=ast.Store())], value=st.items[0].context_expr), st))
                st.items[0].context_expr = ast.Name(id="_cm", ctx=ast.Load())
            out.append(st)
        return out

    def generic_visit(self, node):
        node = super().generic_visit(node)
        if isinstance(node, (ast.ClassDef, ast.Module)):
            return node
        for field in ("body", "orelse", "finalbody"):
            sub = getattr(node, field, None)
            if isinstance(sub, list) and sub and isinstance(sub[0], ast.stmt):
                setattr(node, field, self._rw(sub))
        return node


def twin_with_temps(tree, relpath):
    return _WithTemps().visit(tree)


# ---------------------------------------------------------------------------------------------- %-formatting of log/exception texts as str.format / positional -> keyword
class _NotIn(ast.NodeTransformer):
    """`a not in b` -> `not (a in b)`, `a is not b` -> `not (a is b)` everywhere (not only in tests), `not a == b` is left alone"""

    def visit_Compare(self, node):
        self.generic_visit(node)
        if len(node.ops) == 1 and isinstance(node.ops[0], ast.NotIn):
            return ast.copy_location(ast.UnaryOp(op=ast.Not(), operand=ast.Compare(left=node.left, ops=[ast.In()], comparators=node.comparators)), node)
        return node


def twin_not_in(tree, relpath):
    return _NotIn().visit(tree)


TWINS2 = [
    ("magic-numbers-and-compared-strings-extracted-into-module-constants", twin_extract_constants),
    ("returned-and-raised-values-through-a-variable", twin_return_temps),
    ("contextlib.suppress-written-as-try-except-pass", twin_suppress_to_try),
    ("try-except-pass-written-as-contextlib.suppress", twin_try_to_suppress),
    ("docstrings-removed-or-added", twin_docstrings),
    ("methods-in-reverse-order", twin_reverse_definition_order),
    ("operands-of-comparisons-flipped", twin_flip_comparisons),
    ("locals-and-parameters-annotated", twin_annotate),
    ("module-aliases-renamed", twin_rename_module_aliases),
    ("conditional-expressions-written-as-if-statements", twin_expand_ifexp),
    ("or-of-equalities-written-as-membership", twin_or_to_in),
    ("context-manager-expression-through-a-variable", twin_with_temps),
    ("not-in-written-as-negated-membership", twin_not_in),
]


# ---------------------------------------------------------------------------------------------- additive: new members that nothing uses
def twin_additions(tree, relpath):
    """every class gets a new public method and a new private one, every module a new function and a new constant: code that nothing calls"""
    for n in ast.walk(tree):
        if isinstance(n, ast.ClassDef) and not any(isinstance(b, ast.Name) and b.id in ("Enum", "IntEnum") for b in n.bases):
            n.body.append(ast.parse("def twin_describe(self):\n    return 'a %s' % type(self).__name__").body[0])
            n.body.append(ast.parse("def _twin_private(self, value=None):\n    if value is None:\n        return 0\n    return len(str(value))").body[0])
    tree.body.append(ast.parse("TWIN_LIMIT = 4096").body[0])
    tree.body.append(ast.parse("def twin_helper(value=None):\n    result = []\n    if value:\n        result.append(value)\n    return result").body[0])
    return tree


TWINS2.append(("unused-methods-functions-and-constants-added-everywhere", twin_additions))


# ---------------------------------------------------------------------------------------------- extract method
class _Extract:
    """Extract Method, mechanically: in every function, a run of 2..6 consecutive simple statements (no return / yield / break / continue / del / global / nonlocal / try,
    no nested function or class) that is a direct member of some statement list is moved into a new helper - a new method `_x<N>_<name>(self, <ins>)` of the same class
    when the function is a plain method, a new module-level function otherwise - and replaced by `<outs> = helper(<ins>)`.
    ins  = locals of the function that the run reads and that are parameters or assigned by a statement that lexically precedes the run at the same or an outer level
           (so they are bound when the call is made);
    outs = locals the run assigns that are read anywhere else in the function.
    A run that reads a local which is neither an `in` nor assigned earlier inside the run itself is not extracted."""

    SIMPLE = (ast.Assign, ast.AugAssign, ast.Expr, ast.If, ast.For, ast.While, ast.With, ast.Raise, ast.Assert, ast.Pass)
    BANNED = (ast.Return, ast.Yield, ast.YieldFrom, ast.Break, ast.Continue, ast.Delete, ast.Global, ast.Nonlocal, ast.Try, ast.FunctionDef, ast.ClassDef, ast.Lambda,
              ast.Await, ast.NamedExpr, ast.Import, ast.ImportFrom, ast.ListComp, ast.SetComp, ast.DictComp, ast.GeneratorExp)

    def __init__(self, every=3):
        self.n = 0
        self.every = every
        self.new_module_fns = []

    @staticmethod
    def names(nodes, ctx):
        out = []
        for st in nodes:
            for x in ast.walk(st):
                if isinstance(x, ast.Name) and isinstance(x.ctx, ctx):
                    out.append(x.id)
        return out

    def function(self, fn, cls):
        params = [a.arg for a in fn.args.posonlyargs + fn.args.args + fn.args.kwonlyargs]
        if fn.args.vararg:
            params.append(fn.args.vararg.arg)
        if fn.args.kwarg:
            params.append(fn.args.kwarg.arg)
        if any(isinstance(x, (ast.Global, ast.Nonlocal, ast.Yield, ast.YieldFrom)) for x in ast.walk(fn)):
            return []
        if any(isinstance(x, (ast.FunctionDef, ast.Lambda, ast.ClassDef)) and x is not fn for x in ast.walk(fn)):
            return []       # closures: leave alone
        if any(isinstance(d, ast.Name) and d.id in ("staticmethod", "classmethod", "property") or isinstance(d, ast.Attribute) for d in fn.decorator_list):
            selfname = None
        else:
            selfname = params[0] if (cls is not None and params) else None
        if cls is not None and selfname is None:
            return []
        locals_ = set(params) | set(self.names([fn], ast.Store))
        for x in ast.walk(fn):
            if isinstance(x, ast.ExceptHandler) and x.name:
                locals_.add(x.name)
            elif isinstance(x, (ast.Import, ast.ImportFrom)):
                for a in x.names:
                    locals_.add((a.asname or a.name).split(".")[0])
        new_helpers = []

        def visit_list(body, bound_before, handler_reads=frozenset()):
            """bound_before: locals certainly assigned when control reaches the start of this list;
            handler_reads: names read by the handlers / finally blocks of the try statements this list is (part of) the body of - a run that assigns one of them
            cannot be moved into a function (if it raises half-way, the handler would no longer see the assignments made so far)"""
            bound = set(bound_before)
            i = 0
            while i < len(body):
                st = body[i]
                # candidate run starting at i
                j = i
                while j < len(body) and j - i < 6 and isinstance(body[j], self.SIMPLE) and not any(isinstance(x, self.BANNED) or (isinstance(x, ast.Raise) and x.exc is None) or
                                                                                                   (isinstance(x, ast.Name) and x.id == "super") for x in ast.walk(body[j])):
                    j += 1
                run = body[i:j]
                done = False
                if len(run) >= 2:
                    self.n += 1
                    if self.n % self.every == 0 and not (set(self.names(run, ast.Store)) & handler_reads):
                        done = self.try_extract(fn, cls, selfname, body, i, j, bound, locals_, new_helpers)
                if done:
                    st = body[i]
                    for nm in self.names([st], ast.Store):
                        bound.add(nm)
                    i += 1
                    continue
                # descend
                for field in ("body", "orelse", "finalbody"):
                    sub = getattr(st, field, None)
                    if isinstance(sub, list) and sub and isinstance(sub[0], ast.stmt):
                        inner = set(bound)
                        if isinstance(st, (ast.For,)) and field == "body":
                            inner |= set(self.names([st.target], ast.Store))
                        if isinstance(st, ast.With) and field == "body":
                            for it in st.items:
                                if it.optional_vars is not None:
                                    inner |= set(self.names([it.optional_vars], ast.Store))
                        hr = handler_reads
                        if isinstance(st, ast.Try) and field == "body":
                            hr = handler_reads | set(self.names([x for h in st.handlers for x in h.body] + st.finalbody + st.orelse, ast.Load))
                        visit_list(sub, inner, hr)
                for h in getattr(st, "handlers", []):
                    visit_list(h.body, set(bound) | ({h.name} if h.name else set()), handler_reads)
                if isinstance(st, (ast.Assign, ast.AugAssign, ast.With, ast.Import, ast.ImportFrom)):
                    if isinstance(st, ast.Assign):
                        for nm in self.names(st.targets, ast.Store):
                            bound.add(nm)
                    elif isinstance(st, ast.With):
                        for it in st.items:
                            if it.optional_vars is not None:
                                bound |= set(self.names([it.optional_vars], ast.Store))
                    elif isinstance(st, (ast.Import, ast.ImportFrom)):
                        for a in st.names:
                            bound.add((a.asname or a.name).split(".")[0])
                i += 1
        visit_list(fn.body, set(params))
        return new_helpers

    def try_extract(self, fn, cls, selfname, body, i, j, bound, locals_, new_helpers):
        run = body[i:j]
        stores = self.names(run, ast.Store)
        # reads in order of appearance; a read of a local not bound before the run must be preceded (lexically, at top level of the run) by its store in the run
        ins = []
        seen_store = set()
        for st in run:
            loads = [x.id for x in ast.walk(st) if isinstance(x, ast.Name) and isinstance(x.ctx, ast.Load)]
            for nm in loads:
                if nm in locals_ and nm != selfname:
                    if nm in bound:
                        if nm not in ins:
                            ins.append(nm)
                    elif nm not in seen_store:
                        return False
            if isinstance(st, ast.AugAssign) and isinstance(st.target, ast.Name):
                nm = st.target.id
                if nm in bound:
                    if nm not in ins:
                        ins.append(nm)
                elif nm not in seen_store:
                    return False
            if isinstance(st, ast.Assign):
                seen_store |= set(self.names(st.targets, ast.Store))
        rest_loads = set()
        for x in ast.walk(fn):
            if isinstance(x, ast.Name) and isinstance(x.ctx, ast.Load) and not any(x is y for st in run for y in ast.walk(st)):
                rest_loads.add(x.id)
        outs = [nm for nm in dict.fromkeys(stores) if nm in rest_loads]
        # an `out` that is only conditionally assigned inside the run must already be bound (it is then also passed in and returned unchanged)
        top_assigned = set()
        for st in run:
            if isinstance(st, ast.Assign):
                top_assigned |= set(self.names(st.targets, ast.Store))
        for nm in outs:
            if nm not in top_assigned:
                if nm in bound:
                    if nm not in ins:
                        ins.append(nm)
                else:
                    return False
        name = "_x%d_%s" % (self.n, fn.name.strip("_") or "fn")
        args = ([selfname] if selfname else []) + ins
        helper = ast.FunctionDef(name=name, args=ast.arguments(posonlyargs=[], args=[ast.arg(arg=a) for a in args], vararg=None, kwonlyargs=[], kw_defaults=[], kwarg=None, defaults=[]),
                                 body=list(run), decorator_list=[], returns=None, type_comment=None, type_params=[])
        if outs:
            helper.body.append(ast.Return(value=ast.Tuple(elts=[ast.Name(id=o, ctx=ast.Load()) for o in outs], ctx=ast.Load()) if len(outs) > 1 else ast.Name(id=outs[0], ctx=ast.Load())))
        if selfname:
            callee = ast.Attribute(value=ast.Name(id=selfname, ctx=ast.Load()), attr=name, ctx=ast.Load())
        else:
            callee = ast.Name(id=name, ctx=ast.Load())
        call = ast.Call(func=callee, args=[ast.Name(id=a, ctx=ast.Load()) for a in ins], keywords=[])
        if outs:
            tgt = ast.Tuple(elts=[ast.Name(id=o, ctx=ast.Store()) for o in outs], ctx=ast.Store()) if len(outs) > 1 else ast.Name(id=outs[0], ctx=ast.Store())
            new = ast.Assign(targets=[tgt], value=call)
        else:
            new = ast.Expr(value=call)
        ast.copy_location(new, run[0])
        ast.copy_location(helper, fn)
        body[i:j] = [new]
        new_helpers.append((helper, bool(selfname)))
        return True


def _mangled_private_use(node):
    return any(isinstance(x, ast.Attribute) and x.attr.startswith("__") and not x.attr.endswith("__") for x in ast.walk(node)) or \
        any(isinstance(x, ast.Name) and x.id.startswith("__") and not x.id.endswith("__") for x in ast.walk(node))


def twin_extract_methods(tree, relpath, every=3):
    ex = _Extract(every)
    for n in list(tree.body):
        if isinstance(n, ast.ClassDef):
            for m in list(n.body):
                if isinstance(m, ast.FunctionDef):
                    for helper, is_method in ex.function(m, n):
                        if is_method or not _mangled_private_use(helper):
                            if is_method:
                                n.body.append(helper)
                            else:
                                tree.body.insert(tree.body.index(n), helper)
                        else:
                            n.body.append(ast.FunctionDef(name=helper.name, args=helper.args, body=helper.body, decorator_list=[ast.Name(id="staticmethod", ctx=ast.Load())],
                                                          returns=None, type_comment=None, type_params=[]))
        elif isinstance(n, ast.FunctionDef):
            for helper, _ in ex.function(n, None):
                tree.body.insert(tree.body.index(n), helper)     # before its caller: module-level functions may run while the module is imported
    return tree


TWINS2.append(("extract-method-on-every-third-run-of-simple-statements", twin_extract_methods))
TWINS2.append(("extract-method-on-every-second-run-of-simple-statements", lambda tree, relpath: twin_extract_methods(tree, relpath, every=2)))
TWINS2.append(("extract-method-on-every-run-of-simple-statements", lambda tree, relpath: twin_extract_methods(tree, relpath, every=1)))


# ---------------------------------------------------------------------------------------------- message texts / modern spellings
class _Messages(ast.NodeTransformer):
    """the text of every log message and of every exception message built from a literal is reworded (prefixed), conversions kept"""

    def visit_Call(self, node):
        self.generic_visit(node)
        is_log = isinstance(node.func, ast.Attribute) and isinstance(node.func.value, ast.Name) and node.func.value.id in ("log", "logger", "logging") and \
            node.func.attr in ("debug", "info", "warning", "error", "exception", "critical")
        if is_log and node.args and isinstance(node.args[0], ast.Constant) and isinstance(node.args[0].value, str):
            node.args[0] = ast.copy_location(ast.Constant("pyro: " + node.args[0].value), node.args[0])
        return node

    def visit_Raise(self, node):
        self.generic_visit(node)
        c = node.exc
        if isinstance(c, ast.Call) and c.args:
            a = c.args[0]
            if isinstance(a, ast.Constant) and isinstance(a.value, str):
                c.args[0] = ast.copy_location(ast.Constant("Pyro: " + a.value), a)
            elif isinstance(a, ast.BinOp) and isinstance(a.op, ast.Mod) and isinstance(a.left, ast.Constant) and isinstance(a.left.value, str):
                a.left = ast.copy_location(ast.Constant("Pyro: " + a.left.value), a.left)
        return node


def twin_messages(tree, relpath):
    return _Messages().visit(tree)


class _Modernise(ast.NodeTransformer):
    """pyupgrade-style: `super(C, self).m()` -> `super().m()` inside methods of C, `class C(object):` -> `class C:`, `set([a, b])` -> `{a, b}`"""

    def __init__(self):
        self.cls = []
        self.fn = []

    def visit_ClassDef(self, node):
        node.bases = [b for b in node.bases if not (isinstance(b, ast.Name) and b.id == "object")] if len(node.bases) == 1 else node.bases
        self.cls.append(node.name)
        self.generic_visit(node)
        self.cls.pop()
        return node

    def visit_FunctionDef(self, node):
        self.fn.append(node)
        self.generic_visit(node)
        self.fn.pop()
        return node

    def visit_Call(self, node):
        self.generic_visit(node)
        if isinstance(node.func, ast.Name) and node.func.id == "super" and len(node.args) == 2 and self.cls and len(self.fn) == 1 and \
                isinstance(node.args[0], ast.Name) and node.args[0].id == self.cls[-1] and isinstance(node.args[1], ast.Name) and \
                self.fn[-1].args.args and node.args[1].id == self.fn[-1].args.args[0].arg:
            node.args = []
        if isinstance(node.func, ast.Name) and node.func.id == "set" and len(node.args) == 1 and isinstance(node.args[0], ast.List) and node.args[0].elts and not node.keywords:
            return ast.copy_location(ast.Set(elts=node.args[0].elts), node)
        return node


def twin_modernise(tree, relpath):
    return _Modernise().visit(tree)


TWINS2.append(("log-and-exception-message-texts-reworded", twin_messages))
TWINS2.append(("modern-spellings-super-without-arguments-no-object-base-set-displays", twin_modernise))


class _PercentToFormat(ast.NodeTransformer):
    """`"... %s ... %r ... %d" % (a, b, c)` (tuple display, plain conversions only) -> `"... {} ... {!r} ... {}".format(a, b, c)`; `"%s" % x` with a single conversion and an
    operand that is a call-free, subscript/attribute/name expression which is not a tuple -> `"{}".format(x)`"""

    def visit_BinOp(self, node):
        self.generic_visit(node)
        if isinstance(node.op, ast.Mod) and isinstance(node.left, ast.Constant) and isinstance(node.left.value, str):
            import re
            text = node.left.value
            specs = re.findall(r"%(.)", text)
            if not specs or any(c not in "srd%" for c in specs) or "{" in text or "}" in text:
                return node
            n = sum(1 for c in specs if c != "%")
            if isinstance(node.right, ast.Tuple):
                if len(node.right.elts) != n:
                    return node
                args = list(node.right.elts)
            elif n == 1 and isinstance(node.right, (ast.Call,)) and isinstance(node.right.func, ast.Name) and node.right.func.id in ("len", "str", "repr", "type", "int"):
                args = [node.right]
            else:
                return node
            # %d of a non-int differs from {} - only convert %d when the operand is a len() call or an int constant
            out, i = [], 0
            k = 0
            while i < len(text):
                if text[i] == "%" and i + 1 < len(text):
                    c = text[i + 1]
                    if c == "%":
                        out.append("%")
                    else:
                        a = args[k]
                        if c == "d" and not ((isinstance(a, ast.Call) and isinstance(a.func, ast.Name) and a.func.id == "len") or (isinstance(a, ast.Constant) and type(a.value) is int)):
                            return node
                        out.append("{!r}" if c == "r" else "{}")
                        k += 1
                    i += 2
                else:
                    out.append(text[i])
                    i += 1
            return ast.copy_location(ast.Call(func=ast.Attribute(value=ast.Constant("".join(out)), attr="format", ctx=ast.Load()), args=args, keywords=[]), node)
        return node


def twin_percent_to_format(tree, relpath):
    return _PercentToFormat().visit(tree)


TWINS2.append(("percent-formatting-written-as-str.format", twin_percent_to_format))


def twin_try_finally_noop(tree, relpath):
    """every function body (after the docstring) is wrapped in `try: <body> finally: pass` (what a timing / metrics wrapper leaves when its bookkeeping is a no-op)"""
    for n in ast.walk(tree):
        if isinstance(n, ast.FunctionDef):
            head = n.body[:1] if n.body and _is_doc(n.body[0]) else []
            rest = n.body[len(head):]
            if rest:
                n.body = head + [ast.Try(body=rest, handlers=[], orelse=[], finalbody=[ast.Pass()])]
    return tree


TWINS2.append(("every-function-body-in-try-finally-pass", twin_try_finally_noop))


def twin_identity_decorator(tree, relpath):
    """every undecorated function gets a decorator that returns it unchanged (what a registration / tracing decorator looks like to a reader of the source)"""
    for n in ast.walk(tree):
        if isinstance(n, ast.FunctionDef) and not n.decorator_list and n.name != "_twin_identity":
            n.decorator_list = [ast.Name(id="_twin_identity", ctx=ast.Load())]
    tree.body.insert(_future_idx(tree), ast.parse("def _twin_identity(f):\n    return f").body[0])
    return tree


TWINS2.append(("identity-decorator-on-every-function", twin_identity_decorator))


# ---------------------------------------------------------------------------------------------- positional arguments written as keywords
def twin_keyword_arguments(tree, relpath):
    """calls of the module's own plain functions and methods (`self.m(a, b)`, `f(a, b)`, `cls.m(a)`) pass their arguments by keyword (`self.m(x=a, y=b)`); only for callees
    whose name is defined exactly once in the module, undecorated, without *args / positional-only parameters, and not a dunder"""
    defs = {}
    for n in ast.walk(tree):
        if isinstance(n, ast.ClassDef):
            for m in n.body:
                if isinstance(m, ast.FunctionDef):
                    defs.setdefault(m.name, []).append((m, True))
    for st in tree.body:
        if isinstance(st, ast.FunctionDef):
            defs.setdefault(st.name, []).append((st, False))
    # a name that is also defined as a nested function or assigned anywhere is left alone
    nested = {n.name for f in ast.walk(tree) if isinstance(f, (ast.FunctionDef, ast.Lambda)) for n in ast.walk(f) if isinstance(n, ast.FunctionDef) and n is not f}
    ok = {}
    for name, lst in defs.items():
        if len(lst) != 1 or name in nested or (name.startswith("__") and name.endswith("__")):
            continue
        fn, is_method = lst[0]
        a = fn.args
        if fn.decorator_list or a.vararg or a.posonlyargs or a.kwarg:
            continue
        params = [x.arg for x in a.args]
        if is_method:
            if not params:
                continue
            params = params[1:]
        ok[name] = (params, is_method)
    owner = {}
    for n in ast.walk(tree):
        if isinstance(n, ast.ClassDef):
            own = {m.name for m in n.body if isinstance(m, ast.FunctionDef)}
            for m in n.body:
                for x in ast.walk(m):
                    owner.setdefault(id(x), own)
    for c in ast.walk(tree):
        if not isinstance(c, ast.Call) or not c.args or any(isinstance(x, ast.Starred) for x in c.args) or any(k.arg is None for k in c.keywords):
            continue
        if isinstance(c.func, ast.Attribute) and isinstance(c.func.value, ast.Name) and c.func.value.id in ("self", "cls") and c.func.attr in ok and ok[c.func.attr][1] \
                and c.func.attr in owner.get(id(c), ()):
            params = ok[c.func.attr][0]
        elif isinstance(c.func, ast.Name) and c.func.id in ok and not ok[c.func.id][1]:
            params = ok[c.func.id][0]
        else:
            continue
        if len(c.args) > len(params) or {k.arg for k in c.keywords} & set(params[:len(c.args)]):
            continue
        c.keywords = [ast.keyword(arg=p, value=v) for p, v in zip(params, c.args)] + c.keywords
        c.args = []
    return tree


TWINS2.append(("own-functions-called-with-keyword-arguments", twin_keyword_arguments))
