"""C14 — The name server is a faithful map, identical on both storage back-ends."""
import ast
import re
from ..engine.model import AnalysisError, dotted
from ..engine.context import unparse, enclosing_stmt, stores_in, enclosing_withs, enclosing_loops
from ..engine.cfg import walk_no_nested, calls_in, facts_of, no_exc
from .c03 import edge_has_fact

EXPLANATION = (
    "Decided: every SQL text reaching execute() in SqlStorage is a constant (or a constant with a list of '?' placeholders), "
    "values travel as bound parameters and no pattern operator (LIKE/GLOB/REGEXP/MATCH) is applied to caller data; every "
    "mutating storage method runs all its DML on one connection inside one `with sqlite3.connect` block with exactly one "
    "commit that follows all of it; both back-ends define the same storage protocol with the same parameter lists and "
    "NameServer uses only methods both have; every deletion path of NameServer.remove excludes the server's own entry; an "
    "argument whose length the SQL search binds as a count reaches it as a set; removal counts are the length of the very list "
    "that was removed / 1 after a guarded delete; a missing key raises KeyError on both back-ends; the generic filter matches "
    "literally (startswith on the raw name, flag-less regex applied with match()); no ordering comparison on the name column; "
    "what is stored is the URI text printed verbatim from its fields (shared with C19)."
    'Also decided: SqlStorage.__setitem__ writes the given uri on every path; the nsc tool asks yplookup the question its command names. '
    'Also decided (round 7): SqlStorage.__setitem__ removes the old tags whatever the new tags are. '
    'Also decided (round 8): NameServer changes the storage only through operations the in-memory back-end implements itself (no dict-inherited mutator that bypasses its normalising __setitem__). '
    "Also decided (round 11): Answer shapes follow return_metadata on every path and delegation; remove(name) does not depend on the name's truth value; MemoryStorage.everything answers with a snapshot; the `sql:` file path is taken verbatim; a safe registration is refused for every name that is present. "
    'Also decided (round 10): nsc hands the command-line words to the name server unchanged; the auto-cleaner removes by exact name only. '
    'Also decided (round 12): Tags reach the storage as a set (the sqlite meta_all query counts rows); the auto-cleaner forgets the unreachable mark of a name that answers again. '
    "Not decided: sqlite's own semantics, reopen equality, histories, injected "
    "statement failures."
)

PATTERN_OPS = {"LIKE", "GLOB", "REGEXP", "MATCH"}
DML = ("INSERT", "DELETE", "UPDATE", "ALTER", "DROP", "CREATE", "REPLACE")
PROTOCOL = ["optimized_prefix_list", "optimized_regex_list", "optimized_metadata_search", "everything", "remove_items", "close"]
MAPPING_MIXINS = {"keys", "items", "values", "get", "pop", "popitem", "clear", "update", "setdefault", "__contains__", "__eq__", "__ne__",
                  "__getitem__", "__setitem__", "__delitem__", "__iter__", "__len__", "copy"}
NSNAME = "Pyro5.core.NAMESERVER_NAME"


def sql_text(ctx, f, expr, node=None, depth=0):
    """returns (text or None, dynamic: bool). dynamic=True if non-constant data is spliced into the text."""
    if isinstance(expr, ast.Constant) and isinstance(expr.value, str):
        return expr.value, False
    if isinstance(expr, ast.Call) and isinstance(expr.func, ast.Attribute) and expr.func.attr == "format":
        base, dyn = sql_text(ctx, f, expr.func.value, node, depth + 1)
        if base is None:
            return None, True
        # every format argument must be a placeholder list:  ",".join(['?'] * n)
        for a in list(expr.args) + [k.value for k in expr.keywords]:
            if not _placeholder_list(a):
                return base, True
        return base, dyn
    if isinstance(expr, ast.BinOp) and isinstance(expr.op, ast.Add):
        l, d1 = sql_text(ctx, f, expr.left, node, depth + 1)
        r, d2 = sql_text(ctx, f, expr.right, node, depth + 1)
        if l is None or r is None:
            return (l or "") + (r or ""), True
        return l + r, d1 or d2
    if isinstance(expr, ast.Name) and node is not None and depth < 3:
        defs = ctx.rd(f).reaching(node, expr.id)
        texts = []
        dyn = False
        for d in defs:
            if d.kind != "assign" or d.value is None:
                return None, True
            t, dd = sql_text(ctx, f, d.value, d.node, depth + 1)
            if t is None:
                return None, True
            texts.append(t)
            dyn = dyn or dd
        return " ; ".join(texts), dyn
    if isinstance(expr, ast.JoinedStr):
        return "".join(v.value for v in expr.values if isinstance(v, ast.Constant)), True
    return None, True


def _placeholder_list(a):
    # ",".join(['?'] * <n>)
    if isinstance(a, ast.Call) and isinstance(a.func, ast.Attribute) and a.func.attr == "join" and isinstance(a.func.value, ast.Constant) and len(a.args) == 1:
        x = a.args[0]
        if isinstance(x, ast.BinOp) and isinstance(x.op, ast.Mult):
            for l in (x.left, x.right):
                if isinstance(l, ast.List) and len(l.elts) == 1 and isinstance(l.elts[0], ast.Constant) and l.elts[0].value == "?":
                    return True
    return False


def run(ctx, R, tier):
    p = ctx.p
    es = ctx.escape
    sq = p.cls("Pyro5.nameserver.SqlStorage")
    mem = p.cls("Pyro5.nameserver.MemoryStorage")
    ns = p.cls("Pyro5.nameserver.NameServer")
    R.rule("C14-R1", "every SQL text is constant (plus '?' lists), values are bound parameters, no pattern operator on caller data", floor=30)
    R.rule("C14-R2", "each mutating SqlStorage method: all DML inside one `with sqlite3.connect` block, exactly one commit after all of it, not in a loop", floor=5)
    R.rule("C14-R3", "MemoryStorage and SqlStorage define the same storage protocol with the same parameter lists; NameServer uses only methods both have", floor=8)
    R.rule("C14-R4", "every deletion path of NameServer.remove excludes core.NAMESERVER_NAME", floor=3)
    R.rule("C14-R5", "an argument whose len() the SQL metadata search binds as a count is a set when it gets there", floor=1)
    R.rule("C14-R9", "what register() stores is the URI's text, printed verbatim from its fields (shared with C19-R3/R5)", floor=2)
    R.rule("C14-R8", "the generic (in-memory) filter matches literally and case-sensitively", floor=1)
    R.rule("C14-R7", "a missing key raises KeyError on both back-ends", floor=1)
    R.rule("C14-R6", "removal counts: len() of the very list handed to remove_items; 1 only after the guarded delete", floor=3)
    R.rule("C14-R10", "SqlStorage.__setitem__ writes the key and the uri it was given on every path (an overwrite does not keep the old uri) and removes the old tags whatever the new ones are", floor=2)
    R.rule("C14-R11", "the command line client asks the question its command names: yplookup_all -> meta_all, yplookup_any -> meta_any", floor=2)
    R.rule("C14-R12", "the sqlite columns that hold names, uris and tags have TEXT affinity, so a value that looks like a number is stored as the text it is", floor=3)

    # ---------------------------------------------------------------- R1 + collect DML
    dml_by_method = {}
    n_exec = 0
    for name, m in sorted(sq.methods.items()):
        cfg = ctx.cfg(m)
        i = 0
        for c, _ in ctx.cg.calls_of(m):
            if not (isinstance(c.func, ast.Attribute) and c.func.attr in ("execute", "executemany", "executescript")):
                continue
            n_exec += 1
            i += 1
            nodes = ctx.node_of(m, c)
            text, dyn = sql_text(ctx, m, c.args[0], nodes[0] if nodes else None) if c.args else (None, True)
            key = "SqlStorage.%s|execute#%d" % (name, i)
            if text is None:
                R.fail("C14-R1", key, "SQL text is a constant", m.loc(c), "the statement text `%s` is computed at run time" % unparse(c.args[0] if c.args else c))
                continue
            words = set(re.findall(r"[A-Za-z_]+", text.upper()))
            ops = words & PATTERN_OPS
            # ordering comparisons on the name column depend on collation / code-point order: not a literal-prefix idiom
            if re.search(r"\bname\s*(>=|<=|<|>)|\bBETWEEN\b", " ".join(text.split()), re.I):
                ops = ops | {"RANGE-COMPARISON"}
            ok = not dyn and not ops
            why = ""
            if dyn:
                why = "caller data is spliced into the SQL text instead of being bound: `%s`" % unparse(c.args[0], 70)
            elif ops:
                escaped = "ESCAPE" in words
                why = "`%s` applies %s to a bound parameter: '_' and '%%' in names act as wildcards and ASCII letters match case-insensitively, " \
                      "so the sqlite back-end lists/removes other names than the in-memory one%s" % (
                          " ".join(text.split())[:80], "/".join(sorted(ops)), "" if not escaped else " (ESCAPE present but case folding remains)")
            R.check(ok, "C14-R1", key, "constant SQL, bound parameters, literal matching", m.loc(c), why)
            first = text.strip().split(None, 1)[0].upper() if text.strip() else ""
            if first in DML:
                dml_by_method.setdefault(name, []).append(c)
    if n_exec < 30:
        raise AnalysisError("SqlStorage: fewer execute() calls than expected (%d)" % n_exec)
    # DML through sibling helper (_create_schema)
    helper_dml = {n for n in dml_by_method if n.startswith("_") and not n.endswith("__")}
    for name, m in sq.methods.items():
        for c, _ in ctx.cg.calls_of(m):
            if isinstance(c.func, ast.Attribute) and isinstance(c.func.value, ast.Name) and c.func.value.id == "self" and c.func.attr in helper_dml:
                dml_by_method.setdefault(name, []).append(c)

    # ---------------------------------------------------------------- R2
    mutating = {n for n in dml_by_method if n not in helper_dml}
    for name in sorted(dml_by_method):
        if name in helper_dml:
            continue
        m = sq.methods[name]
        cfg = ctx.cfg(m)
        dml = dml_by_method[name]
        # mutating sibling operations run (and commit) in their own transaction
        sib = []
        for n in walk_no_nested(m.node):
            if isinstance(n, ast.Call) and isinstance(n.func, ast.Attribute) and isinstance(n.func.value, ast.Name) and n.func.value.id == "self" \
                    and n.func.attr in mutating and n.func.attr != "__init__":
                sib.append(n)
            elif isinstance(n, (ast.Delete, ast.Assign, ast.AugAssign)):
                tg = n.targets if isinstance(n, (ast.Delete, ast.Assign)) else [n.target]
                if any(isinstance(t, ast.Subscript) and isinstance(t.value, ast.Name) and t.value.id == "self" for t in tg):
                    sib.append(n)
        if sib:
            R.fail("C14-R2", "SqlStorage.%s|one-transaction" % name, "one transaction per mutating operation", m.loc(sib[0]),
                   "`%s` runs in its own committed transaction next to this method's own statements: if a later statement fails, the earlier "
                   "part of the operation stays committed (e.g. the old entry is gone although the operation raised)" % unparse(sib[0], 60))
            continue
        withs = set()
        outside = []
        for c in dml:
            w = None
            for ww in enclosing_withs(c):
                if any(isinstance(it.context_expr, ast.Call) and dotted(it.context_expr.func) == "sqlite3.connect" for it in ww.items):
                    w = ww
                    break
            if w is None:
                outside.append(c)
            else:
                withs.add(w)
        ok = not outside and len(withs) == 1
        why = "DML spread over %d connection blocks / %d statements outside any block" % (len(withs), len(outside))
        if ok:
            W = list(withs)[0]
            commits = [c for st in W.body for c in walk_no_nested(st) if isinstance(c, ast.Call) and isinstance(c.func, ast.Attribute) and c.func.attr == "commit"]
            if len(commits) != 1:
                ok = False
                why = "%d commit() calls in the connection block (a partial operation could be made durable, or none of it)" % len(commits)
            elif any(l for l in enclosing_loops(commits[0], m.node) if _inside(l, W)):
                ok = False
                why = "commit() inside a loop: a failure in a later iteration leaves the earlier ones committed (the operation is not all-or-nothing)"
            else:
                cn = ctx.node_of(m, commits[0])
                dn = [n for c in dml for n in ctx.node_of(m, c)]
                after = cfg.reachable(cn, edge_ok=no_exc)
                if any(n.id in after and n not in cn for n in dn):
                    ok = False
                    why = "a mutating statement can run after the commit"
                elif not cfg.all_paths_pass(dn, lambda n: n in cn, edge_ok=no_exc, targets=[cfg.exit]):
                    ok = False
                    why = "a normal path leaves the method after a mutating statement without committing"
        if ok and len(dml) >= 2:
            auto = [c for c in walk_no_nested(m.node) if isinstance(c, ast.Call) and dotted(c.func) == "sqlite3.connect"
                    and any(k.arg == "isolation_level" and isinstance(k.value, ast.Constant) and k.value.value is None for k in c.keywords)]
            if auto and name != "clear":
                ok = False
                why = "the connection is opened with isolation_level=None (autocommit): each of the %d statements commits on its own, so a failure half way leaves a partly applied operation" % len(dml)
        R.check(ok, "C14-R2", "SqlStorage.%s|one-transaction" % name, "%d mutating statement(s) in one block with one trailing commit" % len(dml), m.loc(), why)

    # ---------------------------------------------------------------- R3
    for meth in PROTOCOL:
        a, b = mem.methods.get(meth), sq.methods.get(meth)
        ok = a is not None and b is not None
        why = "%s is missing on %s" % (meth, "MemoryStorage" if a is None else "SqlStorage")
        if ok:
            sa = (a.params, [unparse(d) for d in a.node.args.defaults])
            sb = (b.params, [unparse(d) for d in b.node.args.defaults])
            ok = sa == sb
            why = "signatures differ: %s vs %s" % (sa, sb)
        R.check(ok, "C14-R3", "protocol|%s" % meth, "defined by both back-ends with the same parameters", (b or a or ns).loc() if (a or b) else ns.module.relpath, why)
    used = set()
    for name, m in ns.methods.items():
        for n in walk_no_nested(m.node):
            if isinstance(n, ast.Call) and isinstance(n.func, ast.Attribute) and unparse(n.func.value) == "self.storage":
                used.add(n.func.attr)
    sq_has = set(sq.methods) | (MAPPING_MIXINS if "collections.abc.MutableMapping" in p.external_bases(sq) or "MutableMapping" in " ".join(p.external_bases(sq)) else set())
    mem_has = set(mem.methods) | (MAPPING_MIXINS if "dict" in p.external_bases(mem) or "builtins.dict" in p.external_bases(mem) else set())
    missing = sorted(u for u in used if u not in sq_has or u not in mem_has)
    R.check(not missing, "C14-R3", "NameServer|uses-common-methods", "NameServer calls only storage methods that both back-ends provide (%d used)" % len(used),
            ns.module.relpath, "not available on both back-ends: %s" % missing)
    # MemoryStorage IS a dict and normalises what it stores in its own __setitem__ (no tags -> frozenset()); a mutator it merely inherits from dict (setdefault, update,
    # pop, popitem, |=) writes straight into the dict and bypasses that, while the sqlite back-end routes the same MutableMapping mix-in through its __setitem__:
    # NameServer may change the storage only through operations MemoryStorage defines itself
    DICT_MUTATORS = {"setdefault", "update", "pop", "popitem", "clear", "__ior__"}
    inherited = sorted(u for u in used if u in DICT_MUTATORS and u not in mem.methods)
    R.check(not inherited, "C14-R3", "NameServer|stores-through-the-storage's-own-operations", "NameServer changes the storage only through operations the in-memory back-end implements itself",
            ns.module.relpath, "NameServer calls self.storage.%s(), which MemoryStorage inherits from dict: the entry is written without passing MemoryStorage.__setitem__, so it is stored "
            "un-normalised (tags None instead of frozenset()) and the two back-ends answer listings and yplookup differently" % (inherited[0] if inherited else ""))
    for dunder in ("__getitem__", "__setitem__", "__delitem__", "__contains__", "__len__", "__iter__"):
        R.check(dunder in sq.methods, "C14-R3", "SqlStorage|%s" % dunder, "mapping operation implemented by the sqlite back-end", sq.module.relpath,
                "%s missing" % dunder)

    # ---------------------------------------------------------------- R8
    lst = ctx.fn("Pyro5.nameserver.NameServer.list")
    sw = [n for n in walk_no_nested(lst.node) if isinstance(n, ast.Call) and isinstance(n.func, ast.Attribute) and n.func.attr == "startswith" and
          n.args and unparse(n.args[0]) == "prefix"]
    folds = [n for n in walk_no_nested(lst.node) if isinstance(n, ast.Call) and isinstance(n.func, ast.Attribute) and n.func.attr in ("lower", "upper", "casefold", "strip")]
    rxc = [n for n in walk_no_nested(lst.node) if isinstance(n, ast.Call) and dotted(n.func) == "re.compile"]
    rx_ok = bool(rxc) and all(len(c.args) == 1 and not c.keywords and unparse(c.args[0]) == "regex" for c in rxc)
    anch = [n for n in walk_no_nested(lst.node) if isinstance(n, ast.Call) and isinstance(n.func, ast.Attribute) and n.func.attr in ("match", "search", "fullmatch", "findall")
            and isinstance(n.func.value, ast.Name) and n.func.value.id == "regex"]
    rx_ok = rx_ok and len(anch) == 1 and anch[0].func.attr == "match"
    R.check(len(sw) == 1 and not folds and rx_ok, "C14-R8", "NameServer.list|literal-matching", "the generic filter matches prefixes with str.startswith on the raw name and applies the flag-less regex with match() (anchored at the start)", lst.loc(),
            "names are case-folded/stripped, the regex is compiled with flags, or it is not applied with .match(): %s" % ([unparse(x) for x in folds + rxc + anch][:4]))
    # the printer/parser agreement of URIs is part of the map's fidelity (register stores str(uri), lookup re-parses)
    from ..report import Rules as _Rules
    from ..report import run_shared as _run_shared
    from . import c19 as _c19
    R19 = _Rules("C19")
    try:
        _run_shared(ctx, _c19, R19, tier)
    except AnalysisError as _shared_x:
        # the other property's own anchors are gone on this tree: its check reports that; what it produced before is still shared
        R.note("obligations shared from C19 are incomplete on this tree: %s" % _shared_x)
    for o in R19.obs:
        if o.key in ("C19-R3|printer|fields-verbatim", "C19-R5|NameServer.register|stores-text"):
            R.add("C14-R9", o.key.split("|", 1)[1], o.desc, o.ok, o.loc, o.detail)

    # ---------------------------------------------------------------- R7
    gi = sq.methods["__getitem__"]
    gcfg = ctx.cfg(gi)
    ke = [n for n in gcfg.nodes if n.kind == "stmt" and isinstance(n.ast, ast.Raise) and isinstance(n.ast.exc, ast.Call) and unparse(n.ast.exc.func) == "KeyError"]
    fall = [e for e in gcfg.exit.pred if e.src.id in gcfg.live() and not (e.src.kind == "stmt" and isinstance(e.src.ast, ast.Return))]
    lk = ctx.fn("Pyro5.nameserver.NameServer.lookup")
    handles = any(isinstance(h, ast.ExceptHandler) and h.type is not None and unparse(h.type) == "KeyError" for h in ast.walk(lk.node))
    R.check(bool(ke) and not fall and handles, "C14-R7", "SqlStorage.__getitem__|missing-raises-KeyError", "a missing name raises KeyError on sqlite as it does on the dict back-end (lookup/set_metadata turn it into NamingError)",
            gi.loc(), "SqlStorage.__getitem__ can return None / not raise KeyError for a missing name")

    # the SHAPE of an answer follows the return_metadata flag, on both back-ends and on every path: each entry a function with that parameter builds is selected by
    # the flag (under `if return_metadata`, or `pair if return_metadata else uri`), and where it delegates it hands the flag on unchanged. A path that ignores the flag
    # answers {name: (uri, tags)} where the other back-end (or the other filter) answers {name: uri}
    FLAG = "return_metadata"
    flagged = [g for g in p.functions.values() if g.module.name == "Pyro5.nameserver" and not isinstance(g.node, ast.Lambda) and FLAG in g.params]
    if len(flagged) < 10:
        raise AnalysisError("nameserver: fewer functions with a return_metadata parameter than expected (%d)" % len(flagged))
    DELEG = {"optimized_prefix_list", "optimized_regex_list", "optimized_metadata_search", "everything", "lookup", "yplookup", "list"}

    def about_flag(atom, pol):
        return isinstance(atom, ast.Name) and atom.id == FLAG
    n_entries = 0
    for g in flagged:
        gcfg = ctx.cfg(g)
        badshape = None
        for n in walk_no_nested(g.node):
            built = None
            if isinstance(n, ast.Assign) and len(n.targets) == 1 and isinstance(n.targets[0], ast.Subscript) and isinstance(n.targets[0].value, ast.Name):
                built, val = n, n.value
            elif isinstance(n, ast.DictComp):
                built, val = enclosing_stmt(n), n.value
            if built is not None:
                n_entries += 1
                by_ifexp = isinstance(val, ast.IfExp) and isinstance(val.test, ast.Name) and val.test.id == FLAG
                nodes = gcfg.nodes_for(built)
                if not by_ifexp and not (nodes and all(gcfg.guarded(x, lambda e: edge_has_fact(e, about_flag)) for x in nodes)):
                    badshape = badshape or (built, "the entry `%s` is built the same way whatever return_metadata says" % unparse(built, 70))
            if isinstance(n, ast.Call) and isinstance(n.func, ast.Attribute) and n.func.attr in DELEG and not (isinstance(n.func.value, ast.Name) and n.func.value.id in ("db", "cursor", "re")):
                callee = next((h for h in flagged if h.name == n.func.attr and FLAG in h.params), None)
                if callee is None:
                    continue
                pos = callee.params.index(FLAG) - (1 if callee.cls is not None else 0)
                arg = next((k.value for k in n.keywords if k.arg == FLAG), n.args[pos] if len(n.args) > pos else None)
                if arg is None or not ((isinstance(arg, ast.Name) and arg.id == FLAG) or (isinstance(arg, ast.Constant) and arg.value is True)):
                    badshape = badshape or (n, "`%s` does not hand the caller's return_metadata on (it passes `%s`)" % (unparse(n, 70), unparse(arg, 30) if arg is not None else "nothing: the default"))
        R.check(badshape is None, "C14-R3", "answer-shape|%s" % g.qualname.split("Pyro5.nameserver.")[-1], "entries are pairs exactly when return_metadata is set; delegations pass the flag on",
                g.loc(badshape[0]) if badshape else g.loc(),
                ("%s: with the flag off this path answers (uri, tags) pairs - or with it on, bare uris - where the other back-end / the other filter answers the opposite" % badshape[1]) if badshape else "")
    if n_entries < 8:
        raise AnalysisError("nameserver: fewer answer entries built under return_metadata than expected (%d)" % n_entries)
    # a safe registration is refused for EVERY name that is present, whatever is stored under it: the refusal depends on `safe` and on the membership test only. A further
    # condition (same uri, same owner, ...) lets a second registrant through, who is told it registered the name and replaces the first one's metadata
    rg = ctx.fn("Pyro5.nameserver.NameServer.register")
    rgcfg = ctx.cfg(rg)
    refusals = [n for n in rgcfg.nodes if n.kind == "stmt" and isinstance(n.ast, ast.Raise) and n.ast.exc is not None and "already registered" in unparse(n.ast.exc, 200)]
    if len(refusals) != 1 or "safe" not in rg.params:
        raise AnalysisError("NameServer.register: the 'already registered' refusal or the safe parameter vanished")
    seen_f, guards = set(), []
    anc_tests = set()
    cur_ = getattr(refusals[0].ast, "_parent", None)
    while cur_ is not None and cur_ is not rg.node:
        if isinstance(cur_, ast.If):
            anc_tests.add(id(cur_.test))
        cur_ = getattr(cur_, "_parent", None)
    for e in [e for n in rgcfg.nodes for e in n.succ if e.test is not None and id(e.test) in anc_tests]:
        for t in e.tests():
            for atom, pol in facts_of(t, e.polarity):
                key_ = (unparse(atom, 200), pol)
                if key_ in seen_f:
                    continue
                seen_f.add(key_)
                if rgcfg.guarded(refusals[0], lambda ed, a=key_: edge_has_fact(ed, lambda at, pl: (unparse(at, 200), pl) == a)):
                    guards.append((atom, pol))
    namep_ = rg.params[1]

    def kind_of(atom, pol):
        if isinstance(atom, ast.Name) and atom.id == "safe":
            return "safe"
        if isinstance(atom, ast.Compare) and len(atom.ops) == 1 and isinstance(atom.ops[0], (ast.In, ast.NotIn)) and unparse(atom.left) == namep_ and unparse(atom.comparators[0]) == "self.storage":
            return "present"
        if isinstance(atom, ast.Call) and isinstance(atom.func, ast.Attribute) and atom.func.attr == "__contains__" and unparse(atom.func.value) == "self.storage":
            return "present"
        return "other"
    kinds = {kind_of(a, pl) for a, pl in guards}
    extra = [(a, pl) for a, pl in guards if kind_of(a, pl) == "other"]
    R.check({"safe", "present"} <= kinds and not extra, "C14-R3", "register|safe-refuses-every-name-that-is-present", "the 'already registered' refusal depends on `safe` and on `name in self.storage` only",
            rg.loc(refusals[0].ast),
            ("the refusal also requires `%s` to be %s: a safe registration of a name that IS present gets through in the other case - two registrants are both told they own the name"
             % (unparse(extra[0][0], 60), extra[0][1])) if extra else "the refusal is no longer tied to both `safe` and the presence of the name")
    # the tags of an entry reach the storage as a SET (or None): the sqlite back-end writes one row per element it is given and answers meta_all with
    # `HAVING COUNT(metadata) = <number of tags asked for>` - a tag stored twice (tags given as a list with a repeat) makes that count wrong on sqlite only
    for fq_ in ("Pyro5.nameserver.NameServer.register", "Pyro5.nameserver.NameServer.set_metadata"):
        wf = ctx.fn(fq_)
        wrd = ctx.rd(wf)
        wcfg = ctx.cfg(wf)
        wst = [st for st, t, k in stores_in(wf.node) if k == "assign" and isinstance(t, ast.Subscript) and unparse(t.value) == "self.storage" and isinstance(st.value, ast.Tuple) and len(st.value.elts) == 2]
        if not wst:
            raise AnalysisError("%s: the store of (uri, tags) into the storage vanished" % fq_)

        def _is_set_or_none(e, node, depth=0):
            if depth > 4:
                return False
            if isinstance(e, ast.Constant) and e.value is None:
                return True
            if isinstance(e, (ast.Set, ast.SetComp)) or (isinstance(e, ast.Call) and isinstance(e.func, ast.Name) and e.func.id in ("set", "frozenset")):
                return True
            if isinstance(e, ast.IfExp):
                return _is_set_or_none(e.body, node, depth + 1) and _is_set_or_none(e.orelse, node, depth + 1)
            if isinstance(e, ast.BoolOp):
                return all(_is_set_or_none(v, node, depth + 1) for v in e.values)
            if isinstance(e, ast.Name):
                defs = [d for d in wrd.reaching(node, e.id)]
                return bool(defs) and all(d.kind == "assign" and d.value is not None and _is_set_or_none(d.value, d.node, depth + 1) for d in defs if d.node is not None) and \
                    all(d.node is not None for d in defs)
            return False
        badw = [st for st in wst if not all(_is_set_or_none(st.value.elts[1], n) for n in wcfg.nodes_for(st))]
        R.check(not badw, "C14-R5", "%s|tags-reach-the-storage-as-a-set" % wf.name, "the tags stored with an entry are set(...) of what was given (or None)", wf.loc(badw[0]) if badw else wf.loc(),
                "`%s` stores the caller's tag collection as it came: a list with a repeated tag is written as two rows by the sqlite back-end, whose meta_all query counts rows - "
                "yplookup(meta_all=...) then answers differently on sqlite than on the in-memory back-end" % (unparse(badw[0], 70) if badw else ""))
    # a name that answers again is no longer "unreachable since ...": the auto-cleaner forgets the mark on a successful probe, not only when it removes the name -
    # otherwise one failed probe long ago plus one failed probe now removes a registration that was reachable all the time in between
    acl = ctx.fn("Pyro5.nameserver.AutoCleaner.run")
    acfg = ctx.cfg(acl)
    forgets = [n for st, t, k in stores_in(acl.node) if k == "del" and isinstance(t, ast.Subscript) and unparse(t.value) == "self.unreachable" for n in acfg.nodes_for(st)] + \
        [n for c in walk_no_nested(acl.node) if isinstance(c, ast.Call) and isinstance(c.func, ast.Attribute) and c.func.attr in ("pop", "discard", "clear") and unparse(c.func.value) == "self.unreachable"
         for n in ctx.node_of(acl, c)]
    rm_nodes = [n for c in walk_no_nested(acl.node) if isinstance(c, ast.Call) and isinstance(c.func, ast.Attribute) and c.func.attr == "remove" and "nameserver" in unparse(c.func.value)
                for n in ctx.node_of(acl, c)]
    on_recovery = [n for n in forgets if not any(acfg.dominates(r_, n) for r_ in rm_nodes)]
    R.check(bool(on_recovery), "C14-R4", "AutoCleaner|mark-forgotten-when-the-name-answers-again", "the unreachable-since mark of a name is dropped on a path that does not remove the name (the probe succeeded)", acl.loc(),
            "the only place where a name leaves `self.unreachable` is after its removal from the name server: a name that failed one probe keeps that time stamp for ever - the next "
            "single failed probe, however much later, removes a registration that is (and was) alive")
    # an answer is a snapshot on both back-ends: MemoryStorage.everything hands out a NEW dict (the sqlite back-end builds one per query) - the storage object itself as
    # the answer is the live registry: it changes under the caller (or while the reply is serialised: "dictionary changed size during iteration"), and a caller that
    # empties its "answer" empties the name server, its own entry included
    mev = ctx.fn("Pyro5.nameserver.MemoryStorage.everything")
    live = [r for r in walk_no_nested(mev.node) if isinstance(r, ast.Return) and r.value is not None and
            (isinstance(r.value, (ast.Name, ast.Attribute)) or (isinstance(r.value, ast.Call) and isinstance(r.value.func, ast.Name) and r.value.func.id == "super"))]
    R.check(not live, "C14-R3", "MemoryStorage.everything|answers-with-a-snapshot", "the in-memory listing returns a new dict on every path, like the sqlite one", mev.loc(live[0]) if live else mev.loc(),
            "`%s` hands out the storage itself: list(return_metadata=True) on the in-memory back-end returns the live registry (it changes while the caller - or the reply "
            "serialiser - looks at it; clearing it clears the name server), the sqlite back-end returns a fresh dict" % (unparse(live[0], 60) if live else ""))
    # the database file is the one the operator named: the storage specification's path part reaches SqlStorage exactly as given (file systems are case sensitive)
    nsd = ctx.fn("Pyro5.nameserver.NameServerDaemon.__init__")
    sparam = "storage"
    if sparam not in nsd.params:
        raise AnalysisError("NameServerDaemon.__init__ has no `storage` parameter any more")
    rewrites = [st for st, t, k in stores_in(nsd.node) if isinstance(t, ast.Name) and t.id == sparam and k == "assign" and
                any(isinstance(c, ast.Call) and isinstance(c.func, ast.Attribute) and c.func.attr in ("lower", "upper", "casefold", "strip", "lstrip", "rstrip", "title", "capitalize", "swapcase", "replace", "normpath", "abspath", "realpath")
                    for c in ast.walk(st.value))]
    sq_calls = [c for c in walk_no_nested(nsd.node) if isinstance(c, ast.Call) and isinstance(c.func, ast.Name) and c.func.id == "SqlStorage"]
    if not sq_calls:
        raise AnalysisError("NameServerDaemon.__init__ no longer constructs SqlStorage")
    R.check(not rewrites, "C14-R3", "NameServerDaemon|sql-file-path-taken-verbatim", "the `sql:<file>` specification is not case-folded, stripped or normalised before the file name is cut out of it", nsd.loc(rewrites[0]) if rewrites else nsd.loc(),
            "`%s` rewrites the whole storage specification, file name included: the server opens another database file than the one named (on a case-sensitive file system "
            "'Names.DB' becomes 'names.db'): the existing registrations are invisible and new ones go to the wrong file - after a restart the map is not the one that was stored"
            % (unparse(rewrites[0], 70) if rewrites else ""))
    from .common import names_bound
    names_bound(ctx, R, "C14-R7", {"Pyro5.nameserver", "Pyro5.nsc"}, "an operation of the name server answers NameError instead of its result or its NamingError/KeyError, on one back-end or both")
    # ---------------------------------------------------------------- R4 / R6
    rm = ctx.fn("Pyro5.nameserver.NameServer.remove")
    cfg = ctx.cfg(rm)
    rd = ctx.rd(rm)
    dels = [st for st, t, k in stores_in(rm.node) if k == "del" and isinstance(t, ast.Subscript) and unparse(t.value) == "self.storage"]
    if len(dels) != 1:
        raise AnalysisError("NameServer.remove: expected one `del self.storage[...]`")

    def not_own(atom, pol):
        if isinstance(atom, ast.Compare) and len(atom.ops) == 1:
            sides = [atom.left, atom.comparators[0]]
            if any(isinstance(s, (ast.Attribute, ast.Name)) and ctx.resolves_to_object(s, rm, NSNAME) for s in sides):
                return (isinstance(atom.ops[0], ast.NotEq) and pol is True) or (isinstance(atom.ops[0], ast.Eq) and pol is False)
        return False
    dn = cfg.nodes_for(dels[0])
    R.check(all(cfg.guarded(n, lambda e: edge_has_fact(e, not_own)) for n in dn), "C14-R4", "remove|by-name", "the single delete is behind `name != core.NAMESERVER_NAME`",
            rm.loc(dels[0]), "remove(name='Pyro.NameServer') deletes the name server's own entry")
    # ... and behind nothing that depends on what the name looks like: every string is a name (register, lookup and list accept the empty string), so the by-name branch
    # is selected by "a name was given" (`is not None`), never by the name's truth value or length
    namep = rm.params[1]

    def looks_at_the_name(atom, pol):
        if isinstance(atom, ast.Name) and atom.id == namep:
            return True
        if isinstance(atom, ast.Call) and isinstance(atom.func, ast.Name) and atom.func.id in ("len", "bool") and atom.args and unparse(atom.args[0]) == namep:
            return True
        if isinstance(atom, ast.Compare) and len(atom.ops) == 1:
            sides = [atom.left, atom.comparators[0]]
            if any(isinstance(x, ast.Name) and x.id == namep or (isinstance(x, ast.Call) and unparse(x.func) == "len" and x.args and unparse(x.args[0]) == namep) for x in sides) and \
                    any(isinstance(x, ast.Constant) and x.value in ("", 0, 1) and x.value is not None and not isinstance(x.value, bool) for x in sides):
                return True
        return False
    shaped = any(cfg.guarded(n, lambda e: edge_has_fact(e, looks_at_the_name)) for n in dn)
    R.check(not shaped, "C14-R4", "remove|by-name-for-every-name", "the by-name delete does not depend on the name's truth value or length (the empty string is a name)", rm.loc(dels[0]),
            "the delete is reached only when `%s` is truthy / non-empty: remove('') answers 0 and leaves the entry that register('') created and lookup('') finds" % namep)
    ri = [c for c, _ in ctx.cg.calls_of(rm) if isinstance(c.func, ast.Attribute) and c.func.attr == "remove_items"]
    if len(ri) != 2:
        raise AnalysisError("NameServer.remove: expected two remove_items calls (prefix, regex), found %d" % len(ri))
    for i, c in enumerate(sorted(ri, key=lambda c: c.lineno)):
        path = "prefix" if i == 0 else "regex"
        arg = c.args[0] if c.args else None
        ok = isinstance(arg, ast.Name)
        why = "remove_items argument is not a local list"
        if ok:
            var = arg.id
            cn = ctx.node_of(rm, c)
            strip = [n for n in cfg.nodes for cc in calls_in(n) if isinstance(cc.func, ast.Attribute) and cc.func.attr == "remove" and unparse(cc.func.value) == var
                     and cc.args and ctx.resolves_to_object(cc.args[0], rm, NSNAME)]
            defs = [d for n in cn for d in rd.reaching(n, var)]
            def_nodes = [d.node for d in defs if d.node is not None]

            def absent(atom, pol, var=var):
                return pol is False and isinstance(atom, ast.Compare) and len(atom.ops) == 1 and isinstance(atom.ops[0], ast.In) and \
                    unparse(atom.comparators[0]) == var and ctx.resolves_to_object(atom.left, rm, NSNAME)
            # from the definition of the list, remove_items must not be reachable unless the own name was found absent or was taken out
            reach = cfg.reachable(def_nodes, edge_ok=lambda e: e.kind != "exc" and not edge_has_fact(e, absent), node_blocked=lambda n: n in strip)
            ok = bool(def_nodes) and bool(strip) and not any(n.id in reach for n in cn)
            why = "the list handed to remove_items may still contain core.NAMESERVER_NAME: remove(%s=...) can delete the name server's own entry" % path
        R.check(ok, "C14-R4", "remove|by-%s" % path, "the own entry is taken out of the list before remove_items", rm.loc(c), why)
        # R6: count is len of that list
        ok6 = False
        why6 = "no `return len(<list>)` after remove_items"
        if isinstance(arg, ast.Name):
            cn = ctx.node_of(rm, c)
            for n in cfg.nodes:
                if n.kind == "stmt" and isinstance(n.ast, ast.Return) and any(cfg.dominates(x, n) for x in cn):
                    v = n.ast.value
                    if isinstance(v, ast.Call) and isinstance(v.func, ast.Name) and v.func.id == "len" and v.args and unparse(v.args[0]) == arg.id:
                        d1 = {d.id for x in cn for d in rd.reaching(x, arg.id)}
                        d2 = {d.id for d in rd.reaching(n, arg.id)}
                        ok6 = d1 == d2
                        why6 = "the list is redefined between removal and counting"
                    elif cfg.path_exists(cn, lambda y: y is n, edge_ok=no_exc):
                        # first return reached after the removal must be the count
                        if not ok6:
                            why6 = "after remove_items the method returns `%s`, not the length of the removed list" % unparse(v)
                        break
        R.check(ok6, "C14-R6", "remove|count-%s" % path, "the reported count is the length of the list that was removed", rm.loc(c), why6)
    ones = [n for n in cfg.nodes if n.kind == "stmt" and isinstance(n.ast, ast.Return) and isinstance(n.ast.value, ast.Constant) and n.ast.value.value == 1]

    def present(atom, pol):
        return pol is True and isinstance(atom, ast.Compare) and len(atom.ops) == 1 and isinstance(atom.ops[0], ast.In) and unparse(atom.comparators[0]) == "self.storage"
    ok = len(ones) == 1 and all(cfg.dominates(d, ones[0]) for d in dn) and cfg.guarded(ones[0], lambda e: edge_has_fact(e, present))
    R.check(ok, "C14-R6", "remove|count-name", "`return 1` only after the delete of a name that was present", rm.loc(), "remove(name=...) can report 1 without having removed an entry")

    # ---------------------------------------------------------------- R5
    oms = sq.methods.get("optimized_metadata_search")
    if oms is None:
        raise AnalysisError("SqlStorage.optimized_metadata_search vanished")
    n5 = 0
    for prm in oms.params[1:]:
        count_uses = []
        for n in walk_no_nested(oms.node):
            if isinstance(n, ast.Call) and isinstance(n.func, ast.Name) and n.func.id == "len" and n.args and unparse(n.args[0]) == prm:
                parent = getattr(n, "_parent", None)
                if isinstance(parent, ast.BinOp) and isinstance(parent.op, ast.Mult):
                    continue      # ['?'] * len(x): placeholder count only
                count_uses.append(n)
        if not count_uses:
            continue
        n5 += 1
        callee_norm = any(k == "assign" and isinstance(t, ast.Name) and t.id == prm and isinstance(st.value, ast.Call) and isinstance(st.value.func, ast.Name)
                          and st.value.func.id in ("set", "frozenset") for st, t, k in stores_in(oms.node))
        ok = callee_norm
        why = ""
        if not ok:
            ok = True
            for g, c in ctx.cg.callers_of(oms.qualname):
                a = None
                for kw in c.keywords:
                    if kw.arg == prm:
                        a = kw.value
                idx = oms.params.index(prm) - 1
                if a is None and idx < len(c.args):
                    a = c.args[idx]
                if a is None:
                    continue
                good = isinstance(a, ast.Call) and isinstance(a.func, ast.Name) and a.func.id in ("set", "frozenset")
                if isinstance(a, ast.Name):
                    defs = [d for n in ctx.node_of(g, c) for d in ctx.rd(g).reaching(n, a.id)]
                    good = bool(defs) and all(d.kind == "assign" and isinstance(d.value, ast.Call) and isinstance(d.value.func, ast.Name) and
                                              d.value.func.id in ("set", "frozenset") for d in defs)
                if not good:
                    ok = False
                    why = "%s passes `%s` as given by the client; optimized_metadata_search binds len(%s) as the required match count, so a tag listed " \
                          "twice finds nothing on sqlite while the in-memory path (which builds a frozenset) finds the entry" % (g.loc(c), unparse(a), prm)
        R.check(ok, "C14-R5", "optimized_metadata_search|%s-is-a-set" % prm, "the counted argument is a set when it reaches the SQL search", oms.loc(count_uses[0]), why)
    if n5 < 1:
        raise AnalysisError("optimized_metadata_search: no counted argument found")
    # every tag collection whose len() the sqlite search takes (also just for the placeholder list) reaches it as a set: an iterator or generator has no len()
    yp = ctx.fn("Pyro5.nameserver.NameServer.yplookup")
    for prm in oms.params[1:]:
        if not any(isinstance(n, ast.Call) and isinstance(n.func, ast.Name) and n.func.id == "len" and n.args and unparse(n.args[0]) == prm for n in walk_no_nested(oms.node)):
            continue
        bad = None
        for c in ctx.calls_to(yp, oms.qualname) + [c for c, _ in ctx.cg.calls_of(yp) if isinstance(c.func, ast.Attribute) and c.func.attr == "optimized_metadata_search"]:
            for kw in c.keywords:
                if kw.arg == prm:
                    a = kw.value
                    good = isinstance(a, ast.Call) and isinstance(a.func, ast.Name) and a.func.id in ("set", "frozenset")
                    if isinstance(a, ast.Name):
                        defs = [d for n in ctx.node_of(yp, c) for d in ctx.rd(yp).reaching(n, a.id)]
                        good = bool(defs) and all(d.kind == "assign" and isinstance(d.value, ast.Call) and isinstance(d.value.func, ast.Name) and d.value.func.id in ("set", "frozenset") for d in defs)
                    if not good:
                        bad = c
        R.check(bad is None, "C14-R5", "optimized_metadata_search|%s-is-sized" % prm, "yplookup converts the tags to a (frozen)set before the storage sees them", yp.loc(bad) if bad is not None else yp.loc(),
                "yplookup passes `%s` to the storage as the caller gave it: the sqlite search takes len() of it, the in-memory search only iterates it, so an iterator works on one "
                "back-end and raises TypeError on the other" % prm)

    # ---------------------------------------------------------------- R10
    from .common import sql_setitem_writes_uri, sql_setitem_replaces_metadata
    sql_setitem_writes_uri(ctx, R, "C14-R10")
    sql_setitem_replaces_metadata(ctx, R, "C14-R10")

    # ---------------------------------------------------------------- R11
    for cmd, kw in (("cmd_yplookup_all", "meta_all"), ("cmd_yplookup_any", "meta_any")):
        g = ctx.fn("Pyro5.nsc.handle_command.%s" % cmd)
        yc = [c for c in walk_no_nested(g.node) if isinstance(c, ast.Call) and isinstance(c.func, ast.Attribute) and c.func.attr == "yplookup"]
        kws = {k.arg for c in yc for k in c.keywords}
        R.check(len(yc) == 1 and kw in kws and not ({"meta_all", "meta_any"} - {kw}) & kws, "C14-R11", "nsc.%s|keyword" % cmd, "calls yplookup(%s=<tags>)" % kw, g.loc(),
                "`nsc %s` calls yplookup with %s: it answers the other question (all tags / any tag) on both back-ends alike" % (cmd[4:], sorted(kws & {"meta_all", "meta_any"})))

    # the control tool hands the command-line words to the name server as they are: a name is any string (blanks, tabs and line ends included), so a word that is
    # stripped, case-folded or otherwise rewritten on the way addresses a different entry than the one the user named
    hc = ctx.fn("Pyro5.nsc.handle_command")
    inner = [g for g in p.functions.values() if g.qualname.startswith("Pyro5.nsc.handle_command.") and not isinstance(g.node, ast.Lambda)]
    if len(inner) < 8:
        raise AnalysisError("Pyro5.nsc.handle_command: the command functions vanished")
    PLAIN = {"set", "frozenset", "list", "tuple", "len", "sorted"}
    bad = None
    sent = 0
    for g in [hc] + inner:
        for st, t, k in stores_in(g.node):
            if isinstance(t, ast.Name) and t.id in ("args", "cmd") and bad is None:
                bad = (g, st, "`%s` is re-bound" % t.id)
        local = {}
        for st, t, k in stores_in(g.node):
            if k == "assign" and isinstance(t, ast.Name) and isinstance(st, ast.Assign):
                local.setdefault(t.id, []).append(st.value)
        for c in walk_no_nested(g.node) if g is not hc else []:
            if not (isinstance(c, ast.Call) and isinstance(c.func, ast.Attribute) and isinstance(c.func.value, ast.Name) and c.func.value.id == "namesrv"):
                continue
            for a in list(c.args) + [kw.value for kw in c.keywords]:
                exprs, seen = [a], set()
                while exprs:
                    e = exprs.pop()
                    for n in ast.walk(e):
                        if isinstance(n, ast.Name) and n.id in local and n.id not in seen:
                            seen.add(n.id)
                            exprs.extend(local[n.id])
                    if "args" not in {n.id for n in ast.walk(e) if isinstance(n, ast.Name)}:
                        continue
                    sent += 1
                    for n in ast.walk(e):
                        if isinstance(n, ast.Call) and not (isinstance(n.func, ast.Name) and n.func.id in PLAIN) and "args" in {m.id for m in ast.walk(n) if isinstance(m, ast.Name)} and bad is None:
                            bad = (g, c, "`%s` rewrites a command-line word" % unparse(n, 60))
                        if isinstance(n, (ast.BinOp, ast.JoinedStr, ast.ListComp, ast.SetComp, ast.GeneratorExp, ast.DictComp)) and "args" in {m.id for m in ast.walk(n) if isinstance(m, ast.Name)} and bad is None:
                            bad = (g, c, "`%s` computes a new value from a command-line word" % unparse(n, 60))
    if sent < 8:
        raise AnalysisError("Pyro5.nsc.handle_command: fewer than 8 command-line words reach the name server (%d)" % sent)
    R.check(bad is None, "C14-R11", "nsc|command-line-words-reach-the-name-server-verbatim", "names, patterns, uris and tags are passed on exactly as typed (%d argument expressions)" % sent,
            bad[0].loc(bad[1]) if bad else hc.loc(),
            ("%s in %s: the name server is asked about a different string than the one on the command line (names are literal: blanks, case and line ends are part of them)" % (bad[2], bad[0].name)) if bad else "")

    # the auto-cleaner is the one caller of remove() inside the name server's own process: it takes out the names it found unreachable, one by one and by NAME - a
    # prefix or a regex (also one built with re.escape: remove() applies it with match(), which is a prefix match) takes every longer name along with it
    ac = ctx.fn("Pyro5.nameserver.AutoCleaner.run")
    rms = [c for c in walk_no_nested(ac.node) if isinstance(c, ast.Call) and isinstance(c.func, ast.Attribute) and c.func.attr == "remove" and "nameserver" in unparse(c.func.value, 60)]
    if not rms:
        raise AnalysisError("AutoCleaner.run no longer removes anything from the name server")
    wide = [c for c in rms if {k.arg for k in c.keywords} - {"name"} or len(c.args) != (0 if c.keywords else 1) or any(isinstance(a, ast.Starred) for a in c.args)]
    R.check(not wide, "C14-R4", "AutoCleaner|removes-by-exact-name", "the auto-cleaner removes the unreachable names by name (%d call(s))" % len(rms), ac.loc(wide[0]) if wide else ac.loc(),
            ("`%s`: removal by prefix or regex also removes every registered name that merely starts like an unreachable one (remove() applies a regex with match())" % unparse(wide[0], 90)) if wide else "")

    # ---------------------------------------------------------------- R12
    cs = sq.methods.get("_create_schema")
    if cs is None:
        raise AnalysisError("SqlStorage._create_schema vanished")
    cols = {}
    for c in walk_no_nested(cs.node):
        if isinstance(c, ast.Call) and isinstance(c.func, ast.Attribute) and c.func.attr == "execute" and c.args:
            okc, text = ctx.const(c.args[0], cs)
            if okc and isinstance(text, str) and "CREATE TABLE" in text.upper():
                body = text[text.index("(") + 1:text.rindex(")")]
                for part in body.split(","):
                    words = part.split()
                    if len(words) >= 2 and words[0].upper() not in ("FOREIGN", "PRIMARY", "UNIQUE", "CHECK", "CONSTRAINT"):
                        cols[words[0].lower()] = (words[1], c)

    def affinity(decl):
        d = decl.upper()
        if "INT" in d:
            return "INTEGER"
        if "CHAR" in d or "CLOB" in d or "TEXT" in d:
            return "TEXT"
        if "BLOB" in d:
            return "BLOB"
        if "REAL" in d or "FLOA" in d or "DOUB" in d:
            return "REAL"
        return "NUMERIC"
    for col in ("name", "uri", "metadata"):
        if col not in cols:
            R.fail("C14-R12", "column|%s" % col, "text column declared", cs.loc(), "column %s not found in the CREATE TABLE statements" % col)
            continue
        decl, call = cols[col]
        R.check(affinity(decl) == "TEXT", "C14-R12", "column|%s" % col, "declared type `%s` has TEXT affinity under SQLite's type-name rules" % decl, cs.loc(call),
                "column %s is declared `%s`, which SQLite gives %s affinity: a name or tag such as '007' or '1e3' is converted to a number when stored, so the sqlite back-end "
                "merges / renames entries the in-memory back-end keeps apart" % (col, decl, affinity(decl)))


def _inside(node, container):
    n = node
    while n is not None:
        if n is container:
            return True
        n = getattr(n, "_parent", None)
    return False
