"""C13 — Every connection is cleaned up exactly once, however it ends."""
import ast
from ..engine.model import AnalysisError, dotted
from ..engine.context import unparse, enclosing_stmt, stores_in, enclosing_loops, enclosing_trys, enclosing_withs
from ..engine.cfg import walk_no_nested, calls_in, facts_of, no_exc, handler_is_catch_all
from ..engine.guards import reached_under, isinstance_atom, flag_test_atom
from .c03 import edge_has_fact

EXPLANATION = (
    "Pairing analysis. Decided: in the thread server every way out of the per-connection request loop (normal, break, "
    "exception) passes the contained disconnect handling and then the close of the connection; in the multiplex server an "
    "inactive connection passes disconnect handling, selector.unregister and close in that order; _clientDisconnect has exactly "
    "two call sites, none in a loop over one connection, and calls the user hook exactly once on every path (its stream loops "
    "iterate snapshots); every failure of handleRequest ends the connection (handlers leave the loop / return falsy and cover "
    "Exception; communication and security errors are re-raised by Daemon.handleRequest); SocketConnection.close drops the "
    "session instances, closes every tracked resource under its own suppression and then clears the set, never propagates a "
    "socket error, and returns early only for keep_open."
    'Also decided: close() really closes the socket; tracked resources are per connection. '
    "Also decided (round 7): Calls on user objects (a stream entry's iterator) before the disconnect hook count as code that may raise; current_context.client is this request's connection before any user code of the request runs (resources are filed under it). "
    'Also decided (round 9): The worker-loop obligations (slot cleared before hand-back, event protocol, handed back only while alive) are shared from C05/C18. '
    "Also decided (round 11): _clientDisconnect removes streams with pop(id, default) (a concurrent removal cannot make it skip the user's hook). "
    'Also decided (round 10): The clean-up loop of SocketConnection.close iterates a snapshot of the tracked resources (a resource may untrack itself while being closed). '
    "Also decided (round 12): Nothing can escape the multiplex loop's request handling (shared from C05-R1): the loop that cleans up every multiplex connection survives the end of one. "
    "Not decided: counts observed at run time, byte offsets."
)

CD = "Pyro5.server.Daemon._clientDisconnect"
CLOSE = "Pyro5.socketutil.SocketConnection.close"


def run(ctx, R, tier):
    p = ctx.p
    es = ctx.escape
    R.rule("C13-R1", "thread server: every way out of the request loop passes the contained _clientDisconnect and then csock.close()", floor=3)
    R.rule("C13-R2", "multiplex server: an inactive connection passes contained _clientDisconnect, selector.unregister and close, in that order", floor=3)
    R.rule("C13-R3", "_clientDisconnect: exactly two call sites, not in a per-connection loop; the user hook runs exactly once on every path; stream loops iterate snapshots", floor=5)
    R.rule("C13-R4", "every failure of handleRequest ends the connection: handlers leave the loop / return falsy and cover Exception; communication and security errors are re-raised", floor=3)
    R.rule("C13-R5", "SocketConnection.close: session instances dropped, every tracked resource closed under its own suppression, set cleared afterwards, socket errors suppressed, early return only for keep_open", floor=5)

    R.rule("C13-R6", "tracked resources are per connection: the set is created fresh in SocketConnection.__init__", floor=1)
    R.rule("C13-R7", "a resource is filed under the connection that is being served: current_context.client is set to this request's connection before any user code of the "
                     "request (constructors of session/percall instances included) can call track_resource (shared with C12-R2)", floor=0)
    # ---------------------------------------------------------------- R7 (shared with C12-R2)
    from ..report import Rules as _Rules
    from ..report import run_shared as _run_shared
    from . import c12 as _c12
    R12 = _Rules("C12")
    try:
        _run_shared(ctx, _c12, R12, tier)
    except AnalysisError as _shared_x:
        # the other property's own anchors are gone on this tree: its check reports that; what it produced before is still shared
        R.note("obligations shared from C12 are incomplete on this tree: %s" % _shared_x)
    shared = [o for o in R12.obs if o.key == "C12-R2|handleRequest|client"]
    if not shared:
        R.note("the C12-R2 instance for the context field `client` was not produced on this tree (C12 reports why); nothing shared")
    for o in shared:
        R.add("C13-R7", "handleRequest|client-set-before-user-code", "current_context.client is this request's connection before _getInstance / dispatch can run user code "
              "(track_resource files a resource under current_context.client: set too late, the resource is closed with another connection or never)", o.ok, o.loc, o.detail)

    # on the multiplex server the clean-up of EVERY connection hangs on the one loop thread: whatever can escape its request handling (also from inside a handler, e.g.
    # getpeername() on a reset connection) ends the loop - no disconnect hook, no close, no selector release for any connection from then on (shared with C05-R1)
    from . import c05 as _c05x
    R5x = _Rules("C05")
    try:
        _run_shared(ctx, _c05x, R5x, tier)
    except AnalysisError as _shared_x:
        R.note("obligations shared from C05 are incomplete on this tree: %s" % _shared_x)
    for o in R5x.obs:
        if o.rule == "C05-R1" and "svr_multiplex.SocketServer_Multiplex.loop" in o.key:
            R.add("C13-R2", "multiplex-loop|" + o.key.split("|", 1)[1][-110:], o.desc + " (the loop that cleans up all multiplex connections survives the end of one)", o.ok, o.loc, o.detail)
    # a connection that was accepted is served (and then cleaned up) at all only if the worker it was handed to is not lost: the worker-loop obligations of C05-R2 / C18-R4
    # (slot cleared before the worker is handed back, the event protocol, handed back only while alive) are part of "every connection is cleaned up"
    from .c05 import worker_loop_rules
    worker_loop_rules(ctx, R, "C13-R1")

    # ---------------------------------------------------------------- R1
    f = ctx.fn("Pyro5.svr_threads.ClientConnectionJob.__call__")
    cfg = ctx.cfg(f)
    xf = ctx.exc_filter(f)
    hr = ctx.calls_to(f, "Pyro5.server.Daemon.handleRequest")
    cd = ctx.calls_to(f, CD)
    cl = ctx.calls_to(f, CLOSE)
    if len(hr) != 1:
        raise AnalysisError("ClientConnectionJob.__call__: the handleRequest call vanished")
    if not cd or not cl:
        R.fail("C13-R1", "__call__|disconnect-on-every-exit", "the job runs the disconnect handling and closes the connection", f.loc(),
               "ClientConnectionJob.__call__ no longer calls %s" % ("daemon._clientDisconnect" if not cd else "csock.close"))
        R.fail("C13-R1", "__call__|close-after-disconnect", "close after disconnect handling", f.loc(), "call missing")
        R.fail("C13-R1", "__call__|disconnect-contained", "disconnect handling contained", f.loc(), "call missing")
    hn = ctx.node_of(f, hr[0])
    if cd and cl:
      cdn = [n for c in cd for n in ctx.node_of(f, c)]
      cln = [n for c in cl for n in ctx.node_of(f, c)]
      ok = cfg.all_paths_pass(hn, lambda n: n in cdn, edge_ok=xf)
      R.check(ok, "C13-R1", "__call__|disconnect-on-every-exit", "every path from the request loop to the end of the job passes daemon._clientDisconnect(csock)", f.loc(hr[0]),
              "a connection can end (e.g. through an exception) without the disconnect handling: the hook is not called and its streams stay bound to it")
      ok = cfg.all_paths_pass(cdn, lambda n: n in cln, edge_ok=xf)
      R.check(ok, "C13-R1", "__call__|close-after-disconnect", "after the disconnect handling every path (also when the hook raises) closes the connection", f.loc(cd[0]),
              "an error in the disconnect handling skips csock.close(): socket, session instances and tracked resources of that connection leak")
      contained = all(any(part == "body" and any(handler_is_catch_all(h) for h in t.handlers) for t, part in enclosing_trys(c, f.node)) for c in cd)
      R.check(contained, "C13-R1", "__call__|disconnect-contained", "the disconnect handling runs under its own catch-all", f.loc(cd[0]),
              "an exception of the user's disconnect hook escapes the cleanup")

    # ---------------------------------------------------------------- R2
    ev = ctx.fn("Pyro5.svr_multiplex.SocketServer_Multiplex.events")
    ecfg = ctx.cfg(ev)
    cd2 = ctx.calls_to(ev, CD)
    unreg = [c for c, _ in ctx.cg.calls_of(ev) if isinstance(c.func, ast.Attribute) and c.func.attr == "unregister" and "selector" in unparse(c.func.value)]
    cl2 = ctx.calls_to(ev, CLOSE)
    hreq = ctx.calls_to(ev, "Pyro5.svr_multiplex.SocketServer_Multiplex.handleRequest")
    if not (cd2 and len(hreq) == 1):
        raise AnalysisError("SocketServer_Multiplex.events: handleRequest / _clientDisconnect anchors vanished")
    hst = enclosing_stmt(hreq[0])
    act = hst.targets[0].id if isinstance(hst, ast.Assign) and isinstance(hst.targets[0], ast.Name) else None
    # the result is either bound to a name that is then tested, or tested directly (`if not self.handleRequest(s):`)

    def inactive(atom, pol):
        if pol is not False:
            return False
        if act is not None and isinstance(atom, ast.Name) and atom.id == act:
            return True
        return atom is hreq[0]
    tests = [n for n in ecfg.nodes if n.kind == "test" and any(edge_has_fact(e, inactive) for e in n.succ)]
    ok = len(tests) == 1
    cd2n = [n for c in cd2 for n in ctx.node_of(ev, c)]
    un = [n for c in unreg for n in ctx.node_of(ev, c)]
    cl2n = [n for c in cl2 for n in ctx.node_of(ev, c)]
    why = "no test of the connection's activity after handleRequest"
    if ok:
        t = tests[0]
        loop_heads = [n for n in ecfg.nodes if n.kind == "for"]
        tg = [ecfg.exit, ecfg.raise_exit] + loop_heads
        first = lambda e: (e.src is not t) or edge_has_fact(e, inactive)
        ok = ecfg.all_paths_pass([t], lambda n: n in cd2n, edge_ok=first, targets=tg)
        why = "an inactive connection can skip the disconnect handling"
    R.check(ok, "C13-R2", "events|inactive->disconnect", "the inactive edge always runs daemon._clientDisconnect(s)", ev.loc(cd2[0]), why)
    loop_heads = [n for n in ecfg.nodes if n.kind == "for"]
    tg = [ecfg.exit, ecfg.raise_exit] + loop_heads
    ok = ecfg.all_paths_pass(cd2n, lambda n: n in un, edge_ok=ctx.exc_filter(ev), targets=tg) and \
        ecfg.all_paths_pass(un, lambda n: n in cl2n, edge_ok=ctx.exc_filter(ev), targets=tg)
    ok = ok and bool(un) and bool(cl2n)
    R.check(ok, "C13-R2", "events|disconnect->unregister->close", "after the disconnect handling (also if the hook raises) the connection is unregistered and closed", ev.loc(cd2[0]),
            "an inactive connection can stay registered with the selector or stay open")
    contained = all(any(part == "body" and any(handler_is_catch_all(h) for h in t.handlers) for t, part in enclosing_trys(c, ev.node)) for c in cd2)
    R.check(contained, "C13-R2", "events|disconnect-contained", "the disconnect handling runs under its own catch-all", ev.loc(cd2[0]),
            "an exception of the user's disconnect hook would skip unregister/close and leave the event loop")

    # ---------------------------------------------------------------- R3
    sites = ctx.cg.callers_of(CD)
    if tier == "thorough":
        seen = {id(c) for _, c in sites}
        sites += [(g, c) for g, c in ctx.cg.callers_by_name("_clientDisconnect") if id(c) not in seen]
    R.check(len(sites) == 2, "C13-R3", "_clientDisconnect|two-call-sites", "exactly the two per-server call sites", "Pyro5/server.py",
            "%d call sites: %s" % (len(sites), [g.loc(c) for g, c in sites]))
    for g, c in sites:
        loops = [l for l in enclosing_loops(c, g.node) if isinstance(l, ast.While)]
        R.check(not loops, "C13-R3", "_clientDisconnect-site|%s" % g.qualname, "not inside a loop that serves one connection repeatedly", g.loc(c),
                "the disconnect handling sits inside the per-connection request loop: the hook would run once per request")
    d = ctx.fn(CD)
    dcfg = ctx.cfg(d)
    hooks = ctx.calls_to(d, "Pyro5.server.Daemon.clientDisconnect")
    ok = len(hooks) == 1 and not enclosing_loops(hooks[0], d.node)
    why = "%d hook call sites / hook inside a loop" % len(hooks)
    if ok:
        hn2 = ctx.node_of(d, hooks[0])
        ok = dcfg.all_paths_pass([dcfg.entry], lambda n: n in hn2, edge_ok=ctx.exc_filter(d), targets=[dcfg.exit, dcfg.raise_exit]) and \
            not dcfg.path_exists(hn2, lambda n: n in hn2, edge_ok=no_exc)
        why = "a path through _clientDisconnect does not call the user's clientDisconnect hook (or calls it more than once)"
        if ok and not (hooks[0].args and unparse(hooks[0].args[0]) == d.params[1]):
            ok = False
            why = "the hook is not given the connection that ended"
    R.check(ok, "C13-R3", "_clientDisconnect|hook-exactly-once", "the user hook is called exactly once, with the connection, on every path", d.loc(), why)
    # the stream table is shared with every other connection's threads and the housekeeper: between the look-up of an entry and its removal somebody else may have
    # removed it. The removal in _clientDisconnect therefore cannot raise (pop with a default) - a KeyError here leaves the function before the user's hook is called
    raising_removal = [st for st, t, k in stores_in(d.node) if k == "del" and isinstance(t, ast.Subscript) and "streaming_responses" in unparse(t.value)] + \
        [c for c in walk_no_nested(d.node) if isinstance(c, ast.Call) and isinstance(c.func, ast.Attribute) and c.func.attr == "pop" and "streaming_responses" in unparse(c.func.value)
         and len(c.args) + len(c.keywords) < 2]
    R.check(not raising_removal, "C13-R3", "_clientDisconnect|stream-removal-cannot-raise", "streams of the ended connection are removed with pop(id, default)", d.loc(raising_removal[0]) if raising_removal else d.loc(),
            "`%s` raises KeyError when another thread (close_stream over the helper connection, the housekeeper) removed the stream after it was looked up: _clientDisconnect "
            "ends there and the disconnect hook is not called for this connection" % (unparse(raising_removal[0], 60) if raising_removal else ""))
    for fn in (d, ctx.fn("Pyro5.server.Daemon._housekeeping")):
        def edits_table(lp_):
            return any(isinstance(x, (ast.Delete, ast.Assign)) and any(isinstance(t, ast.Subscript) and "streaming_responses" in unparse(t.value)
                                                                      for t in (x.targets if hasattr(x, "targets") else [])) for x in ast.walk(lp_)) or \
                any(isinstance(x, ast.Call) and isinstance(x.func, ast.Attribute) and x.func.attr in ("pop", "popitem", "clear", "update", "setdefault") and "streaming_responses" in unparse(x.func.value)
                    for x in ast.walk(lp_))
        # a local that merely names the table (`streams = self.streaming_responses`) is the table
        aliases = {t.id for st_, t, k_ in stores_in(fn.node) if k_ == "assign" and isinstance(t, ast.Name) and isinstance(getattr(st_, "value", None), ast.Attribute)
                   and st_.value.attr == "streaming_responses"}

        def over_table(it_):
            return "streaming_responses" in unparse(it_) or any(isinstance(x, ast.Name) and x.id in aliases for x in ast.walk(it_))

        def edits_alias(lp_):
            return any(isinstance(x, (ast.Delete, ast.Assign)) and any(isinstance(t, ast.Subscript) and isinstance(t.value, ast.Name) and t.value.id in aliases
                                                                      for t in (x.targets if hasattr(x, "targets") else [])) for x in ast.walk(lp_)) or \
                any(isinstance(x, ast.Call) and isinstance(x.func, ast.Attribute) and x.func.attr in ("pop", "popitem", "clear", "update", "setdefault") and isinstance(x.func.value, ast.Name)
                    and x.func.value.id in aliases for x in ast.walk(lp_))
        loops = [n for n in walk_no_nested(fn.node) if isinstance(n, ast.For) and (over_table(n.iter) or edits_table(n) or edits_alias(n))]
        if not loops:
            raise AnalysisError("%s: loops over streaming_responses vanished" % fn.qualname)
        for i, lp in enumerate(loops):
            it = lp.iter
            if isinstance(it, ast.Name):
                # a local that holds the snapshot
                vals = [st.value for st, t, k in stores_in(fn.node) if k == "assign" and isinstance(t, ast.Name) and t.id == it.id]
                it = vals[0] if len(vals) == 1 else it
            snap = isinstance(it, ast.Call) and isinstance(it.func, ast.Name) and it.func.id in ("list", "tuple", "sorted")
            mutates = any(isinstance(x, (ast.Delete, ast.Assign)) and any(isinstance(t, ast.Subscript) and "streaming_responses" in unparse(t.value)
                                                                         for t in (x.targets if hasattr(x, "targets") else []))
                          for x in ast.walk(lp)) or \
                any(isinstance(x, ast.Call) and isinstance(x.func, ast.Attribute) and x.func.attr in ("pop", "popitem", "clear", "update", "setdefault") and "streaming_responses" in unparse(x.func.value)
                    for x in ast.walk(lp))
            mutates = mutates or edits_alias(lp)
            R.check(snap or not mutates, "C13-R3", "%s|stream-loop#%d-snapshot" % (fn.name, i), "the loop that edits the stream table iterates a snapshot of it", fn.loc(lp),
                    "`for ... in %s` deletes/rewrites entries of the dict it is iterating: the first edit raises RuntimeError, the rest of the function "
                    "(for _clientDisconnect: the user's disconnect hook) is skipped" % unparse(it))

    # the handlers that contain a failing hook / a failing request must not fail themselves: what they do besides logging is nothing, and what they log is computed
    # without indexing or %-formatting a value of unknown shape (peer addresses are tuples, '' or None; exception args may be empty)
    def fragile(stmt):
        for x in walk_no_nested(stmt):
            if isinstance(x, ast.Subscript) and not isinstance(x.value, (ast.Constant, ast.Tuple, ast.List, ast.Dict)):
                return x
            if isinstance(x, ast.BinOp) and isinstance(x.op, ast.Mod) and isinstance(x.left, ast.Constant) and isinstance(x.left.value, str) \
                    and x.left.value.count("%") - 2 * x.left.value.count("%%") >= 2 and not isinstance(x.right, (ast.Tuple, ast.Dict)):
                return x
        return None
    for fq, what in (("Pyro5.svr_threads.ClientConnectionJob.__call__", CD), ("Pyro5.svr_multiplex.SocketServer_Multiplex.events", CD),
                     ("Pyro5.svr_multiplex.SocketServer_Multiplex.handleRequest", "Pyro5.server.Daemon.handleRequest")):
        g = ctx.fn(fq)
        calls_ = ctx.calls_to(g, what)
        bad = None
        n_h = 0
        for c_ in calls_:
            for t, part in enclosing_trys(c_, g.node):
                if part != "body":
                    continue
                for h in t.handlers:
                    n_h += 1
                    for st in h.body:
                        fr = fragile(st)
                        if fr is not None and not any(p2 == "body" and any(handler_is_catch_all(h2) or any(nm in unparse(h2.type) for nm in ("TypeError", "IndexError", "LookupError", "KeyError")) for h2 in t2.handlers)
                                                      for t2, p2 in enclosing_trys(fr, g.node) if t2 is not t and any(x is t2 for x in ast.walk(h))):
                            bad = fr
        R.check(bad is None and n_h >= 1, "C13-R4", "%s|handlers-cannot-fail" % g.qualname.split(".", 2)[2], "the handlers around %s log without indexing or tuple-%%-formatting values of unknown shape (%d handlers)" % (
            what.rsplit(".", 1)[1], n_h), g.loc(bad) if bad is not None else g.loc(),
            "`%s` inside the handler can itself raise (empty exception args, '' as peer address of a unix socket): the new error leaves the handler, the clean-up that follows it "
            "(hook / close / unregister) is skipped, and in the multiplex server the request loop ends" % (unparse(bad, 60) if bad is not None else ""))

    # ---------------------------------------------------------------- R4
    trys = [t for t, part in enclosing_trys(hr[0], f.node) if part == "body"]
    T = trys[0] if trys else None
    ok = T is not None and any(handler_is_catch_all(h) for h in T.handlers)
    why = "handleRequest is not under a try with a catch-all in the thread server's request loop"
    if ok:
        for h in T.handlers:
            last = h.body[-1] if h.body else None
            if not isinstance(last, (ast.Break, ast.Return, ast.Raise)):
                ok = False
                why = "the handler at %s does not leave the request loop: a broken connection keeps being served" % f.loc(h)
    R.check(ok, "C13-R4", "__call__|every-failure-leaves-loop", "every handler around handleRequest leaves the request loop; together they cover Exception", f.loc(T) if T else f.loc(), why)
    mh = ctx.fn("Pyro5.svr_multiplex.SocketServer_Multiplex.handleRequest")
    mcfg = ctx.cfg(mh)
    mtr = [n for n in walk_no_nested(mh.node) if isinstance(n, ast.Try)]
    ok = len(mtr) >= 1 and any(handler_is_catch_all(h) for h in mtr[0].handlers)
    why = "no catch-all around daemon.handleRequest in the multiplex wrapper"
    if ok:
        for h in mtr[0].handlers:
            rets = [n for st in h.body for n in walk_no_nested(st) if isinstance(n, ast.Return)]
            if not rets or any(not (r.value is None or (isinstance(r.value, ast.Constant) and not r.value.value)) for r in rets) or \
                    not isinstance(h.body[-1], ast.Return):
                ok = False
                why = "the handler at %s does not report the connection as inactive" % mh.loc(h)
        body_rets = [n for st in mtr[0].body for n in walk_no_nested(st) if isinstance(n, ast.Return)]
        if not (body_rets and all(isinstance(r.value, ast.Constant) and r.value.value is True for r in body_rets)):
            ok = False
            why = "the success path does not return True"
    R.check(ok, "C13-R4", "multiplex.handleRequest|failure-means-inactive", "every failure makes the wrapper return falsy, success returns True", mh.loc(), why)
    # re-raise table of Daemon.handleRequest
    h = ctx.fn("Pyro5.server.Daemon.handleRequest")
    cats = [t for t in walk_no_nested(h.node) if isinstance(t, ast.Try) and any(handler_is_catch_all(x) for x in t.handlers)]
    cats = [t for t in cats if getattr(t, "_parent", None) is h.node]
    if not cats:
        raise AnalysisError("Daemon.handleRequest: catch-all try vanished")
    H = [x for x in cats[-1].handlers if handler_is_catch_all(x)][0]
    xv = H.name
    from ..engine.context import locals_assigned
    cbvars = set(locals_assigned(h, lambda v: isinstance(v, ast.Call) and isinstance(v.func, ast.Name) and v.func.id == "getattr" and len(v.args) >= 2
                                 and isinstance(v.args[1], ast.Constant) and v.args[1].value == "_pyroCallback"))
    raises = [n for st in H.body for n in walk_no_nested(st) if isinstance(n, ast.Raise) and n.exc is None]
    cases = ["Pyro5.errors.ConnectionClosedError", "Pyro5.errors.TimeoutError", "Pyro5.errors.ProtocolError", "Pyro5.errors.SerializeError",
             "Pyro5.errors.CommunicationError", "Pyro5.errors.SecurityError", "Pyro5.errors.DaemonError", "Pyro5.errors.PyroError",
             "builtins.ValueError", "builtins.Exception"]
    mism, unknown = [], []
    for cls in cases:
        for cb in (False, True):
            def atom(test, cls=cls, cb=cb):
                ia = isinstance_atom(test)
                if ia and ia[0] == xv:
                    cs = [es.class_of_expr(e, h) for e in ia[1]]
                    if any(x is None for x in cs):
                        return None
                    return any(es.is_sub(cls, x) for x in cs)
                if isinstance(test, ast.Name) and test.id in cbvars:
                    return cb
                fa = flag_test_atom(test)
                if fa is not None:
                    return False      # not oneway: irrelevant for the re-raise decision, evaluated for one value
                return None
            got_l = [reached_under(r, H, atom) for r in raises]
            if any(v is None for v in got_l) or not raises:
                unknown.append(cls)
                continue
            got = any(got_l)
            want = cb or es.is_sub(cls, "Pyro5.errors.CommunicationError") or es.is_sub(cls, "Pyro5.errors.SecurityError")
            if got != want:
                mism.append("%s callback=%s: %s, documented %s" % (cls.split(".")[-1], cb, "re-raised" if got else "swallowed", "re-raised" if want else "swallowed"))
    R.check(not mism and not unknown, "C13-R4", "Daemon.handleRequest|reraise-table", "communication/security errors (and callback errors) are re-raised, so the server ends that connection",
            h.loc(H), "; ".join(mism[:5]) or "re-raise depends on a test the rule cannot evaluate (%s)" % unknown[:3])

    # ---------------------------------------------------------------- R5
    c = ctx.fn(CLOSE)
    ccfg = ctx.cfg(c)
    resets = [st for st, t, k in stores_in(c.node) if unparse(t) == "self.pyroInstances" and isinstance(st.value, (ast.Dict, ast.Call))]
    R.check(bool(resets), "C13-R5", "close|drops-session-instances", "pyroInstances is reset", c.loc(), "SocketConnection.close keeps the session instances alive")
    loops = [n for n in walk_no_nested(c.node) if isinstance(n, ast.For) and "tracked_resources" in unparse(n.iter)]
    ok = len(loops) == 1
    why = "the loop over tracked_resources vanished"
    if ok:
        lp = loops[0]
        rclose = [x for x in ast.walk(lp) if isinstance(x, ast.Call) and isinstance(x.func, ast.Attribute) and x.func.attr == "close"
                  and isinstance(x.func.value, ast.Name) and isinstance(lp.target, ast.Name) and x.func.value.id == lp.target.id]
        ok = len(rclose) == 1
        why = "resource.close() call vanished"
        if ok:
            sup_inside = [w for w in enclosing_withs(rclose[0]) if _inside(w, lp) and
                          any(isinstance(it.context_expr, ast.Call) and dotted(it.context_expr.func) == "contextlib.suppress" and
                              any(dotted(a) in ("Exception", "BaseException") for a in it.context_expr.args) for it in w.items)]
            try_inside = [t for t, part in enclosing_trys(rclose[0], c.node) if part == "body" and _inside(t, lp) and any(handler_is_catch_all(hh) for hh in t.handlers)]
            ok = bool(sup_inside) or bool(try_inside)
            why = "the suppression of close() errors is not per resource: the first resource whose close() raises ends the loop and the remaining ones are never closed"
    R.check(ok, "C13-R5", "close|per-resource-suppression", "each tracked resource is closed under its own suppression", c.loc(), why)
    # the loop runs user code (resource.close()) that may untrack the resource - i.e. edit the very set that is iterated: it iterates a snapshot of the set
    # (an exception from the iteration itself is outside every suppression: the rest of the resources would stay open, and on the multiplex server the
    # exception leaves the event loop)
    if loops:
        it_ = loops[0].iter
        snap = isinstance(it_, ast.Call) and isinstance(it_.func, ast.Name) and it_.func.id in ("list", "tuple", "sorted", "frozenset", "set")
        R.check(snap, "C13-R5", "close|iterates-a-snapshot", "the clean-up loop iterates a snapshot of tracked_resources", c.loc(loops[0]),
                "`for ... in %s` iterates the live set while resource.close() runs: a resource that untracks itself in close() makes the iteration raise RuntimeError - "
                "the remaining resources are never closed and, on the multiplex server, the daemon's loop ends" % unparse(it_))
    clears = [n for cc, _ in ctx.cg.calls_of(c) if unparse(cc.func) == "self.tracked_resources.clear" for n in ctx.node_of(c, cc)]
    ok = bool(clears) and bool(loops)
    if ok:
        ln = [n for n in ccfg.nodes if n.kind == "for" and n.ast is loops[0]]
        ok = all(any(ccfg.dominates(l, x) for l in ln) for x in clears) and ccfg.all_paths_pass(ln, lambda n: n in clears, edge_ok=ctx.exc_filter(c), targets=[ccfg.exit])
    R.check(ok, "C13-R5", "close|clear-after-loop", "the set is cleared after the loop (a second close finds nothing to close again)", c.loc(),
            "tracked resources are not forgotten after closing (closed twice on a second close) or are forgotten before they are closed")
    sock_close = [cc for cc, _ in ctx.cg.calls_of(c) if unparse(cc.func) in ("self.sock.close", "self.sock.shutdown")]
    ok = bool(sock_close) and all(any(any(isinstance(it.context_expr, ast.Call) and dotted(it.context_expr.func) == "contextlib.suppress" for it in w.items)
                                      for w in enclosing_withs(cc)) or
                                  any(part == "body" for t, part in enclosing_trys(cc, c.node)) for cc in sock_close)
    R.check(ok, "C13-R5", "close|socket-errors-suppressed", "errors of the socket shutdown/close are suppressed so the remaining cleanup always runs", c.loc(),
            "a socket error in close() would skip dropping the instances and closing the tracked resources")
    rets = [n for n in ccfg.nodes if n.kind == "stmt" and isinstance(n.ast, ast.Return)]

    def keep_open(atom, pol):
        return pol is True and unparse(atom) == "self.keep_open"
    ok = all(ccfg.guarded(n, lambda e: edge_has_fact(e, keep_open)) for n in rets)
    R.check(ok, "C13-R5", "close|early-return-only-keep_open", "close() returns early only for keep_open connections", c.loc(),
            "close() can return before the cleanup for a reason other than keep_open")
    scl = [n for cc, _ in ctx.cg.calls_of(c) if unparse(cc.func) == "self.sock.close" for n in ctx.node_of(c, cc)]
    ok = bool(scl) and ccfg.all_paths_cross([ccfg.entry], lambda e: (e.src in scl) or edge_has_fact(e, keep_open), targets=[ccfg.exit])
    R.check(ok, "C13-R5", "close|socket-really-closed", "unless the connection is keep_open, every path through close() calls self.sock.close()", c.loc(),
            "close() can finish without closing the socket (only shutdown, or nothing): the peer is never disconnected and the descriptor leaks")
    tr = ctx.fn("Pyro5.callcontext._CallContext.track_resource")
    adds = [cc for cc, _ in ctx.cg.calls_of(tr) if unparse(cc.func) == "self.client.tracked_resources.add"]
    R.check(bool(adds), "C13-R5", "track_resource|tracks-on-connection", "resources are tracked on the calling connection's set", tr.loc(),
            "track_resource no longer adds to the connection's tracked_resources")

    # ---------------------------------------------------------------- R6
    from .common import fresh_per_instance
    fresh_per_instance(ctx, R, "C13-R6", "Pyro5.socketutil.SocketConnection", "tracked_resources", "closing one connection would close the resources tracked for all others")


def _inside(node, container):
    n = node
    while n is not None:
        if n is container:
            return True
        n = getattr(n, "_parent", None)
    return False
