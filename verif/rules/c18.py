"""C18 — Thread pool: each connection served once or refused; workers stay bounded."""
import ast
from ..engine.model import AnalysisError, dotted
from ..engine.context import unparse, enclosing_stmt, stores_in, in_lock_region, enclosing_withs, enclosing_loops, enclosing_trys
from ..engine.cfg import stmt_exprs, walk_no_nested, calls_in, facts_of, no_exc
from .c03 import edge_has_fact

EXPLANATION = (
    "Guarded-by analysis of Pool.count_lock plus the hand-off structure. Decided: in Pool.process and Pool.notify_done every "
    "access to the shared sets idle/busy and the closed flag (also through num_workers) lies inside one `with self.count_lock` "
    "region; in Pool.close every access to the sets lies inside some region; the lock exists before the first worker starts; "
    "no join/sleep/wait/job execution happens while the lock is held; process hands the job to exactly one worker on every "
    "non-raising path, inside the lock region that picked the worker, creates a worker only under the THREADPOOL_SIZE bound and otherwise raises NoFreeWorkersError, which the "
    "accept path answers with denyConnection (refusal handshake with a reason, socket closed on every path); the worker loop "
    "clears its slot before returning to the pool and ends on a None job; close hands None to every worker and empties both "
    "sets."
    "Also decided: the pool's set discipline (idle first, chosen worker counted busy, new worker started, finished worker leaves busy and is idle-or-retired under the minimum test), the worker waits for and clears its event each round, nothing fallible runs in denyConnection outside its try/finally and nothing escapes it, the refusal is encodable and its header names its encoding. "
    'Also decided (round 7): A worker is handed back to the pool only by a thread that stays alive; the event is cleared before the slot is read and not again before the next wait. '
    'Also decided (round 9): In _handshake the refusal (denied_reason) is decided before the payload is decoded and before the validator runs. '
    'Also decided (round 10): A newly created worker enters a pool set only after its thread was started; the communication timeout is on the socket when accept() hands it over, so the refusal path runs under it (shared from C05). '
    "Not decided: races inside the interpreter's set operations, liveness of close, timing."
)

LOCK = "self.count_lock"
GUARDED = {"self.idle", "self.busy", "self.closed"}
SETS = {"self.idle", "self.busy"}


def field_accesses(f, fields, via_calls=()):
    out = []
    for n in walk_no_nested(f.node):
        if isinstance(n, ast.Attribute) and unparse(n) in fields:
            out.append(n)
        elif isinstance(n, ast.Call) and isinstance(n.func, ast.Attribute) and isinstance(n.func.value, ast.Name) and n.func.value.id == "self" \
                and n.func.attr in via_calls:
            out.append(n)
    return out


def run(ctx, R, tier):
    p = ctx.p
    R.rule("C18-R1", "shared sets are guarded: one count_lock region per atomic operation (process, notify_done); every set access of close under the lock; lock created before the first worker starts", floor=4)
    R.rule("C18-R2", "no blocking (join, sleep, Event.wait, job execution) while count_lock is held", floor=1)
    R.rule("C18-R3", "served once or refused: one worker.process(job) on every non-raising path of Pool.process; a new worker only under the bound; refusal reaches denyConnection, which always closes", floor=6)
    R.rule("C18-R4", "worker loop: slot cleared before notify_done; a None job ends the thread; close hands None to every worker and empties both sets", floor=5)

    R.rule("C18-R5", "the worker sets are per pool: created fresh in Pool.__init__", floor=2)
    pool = p.cls("Pyro5.svr_threads.Pool")
    proc = ctx.fn("Pyro5.svr_threads.Pool.process")
    nd = ctx.fn("Pyro5.svr_threads.Pool.notify_done")
    close = ctx.fn("Pyro5.svr_threads.Pool.close")
    init = ctx.fn("Pyro5.svr_threads.Pool.__init__")
    nw = ctx.fn("Pyro5.svr_threads.Pool.num_workers")
    reads_sets = {m for m, fi in pool.methods.items() if m not in ("__init__",) and field_accesses(fi, SETS)}

    # ---------------------------------------------------------------- R1
    for f in (proc, nd):
        acc = field_accesses(f, GUARDED, via_calls={"num_workers"})
        if len(acc) < 3:
            raise AnalysisError("%s: fewer accesses to idle/busy/closed than expected" % f.qualname)
        regions = set()
        outside = []
        for a in acc:
            w = in_lock_region(a, LOCK)
            if w is None:
                outside.append(a)
            else:
                regions.add(id(w))
        ok = not outside and len(regions) == 1
        why = ""
        if outside:
            why = "`%s` at %s is outside `with self.count_lock`: the accept thread and a finishing worker can interleave here, so a worker that is " \
                  "between the busy and idle sets is not counted and the pool can exceed THREADPOOL_SIZE" % (unparse(getattr(outside[0], "_parent", outside[0]), 50), f.loc(outside[0]))
        elif len(regions) > 1:
            why = "the accesses are split over %d lock regions: the lock is released in the middle of the operation" % len(regions)
        R.check(ok, "C18-R1", "Pool.%s|one-region" % f.name, "all %d accesses to idle/busy/closed lie in one count_lock region" % len(acc), f.loc(), why)
    acc = field_accesses(close, SETS, via_calls={"num_workers"})
    if len(acc) < 4:
        raise AnalysisError("Pool.close: fewer accesses to idle/busy than expected")
    outside = [a for a in acc if in_lock_region(a, LOCK) is None]
    R.check(not outside, "C18-R1", "Pool.close|sets-under-lock", "every access of close() to idle/busy lies in a count_lock region", close.loc(),
            "`%s` at %s reads or swaps a shared set without the lock" % (unparse(getattr(outside[0], "_parent", outside[0]), 50) if outside else "", close.loc(outside[0]) if outside else ""))
    icfg = ctx.cfg(init)
    made = [st for st, t, k in stores_in(init.node) if unparse(t) == LOCK and isinstance(st.value, ast.Call) and dotted(st.value.func) in ("threading.Lock", "threading.RLock")]
    starts = [c for c, _ in ctx.cg.calls_of(init) if isinstance(c.func, ast.Attribute) and c.func.attr == "start"]
    ok = len(made) == 1 and bool(starts)
    if ok:
        mn = icfg.nodes_for(made[0])
        ok = all(any(icfg.dominates(m, n) for m in mn) for c in starts for n in ctx.node_of(init, c))
    R.check(ok, "C18-R1", "Pool.__init__|lock-before-workers", "count_lock is created before the first worker thread is started", init.loc(),
            "a worker started in __init__ could call notify_done before self.count_lock exists")
    # other methods touching the sets: diagnostics only
    diag = reads_sets - {"process", "notify_done", "close", "num_workers", "__repr__"}
    R.check(not diag, "C18-R1", "Pool|set-accessors", "only process/notify_done/close/num_workers/__repr__ touch the shared sets", pool.module.relpath,
            "new method(s) touching idle/busy: %s" % sorted(diag))

    # ---------------------------------------------------------------- R2
    bad = []
    n_regions = 0
    for fi in pool.methods.values():
        for n in walk_no_nested(fi.node):
            if isinstance(n, ast.With) and any(dotted(it.context_expr) == LOCK for it in n.items):
                n_regions += 1
                for st in n.body:
                    for c in walk_no_nested(st):
                        if isinstance(c, ast.Call):
                            d = dotted(c.func) or ""
                            if d == "time.sleep" or (isinstance(c.func, ast.Attribute) and c.func.attr in ("join", "wait", "sleep", "acquire")) \
                                    or (isinstance(c.func, ast.Name) and c.func.id == "job"):
                                bad.append((fi, c))
    if n_regions < 3:
        R.note("fewer than 3 count_lock regions in Pool (%d)" % n_regions)
    R.check(not bad and n_regions >= 1, "C18-R2", "Pool|no-blocking-under-lock", "no join/sleep/wait/job call inside the %d count_lock region(s)" % n_regions,
            pool.module.relpath, ("`%s` at %s blocks while count_lock is held: workers need that lock to finish (deadlock)" % (unparse(bad[0][1]), bad[0][0].loc(bad[0][1])))
            if bad else "count_lock is never acquired")

    # ---------------------------------------------------------------- R3
    cfg = ctx.cfg(proc)
    hand = ctx.calls_to(proc, "Pyro5.svr_threads.Worker.process")
    ok = len(hand) == 1 and not enclosing_loops(hand[0], proc.node)
    why = "%d hand-off sites" % len(hand)
    if ok:
        hn = ctx.node_of(proc, hand[0])
        ok = cfg.all_paths_pass([cfg.entry], lambda n: n in hn, edge_ok=no_exc, targets=[cfg.exit])
        why = "Pool.process can return normally without handing the job to a worker: the connection is dropped silently"
        if ok and not (hand[0].args and unparse(hand[0].args[0]) == proc.params[1]):
            ok = False
            why = "the worker is not given the submitted job"
    R.check(ok, "C18-R3", "Pool.process|exactly-one-handoff", "exactly one worker.process(job) on every non-raising path", proc.loc(), why)
    adds = [n for n in walk_no_nested(proc.node) if isinstance(n, ast.Call) and unparse(n.func) == "self.busy.add"]
    same = bool(hand) and bool(adds) and in_lock_region(hand[0], LOCK) is not None and in_lock_region(hand[0], LOCK) is in_lock_region(adds[0], LOCK)
    R.check(same, "C18-R3", "Pool.process|handoff-in-selection-region", "the job is handed to the chosen worker inside the lock region that chose it", proc.loc(hand[0]) if hand else proc.loc(),
            "the worker is picked under count_lock but the job is handed over after the lock was released: a close() in between tells that worker to stop, and the accepted "
            "connection is neither served nor refused (or a job starts after the pool was closed)")
    es = ctx.escape
    raises = [n for n in cfg.nodes if n.kind == "stmt" and isinstance(n.ast, ast.Raise)]
    classes = set()
    for r in raises:
        e = r.ast.exc
        classes.add(es.class_of_expr(e.func if isinstance(e, ast.Call) else e, proc) if e is not None else None)
    R.check(classes == {"Pyro5.svr_threads.PoolError", "Pyro5.svr_threads.NoFreeWorkersError"}, "C18-R3", "Pool.process|raises",
            "process raises only PoolError (closed) and NoFreeWorkersError (full)", proc.loc(), "raises: %s" % sorted(map(str, classes)))

    def bound_true(atom, pol):
        if pol is True and isinstance(atom, ast.Compare) and len(atom.ops) == 1 and isinstance(atom.ops[0], ast.Lt):
            return isinstance(atom.left, ast.Call) and ctx.is_call_to(atom.left, proc, nw.qualname) and \
                ctx.resolves_to_object(atom.comparators[0], proc, "Pyro5.config.THREADPOOL_SIZE") or unparse(atom.comparators[0]) == "config.THREADPOOL_SIZE" \
                and isinstance(atom.left, ast.Call) and ctx.is_call_to(atom.left, proc, nw.qualname)
        return False
    creates = ctx.calls_to(proc, "Pyro5.svr_threads.Worker.__init__")
    ok = len(creates) == 1 and all(cfg.guarded(n, lambda e: edge_has_fact(e, bound_true)) for n in ctx.node_of(proc, creates[0]))
    R.check(ok, "C18-R3", "Pool.process|new-worker-under-bound", "a new worker is created only on the true edge of num_workers() < config.THREADPOOL_SIZE", proc.loc(),
            "workers can be created beyond THREADPOOL_SIZE")
    # set discipline of process(): the chosen worker leaves idle (pop), is counted busy on every non-raising path, and a newly made worker is started
    addn = [n for c in adds for n in ctx.node_of(proc, c)]
    ok = bool(addn) and cfg.all_paths_pass([cfg.entry], lambda n: n in addn, edge_ok=no_exc, targets=[cfg.exit]) and all(a.args and isinstance(a.args[0], ast.Name) for a in adds)
    wvar = adds[0].args[0].id if adds and adds[0].args and isinstance(adds[0].args[0], ast.Name) else None
    R.check(ok, "C18-R3", "Pool.process|chosen-worker-counted-busy", "every non-raising path adds the chosen worker to busy", proc.loc(adds[0]) if adds else proc.loc(),
            "a worker can be given a job without being counted busy: num_workers() under-counts and the pool grows beyond THREADPOOL_SIZE")
    from_idle = [st for st, t, k in stores_in(proc.node) if k == "assign" and isinstance(t, ast.Name) and t.id == wvar and isinstance(st.value, ast.Call)]
    ok = any(unparse(st.value.func) == "self.idle.pop" for st in from_idle) and \
        all(unparse(st.value.func) == "self.idle.pop" or ctx.is_call_to(st.value, proc, "Pyro5.svr_threads.Worker.__init__") for st in from_idle)
    R.check(ok, "C18-R3", "Pool.process|idle-worker-removed-from-idle", "an idle worker is taken out of the idle set when it is chosen (pop)", proc.loc(),
            "the chosen idle worker stays in the idle set: the next connection is handed to the same, still busy, worker and its job slot is overwritten")
    starts = [n for c in walk_no_nested(proc.node) if isinstance(c, ast.Call) and isinstance(c.func, ast.Attribute) and c.func.attr == "start" and unparse(c.func.value) == wvar
              for n in ctx.node_of(proc, c)]
    cn = [n for c in creates for n in ctx.node_of(proc, c)]
    ok = bool(starts) and bool(cn) and cfg.all_paths_pass(cn, lambda n: n in starts, edge_ok=no_exc, targets=hn if hand else [cfg.exit])
    R.check(ok, "C18-R3", "Pool.process|new-worker-started", "a newly created worker thread is started before it is given the job", proc.loc(),
            "a new worker gets the job without having been started: the connection is accepted and never served")
    # ... and it is counted only once it runs: Thread.start() can fail (the process is out of threads or memory - exactly when the pool is under load); a worker that was put
    # into busy/idle before that stays there as a thread that never runs: the slot is gone for good and every later connection is refused although nobody is served
    counted = [n for c in walk_no_nested(proc.node) if isinstance(c, ast.Call) and isinstance(c.func, ast.Attribute) and c.func.attr in ("add", "append")
               and unparse(c.func.value) in ("self.busy", "self.idle") and c.args and unparse(c.args[0]) == wvar for n in ctx.node_of(proc, c)]
    early = bool(cn) and bool(starts) and cfg.path_exists(cn, lambda n: n in counted, node_blocked=lambda n: n in starts)
    R.check(not early, "C18-R3", "Pool.process|new-worker-counted-only-once-started", "a newly created worker enters the busy set only after its thread was started", proc.loc(),
            "a new worker is put into a pool set before start(): when the thread cannot be started the exception leaves a worker behind that never runs - it occupies a slot "
            "of THREADPOOL_SIZE for ever (connections refused with no one being served), and close() joins a thread that was never started")
    def idle_nonempty(want):
        def pred(atom, pol):
            return pol is want and unparse(atom) == "self.idle"
        return pred
    popn = [n for st in from_idle if unparse(st.value.func) == "self.idle.pop" for n in cfg.nodes_for(st)]
    refuse = [n for n in raises if es.class_of_expr(n.ast.exc.func if isinstance(n.ast.exc, ast.Call) else n.ast.exc, proc) == "Pyro5.svr_threads.NoFreeWorkersError"]
    ok = bool(popn) and all(cfg.guarded(n, lambda e: edge_has_fact(e, idle_nonempty(True))) for n in popn) and \
        all(cfg.guarded(n, lambda e: edge_has_fact(e, idle_nonempty(False))) for n in cn + refuse)
    R.check(ok, "C18-R3", "Pool.process|idle-first", "an idle worker is reused whenever there is one; a new worker or a refusal only when the idle set is empty", proc.loc(),
            "the idle set is not consulted first: connections are refused (or threads created) although idle workers exist, or pop() runs on an empty set")
    # set discipline of notify_done(): out of busy; then either back to idle (below the minimum, pool open) or retired with a None job
    ndf = ctx.fn("Pyro5.svr_threads.Pool.notify_done")
    ncfg = ctx.cfg(ndf)
    wp = ndf.params[1]
    rem = [n for c in walk_no_nested(ndf.node) if isinstance(c, ast.Call) and unparse(c.func) in ("self.busy.remove", "self.busy.discard") and c.args and unparse(c.args[0]) == wp
           for n in ctx.node_of(ndf, c)]

    def not_busy(atom, pol):
        return pol is False and isinstance(atom, ast.Compare) and len(atom.ops) == 1 and isinstance(atom.ops[0], ast.In) and unparse(atom.left) == wp and unparse(atom.comparators[0]) == "self.busy"
    ok = bool(rem) and ncfg.all_paths_cross([ncfg.entry], lambda e: (e.src in rem and e.kind != "exc") or edge_has_fact(e, not_busy), edge_ok=no_exc, targets=[ncfg.exit])
    R.check(ok, "C18-R4", "Pool.notify_done|leaves-busy", "a finished worker is removed from busy on every path", ndf.loc(),
            "a finished worker can stay in the busy set: the pool counts it forever and refuses connections although workers are free")
    idle_add = [n for c in walk_no_nested(ndf.node) if isinstance(c, ast.Call) and unparse(c.func) == "self.idle.add" and c.args and unparse(c.args[0]) == wp for n in ctx.node_of(ndf, c)]
    retire = [n for c in walk_no_nested(ndf.node) if isinstance(c, ast.Call) and unparse(c.func) == "%s.process" % wp and c.args and isinstance(c.args[0], ast.Constant)
              and c.args[0].value is None for n in ctx.node_of(ndf, c)]
    ok = bool(idle_add) and bool(retire) and ncfg.all_paths_pass([ncfg.entry], lambda n: n in idle_add or n in retire, edge_ok=no_exc, targets=[ncfg.exit])
    R.check(ok, "C18-R4", "Pool.notify_done|idle-or-retired", "every path either puts the worker back into idle or retires it with a None job", ndf.loc(),
            "a finished worker can be neither idle nor told to stop: the thread waits forever and is lost to the pool")

    def below_min(atom, pol):
        # `len(idle) >= MIN` is read as `MIN <= len(idle)` (canonical ordering)
        if isinstance(atom, ast.Compare) and len(atom.ops) == 1:
            lf, rt = unparse(atom.left), unparse(atom.comparators[0])
            if isinstance(atom.ops[0], ast.LtE) and lf.endswith("THREADPOOL_SIZE_MIN") and rt == "len(self.idle)":
                return pol is False
            if isinstance(atom.ops[0], ast.Lt) and lf == "len(self.idle)" and rt.endswith("THREADPOOL_SIZE_MIN"):
                return pol is True
        return False

    def open_(atom, pol):
        return pol is False and unparse(atom) == "self.closed"
    ok = bool(idle_add) and all(ncfg.guarded(n, lambda e: edge_has_fact(e, below_min)) and ncfg.guarded(n, lambda e: edge_has_fact(e, open_)) for n in idle_add)
    R.check(ok, "C18-R4", "Pool.notify_done|idle-only-below-minimum-and-open", "a worker returns to idle only while the pool is open and holds fewer than THREADPOOL_SIZE_MIN idle workers", ndf.loc(),
            "finished workers are kept idle without the minimum-size test (or after close): idle threads accumulate / survive the close")
    ret = nw.node.body[-1] if nw.node.body else None
    ok = isinstance(ret, ast.Return) and {unparse(x) for x in ast.walk(ret.value) if isinstance(x, ast.Attribute)} >= SETS
    R.check(ok, "C18-R3", "Pool.num_workers|counts-both-sets", "num_workers counts busy and idle workers", nw.loc(),
            "num_workers no longer counts both sets: `%s`" % (unparse(ret) if ret is not None else ""))
    ev = ctx.fn("Pyro5.svr_threads.SocketServer_Threadpool.events")
    pc = ctx.calls_to(ev, proc.qualname)
    ok = len(pc) == 1
    why = "Pool.process call vanished from events()"
    if ok:
        ok = False
        why = "NoFreeWorkersError from Pool.process is not answered with job.denyConnection(...)"
        for t, part in enclosing_trys(pc[0], ev.node):
            if part != "body":
                continue
            for h in t.handlers:
                cl = [es.class_of_expr(x, ev) for x in (h.type.elts if isinstance(h.type, ast.Tuple) else [h.type])] if h.type is not None else []
                if any(c and es.is_sub("Pyro5.svr_threads.NoFreeWorkersError", c) for c in cl):
                    dc = [c for st in h.body for c in walk_no_nested(st) if isinstance(c, ast.Call) and
                          ctx.is_call_to(c, ev, "Pyro5.svr_threads.ClientConnectionJob.denyConnection")]
                    if dc and dc[0].args and isinstance(dc[0].args[0], ast.Constant) and isinstance(dc[0].args[0].value, str) and dc[0].args[0].value:
                        ok = True
    R.check(ok, "C18-R3", "events|refusal-answered", "a full pool is answered with denyConnection(<reason text>)", ev.loc(), why)
    dcf = ctx.fn("Pyro5.svr_threads.ClientConnectionJob.denyConnection")
    dcfg = ctx.cfg(dcf)
    hs = ctx.calls_to(dcf, "Pyro5.server.Daemon._handshake")
    hsp = ctx.fn("Pyro5.server.Daemon._handshake").params[1:]
    dpos = hsp.index("denied_reason") if "denied_reason" in hsp else None
    if dpos is None:
        raise AnalysisError("Daemon._handshake no longer has a denied_reason parameter")
    given = [next((k.value for k in h.keywords if k.arg == "denied_reason"), h.args[dpos] if len(h.args) > dpos else None) for h in hs]
    ok = len(hs) == 1 and given[0] is not None and unparse(given[0]) == dcf.params[1]
    R.check(ok, "C18-R3", "denyConnection|handshake-with-reason", "the refusal is a failed handshake carrying the reason", dcf.loc(),
            "denyConnection no longer passes its reason to Daemon._handshake(denied_reason=...)")
    closes = [n for c in ctx.calls_to(dcf, "Pyro5.socketutil.SocketConnection.close") for n in ctx.node_of(dcf, c)]
    ok = bool(closes) and dcfg.all_paths_pass([dcfg.entry], lambda n: n in closes, edge_ok=ctx.exc_filter(dcf))
    R.check(ok, "C18-R3", "denyConnection|always-closes", "the refused socket is closed on every path (also when the handshake raises)", dcf.loc(),
            "a refused connection can stay open")

    from ..report import Rules
    from ..report import run_shared as _run_shared
    from . import c08
    R8 = Rules("C08")
    try:
        _run_shared(ctx, c08, R8, tier)
    except AnalysisError as _shared_x:
        # the other property's own anchors are gone on this tree: its check reports that; what it produced before is still shared
        R.note("obligations shared from C08 are incomplete on this tree: %s" % _shared_x)
    for o in R8.obs:
        if o.key == "C08-R5|client|handshake-reply-decoded-by-reply-serializer":
            R.add("C18-R3", "client|refusal-decodable", o.desc + " (the pool-full refusal is sent before the daemon adopts the client's serializer)", o.ok, o.loc, o.detail)
        if o.key == "C08-R4|_handshake|header-names-the-encoding-serializer":
            R.add("C18-R3", "_handshake|refusal-header-names-its-encoding", o.desc + " (a refused client must be able to decode the reason)", o.ok, o.loc, o.detail)
        if o.key == "C08-R4|_handshake|failure-answer-serializer-known":
            R.add("C18-R3", "_handshake|refusal-encodable", o.desc + " (the pool-full refusal is such a failure answer)", o.ok, o.loc, o.detail)
    # "answered immediately": the refusal runs on the accept thread and starts by reading the refused peer's CONNECT - that read is bounded only if the communication
    # timeout is already on the socket when accept() hands it over (shared with C05-R1b); set later, by the worker, it never applies to a connection no worker gets
    from . import c05 as _c05
    R5_ = Rules("C05")
    try:
        _run_shared(ctx, _c05, R5_, tier)
    except AnalysisError as _shared_x:
        R.note("obligations shared from C05 are incomplete on this tree: %s" % _shared_x)
    for o in R5_.obs:
        if o.key == "C05-R1b|events|timeout-on-the-accepted-socket":
            R.add("C18-R3", "events|refusal-runs-under-the-communication-timeout", o.desc + " (a silent client that is being refused cannot park the accept loop: later connections are still "
                  "served or refused)", o.ok, o.loc, o.detail)
    # a refusal is decided before anything of the refused peer's CONNECT is interpreted: in _handshake the denied_reason exit comes before the payload is decoded and before
    # the application's validator runs (denyConnection runs on the accept thread: user code there stalls all accepts, and a refused peer would get the validator's verdict
    # and side effects instead of the refusal)
    hsf = ctx.fn("Pyro5.server.Daemon._handshake")
    hcfg_ = ctx.cfg(hsf)

    def not_denied_(atom, pol):
        return pol is False and isinstance(atom, ast.Name) and atom.id == "denied_reason"
    user_sites = [c for c in ctx.calls_to(hsf, "Pyro5.server.Daemon.validateHandshake")]
    user_sites += [c for c, _ in ctx.cg.calls_of(hsf) if isinstance(c.func, ast.Attribute) and c.func.attr in ("loads", "loadsCall")]
    okr = bool(user_sites) and all(hcfg_.guarded(n, lambda e: edge_has_fact(e, not_denied_)) for c in user_sites for n in ctx.node_of(hsf, c))
    R.check(okr, "C18-R3", "_handshake|refusal-before-user-code", "the payload is decoded and the validator runs only when no denied_reason was given", hsf.loc(user_sites[0]) if user_sites else hsf.loc(),
            "a connection that is being refused (no free workers) still has its CONNECT payload deserialised and the application's handshake validator run - on the accept thread, "
            "with the validator's side effects and possibly its verdict instead of the refusal")
    # nothing that can fail runs in denyConnection outside the try/finally that closes the refused socket
    outside = [st for st in dcf.node.body if not isinstance(st, ast.Try) and not (isinstance(st, ast.Expr) and isinstance(st.value, ast.Constant))]
    fallible = [st for st in outside if not (isinstance(st, ast.Expr) and isinstance(st.value, ast.Call) and unparse(st.value.func).startswith("log.")
                                             and not any(isinstance(x, (ast.Subscript, ast.Call)) for a in st.value.args + [k.value for k in st.value.keywords] for x in ast.walk(a)))]
    R.check(not fallible, "C18-R3", "denyConnection|nothing-fallible-outside-the-try", "outside the try/finally there is at most a log call over plain names and constants", dcf.loc(),
            "`%s` runs before the try/finally that answers and closes the refused socket and can raise (e.g. indexing the peer address, which is '' for unix sockets): the refused "
            "client gets no answer, the socket stays open and the error ends the accept loop" % (unparse(fallible[0], 70) if fallible else ""))
    desc = es.escapes(dcf.qualname)
    R.check(not desc, "C18-R3", "denyConnection|contains-all-errors", "no exception of the refusal handshake leaves denyConnection (it runs in the accept loop)", dcf.loc(),
            "denyConnection lets %s escape (%s): raised while a refused client is answered, it ends the accept loop, and later connections are neither served nor refused" % (
                sorted({k[0].rsplit(".", 1)[-1] for k in desc}), "; ".join(sorted({v[0] for v in desc.values()}))[:160]))

    # ---------------------------------------------------------------- R4
    from .c05 import worker_loop_rules
    worker_loop_rules(ctx, R, "C18-R4")
    wr = ctx.fn("Pyro5.svr_threads.Worker.run")
    wcfg = ctx.cfg(wr)

    def job_none(atom, pol):
        return isinstance(atom, ast.Compare) and len(atom.ops) == 1 and unparse(atom.left) == "self.job" and isinstance(atom.comparators[0], ast.Constant) \
            and atom.comparators[0].value is None and ((isinstance(atom.ops[0], ast.Is) and pol is True) or (isinstance(atom.ops[0], ast.IsNot) and pol is False))
    brk = [n for n in wcfg.nodes if n.kind == "stmt" and isinstance(n.ast, (ast.Break, ast.Return)) and wcfg.guarded(n, lambda e: edge_has_fact(e, job_none))]
    jobcall = [n for n in wcfg.nodes for c in calls_in(n) if unparse(c.func) == "self.job"]

    def job_not_none(atom, pol):
        return isinstance(atom, ast.Compare) and len(atom.ops) == 1 and unparse(atom.left) == "self.job" and isinstance(atom.comparators[0], ast.Constant) \
            and atom.comparators[0].value is None and ((isinstance(atom.ops[0], ast.Is) and pol is False) or (isinstance(atom.ops[0], ast.IsNot) and pol is True))
    ok = bool(brk) and bool(jobcall) and all(wcfg.guarded(n, lambda e: edge_has_fact(e, job_not_none)) for n in jobcall)
    R.check(ok, "C18-R4", "Worker.run|none-ends-thread", "a None job ends the worker loop and is never called", wr.loc(),
            "the worker does not leave its loop on a None job (close() could never stop it) or calls None")
    ccfg = ctx.cfg(close)
    hands = [c for c in ctx.calls_to(close, "Pyro5.svr_threads.Worker.process") if c.args and isinstance(c.args[0], ast.Constant) and c.args[0].value is None]
    loops_over = set()
    for c in hands:
        for l in enclosing_loops(c, close.node):
            for x in ast.walk(l.iter):
                if isinstance(x, ast.Attribute) and unparse(x) in SETS:
                    loops_over.add(unparse(x))
    R.check(loops_over == SETS, "C18-R4", "Pool.close|none-to-every-worker", "close hands None to every busy and idle worker", close.loc(),
            "workers of %s are not told to stop" % sorted(SETS - loops_over))
    emptied = set()
    for st, t, k in stores_in(close.node):
        if k == "assign" and unparse(t) in SETS:
            emptied.add(unparse(t))
    for c, _ in ctx.cg.calls_of(close):
        if isinstance(c.func, ast.Attribute) and c.func.attr == "clear" and unparse(c.func.value) in SETS:
            emptied.add(unparse(c.func.value))
    flag = [st for st, t, k in stores_in(close.node) if unparse(t) == "self.closed" and isinstance(st.value, ast.Constant) and st.value.value is True]
    R.check(emptied == SETS and bool(flag), "C18-R4", "Pool.close|sets-emptied-and-flag", "close marks the pool closed and empties both sets", close.loc(),
            "emptied: %s, closed flag set: %s" % (sorted(emptied), bool(flag)))
    closed_guard = [n for n in cfg.nodes if n.kind == "stmt" and isinstance(n.ast, ast.Raise)]

    def closed_true(atom, pol):
        return pol is True and unparse(atom) == "self.closed"
    ok = any(cfg.guarded(n, lambda e: edge_has_fact(e, closed_true)) for n in closed_guard)
    hn = [n for c in hand for n in ctx.node_of(proc, c)]

    def closed_false(atom, pol):
        return pol is False and unparse(atom) == "self.closed"
    ok = ok and all(cfg.guarded(n, lambda e: edge_has_fact(e, closed_false)) for n in hn)
    R.check(ok, "C18-R4", "Pool.process|closed-starts-no-job", "a closed pool starts no further job", proc.loc(), "process() can hand out a job after close()")

    # ---------------------------------------------------------------- R5
    from .common import fresh_per_instance
    fresh_per_instance(ctx, R, "C18-R5", "Pyro5.svr_threads.Pool", "idle", "two pools (two daemons) would hand each other's workers jobs and miscount the bound")
    fresh_per_instance(ctx, R, "C18-R5", "Pyro5.svr_threads.Pool", "busy", "two pools (two daemons) would miscount the worker bound")
