"""C07 — Remote exceptions arrive as the same exception with the same content."""
import ast
from ..engine.model import AnalysisError, dotted
from ..engine.context import unparse, enclosing_stmt, stores_in, names_in, enclosing_loops, enclosing_trys
from ..engine.cfg import walk_no_nested, calls_in, facts_of, handler_is_catch_all
from .c03 import edge_has_fact

EXPLANATION = (
    "Writer/reader agreement of the exception wire form. Decided: the keys written by class_to_dict for exceptions, by "
    "serialize_pyro_object_to_dict and by _ExceptionWrapper.__serialized_dict__ are the keys dict_to_class / make_exception "
    "read; every literal class tag compared in dict_to_class is <module>.<class> of an existing Pyro class and its branch "
    "builds that class; an exception tag of namespace N is resolved in namespace N (builtins -> builtins, Pyro5.errors -> "
    "errors, sqlite3 -> sqlite3), with the prefix/split arithmetic consistent; the server stores the traceback before the "
    "first serialisation, ors FLAGS_EXCEPTION in before the reply is built, and replies under the documented condition "
    "(truth table shared with C05-R3); no handler on the dispatch path swallows or replaces an exception of user code (methods, "
    "property accessors, stream iterators); every failure of handleRequest ends the connection (no hang); the client raises the decoded object exactly under the exception flag; the batch "
    "wrapper is written and read as the same class and re-raises its payload."
    'Also decided: the default error hook cannot raise (format fields that index their argument are modelled); every serialised exception object carries the traceback text and the error reply is sent on every path; definite assignment in the reporting modules. '
    "Also decided (round 7): The property gates call fget/fset directly, so the accessor's own exception is what leaves the gate. "
    'Also decided (round 8): A `with contextlib.suppress(X)` around user code counts as a handler that swallows X. '
    "Also decided (round 10): Replies are encoded by a per-message call of the library's module-level encoder (shared from C01): no encoder object with a buffer is kept on the process-wide serializer. "
    "Also decided (round 9): The stream failure path's bookkeeping cannot replace the generator's exception; the batch wrapper encodes its exception through class_to_dict. "
    "Also decided (round 12): format_traceback formats the exception value only under its own catch-all; a remote exception is raised inside the client's releasing region (shared from C03). "
    "Not decided: equality of args/attributes after "
    "the trip (third-party codecs), all classes x argument shapes."
)

SER = "Pyro5.serializers.SerializerBase"


def dict_keys(d):
    return {k.value for k in d.keys if isinstance(k, ast.Constant)}


def keys_read(fn_node, var):
    """string keys read from dict variable `var`: var["k"], var.get("k"), "k" in var"""
    out = set()
    for n in walk_no_nested(fn_node):
        if isinstance(n, ast.Subscript) and isinstance(n.value, ast.Name) and n.value.id == var and isinstance(n.slice, ast.Constant):
            out.add(n.slice.value)
        elif isinstance(n, ast.Call) and isinstance(n.func, ast.Attribute) and n.func.attr == "get" and isinstance(n.func.value, ast.Name) \
                and n.func.value.id == var and n.args and isinstance(n.args[0], ast.Constant):
            out.add(n.args[0].value)
        elif isinstance(n, ast.Compare) and len(n.ops) == 1 and isinstance(n.ops[0], (ast.In, ast.NotIn)) and isinstance(n.left, ast.Constant) \
                and isinstance(n.comparators[0], ast.Name) and n.comparators[0].id == var:
            out.add(n.left.value)
    return out


def run(ctx, R, tier):
    p = ctx.p
    es = ctx.escape
    R.rule("C07-R1", "keys written for exceptions / Pyro objects / the batch wrapper are the keys the reader uses", floor=3)
    R.rule("C07-R2", "every literal class tag in dict_to_class names an existing Pyro class and its branch builds that class; exception tags are resolved in their own namespace", floor=7)
    R.rule("C07-R3", "server error path: traceback stored before serialisation, FLAGS_EXCEPTION set before the reply is built, reply condition as documented", floor=4)
    R.rule("C07-R4", "client raises the decoded object exactly under FLAGS_EXCEPTION", floor=2)
    R.rule("C07-R7", "every failure of handleRequest ends the connection, so a caller never hangs on a reply that will not come (shared with C13-R4)", floor=3)
    R.rule("C07-R6", "exceptions raised by user code (methods, property accessors, stream iterators) are never swallowed or replaced on the dispatch path", floor=5)
    R.rule("C07-R5", "batch: the failing call's exception is wrapped in core._ExceptionWrapper with its traceback; the client tests the same class and re-raises the payload", floor=4)

    c2d = ctx.fn(SER + ".class_to_dict")
    d2c = ctx.fn(SER + ".dict_to_class")
    mke = ctx.fn(SER + ".make_exception")

    # ---------------------------------------------------------------- R1
    exc_dicts = [n for n in walk_no_nested(c2d.node) if isinstance(n, ast.Dict) and "__exception__" in dict_keys(n)]
    if len(exc_dicts) != 1:
        raise AnalysisError("class_to_dict: exception dict display vanished")
    written = dict_keys(exc_dicts[0])
    read = keys_read(mke.node, mke.params[1]) | (keys_read(d2c.node, d2c.params[1]) & {"__class__", "__exception__", "args", "attributes"})
    R.check(read <= written and {"args", "attributes", "__class__", "__exception__"} <= written, "C07-R1", "exception-dict|keys",
            "keys written for an exception (%s) cover the keys read (%s)" % (sorted(written), sorted(read)), c2d.loc(exc_dicts[0]),
            "the reader uses keys the writer does not produce: %s; required keys missing: %s" % (sorted(read - written), sorted({"args", "attributes"} - written)))
    # args value is obj.args, attributes is vars(obj)
    kv = {k.value: v for k, v in zip(exc_dicts[0].keys, exc_dicts[0].values) if isinstance(k, ast.Constant)}
    objp = c2d.params[1]

    def all_attributes(e):
        """is e the object's attribute dict (vars(obj) / obj.__dict__), possibly passed through dict() or a helper that returns its argument or a copy of it?"""
        if unparse(e) in ("vars(%s)" % objp, "%s.__dict__" % objp):
            return True
        if isinstance(e, ast.Call) and len(e.args) == 1 and not e.keywords:
            if isinstance(e.func, ast.Name) and e.func.id == "dict":
                return all_attributes(e.args[0])
            for t in ctx.cg.resolve_call(e, c2d):
                if t.kind == "fn" and t.fn.params:
                    g = t.fn
                    par = [x for x in g.params if x not in (g.self_name, "cls")][0]
                    rets = [r for r in walk_no_nested(g.node) if isinstance(r, ast.Return)]
                    grd = ctx.rd(g)
                    fine = bool(rets)
                    for r in rets:
                        if not (isinstance(r.value, ast.Name)):
                            fine = False
                            continue
                        for n in ctx.cfg(g).nodes_for(r):
                            for d in grd.reaching(n, r.value.id):
                                if d.kind == "param" and r.value.id == par:
                                    continue
                                if d.kind == "assign" and unparse(d.value) in ("dict(%s)" % par, "%s.copy()" % par):
                                    continue
                                fine = False
                    if fine:
                        return all_attributes(e.args[0])
        return False
    ok = unparse(kv.get("args")) == "%s.args" % objp and kv.get("attributes") is not None and all_attributes(kv["attributes"]) and \
        isinstance(kv.get("__exception__"), ast.Constant) and kv["__exception__"].value is True
    R.check(ok, "C07-R1", "exception-dict|values", "args <- obj.args, attributes <- vars(obj), __exception__ <- True", c2d.loc(exc_dicts[0]),
            "exception content written as args=%s attributes=%s" % (unparse(kv.get("args")), unparse(kv.get("attributes"))))
    spo = ctx.fn("Pyro5.serializers.serialize_pyro_object_to_dict")
    sd = [n for n in walk_no_nested(spo.node) if isinstance(n, ast.Dict)]
    esd = ctx.fn("Pyro5.core._ExceptionWrapper.__serialized_dict__")
    ed = [n for n in walk_no_nested(esd.node) if isinstance(n, ast.Dict)]
    if not sd or not ed:
        raise AnalysisError("to-dict functions of Pyro objects vanished")
    dread = keys_read(d2c.node, d2c.params[1])
    ok = dict_keys(sd[0]) == {"__class__", "state"} and "state" in dread and dict_keys(ed[0]) == {"__class__", "exception"} and "exception" in dread
    R.check(ok, "C07-R1", "pyro-object-dicts|keys", "state / exception keys agree between writer and reader", spo.loc(),
            "writers produce %s and %s, reader reads %s" % (sorted(dict_keys(sd[0])), sorted(dict_keys(ed[0])), sorted(dread)))
    # make_exception restores args and attributes
    ok = any(isinstance(n, ast.Call) and n.args and isinstance(n.args[0], ast.Starred) and "args" in unparse(n.args[0]) for n in walk_no_nested(mke.node)) and \
        any(isinstance(n, ast.Call) and isinstance(n.func, ast.Name) and n.func.id == "setattr" for n in walk_no_nested(mke.node))
    R.check(ok, "C07-R1", "make_exception|restores-content", "the exception is rebuilt from *args and every attribute is set back", mke.loc(),
            "make_exception no longer restores args and custom attributes")

    # ---------------------------------------------------------------- R2
    cfg = ctx.cfg(d2c)
    from .common import classname_defs
    _cd = classname_defs(d2c.node)
    cname = _cd[0].targets[0].id if _cd else None
    if cname is None:
        raise AnalysisError("dict_to_class: classname variable vanished")
    n_tags = 0
    for n in cfg.nodes:
        if n.kind != "test" or not isinstance(n.ast, ast.If):
            continue
        from ..engine.guards import strip_not
        t, tpol = strip_not(n.ast.test)
        if isinstance(t, ast.Compare) and len(t.ops) == 1 and isinstance(t.ops[0], ast.Eq) and unparse(t.left) == cname and isinstance(t.comparators[0], ast.Constant):
            tag = t.comparators[0].value
            branch_body = n.ast.body if tpol else n.ast.orelse
            if tag.startswith("Pyro5.util."):
                # legacy alias tags of the serializer classes: the branch must build the serializer of that name
                body_calls = [x for st in branch_body for x in walk_no_nested(st) if isinstance(x, ast.Call)]
                cls = tag.rsplit(".", 1)[1]
                ok = any(dotted(x.func) == cls for x in body_calls) and ("Pyro5.serializers." + cls) in p.classes
                R.check(ok, "C07-R2", "tag:%s" % tag, "legacy serializer tag builds the serializer class of that name", d2c.loc(n.ast), "branch for %s builds something else" % tag)
                n_tags += 1
                continue
            if tag == "struct.error":
                continue
            n_tags += 1
            exists = tag in p.classes
            body_calls = [x for st in branch_body for x in walk_no_nested(st) if isinstance(x, ast.Call)]
            builds = False
            for x in body_calls:
                for ty in ctx.cg.expr_types(x, d2c):
                    if ty == "cls:" + tag:
                        builds = True
            R.check(exists and builds, "C07-R2", "tag:%s" % tag, "tag names an existing class and the branch builds an instance of it", d2c.loc(n.ast),
                    "tag %r: class exists in the package: %s; branch builds it: %s" % (tag, exists, builds))
    if n_tags < 6:
        raise AnalysisError("dict_to_class: fewer literal class tags than expected (%d)" % n_tags)
    # writer tags
    for cq in ("Pyro5.core.URI", "Pyro5.client.Proxy", "Pyro5.server.Daemon"):
        p.cls(cq)
    wtag = [v for k, v in zip(ed[0].keys, ed[0].values) if isinstance(k, ast.Constant) and k.value == "__class__"]
    ok = bool(wtag) and isinstance(wtag[0], ast.Constant) and wtag[0].value == "Pyro5.core._ExceptionWrapper" and "Pyro5.core._ExceptionWrapper" in p.classes
    R.check(ok, "C07-R2", "writer-tag:_ExceptionWrapper", "the wrapper writes the tag the reader compares and the class's real qualified name", esd.loc(),
            "wrapper tag is %s" % (unparse(wtag[0]) if wtag else "?"))
    v = [vv for k, vv in zip(sd[0].keys, sd[0].values) if isinstance(k, ast.Constant) and k.value == "__class__"][0]
    ok = "__module__" in unparse(v) and "__name__" in unparse(v)
    R.check(ok, "C07-R2", "writer-tag:pyro-objects", "URI/Proxy/Daemon are tagged <module>.<class name>", spo.loc(), "tag expression is `%s`" % unparse(v))
    wv = kv.get("__class__")
    ok = wv is not None and "__module__" in unparse(wv) and "__name__" in unparse(wv)
    R.check(ok, "C07-R2", "writer-tag:exceptions", "exceptions are tagged <module>.<class name>", c2d.loc(exc_dicts[0]), "tag expression is `%s`" % unparse(wv))
    # namespace fidelity
    rd = ctx.rd(d2c)
    nsvars = set()
    for n in walk_no_nested(d2c.node):
        if isinstance(n, ast.Assign) and isinstance(n.targets[0], ast.Tuple) and len(n.targets[0].elts) == 2 and isinstance(n.value, ast.Call) and \
                isinstance(n.value.func, ast.Attribute) and n.value.func.attr == "split" and isinstance(n.targets[0].elts[0], ast.Name):
            nsvars.add(n.targets[0].elts[0].id)
    if not nsvars:
        raise AnalysisError("dict_to_class: `namespace, short = classname.split('.', 1)` vanished")
    sites = [(c, c.args[0]) for c in ctx.calls_to(d2c, mke.qualname) if c.args]
    def ns_fact(names):
        def pred(atom, pol):
            if pol is not True or not isinstance(atom, ast.Compare) or len(atom.ops) != 1:
                return False
            if isinstance(atom.ops[0], ast.In) and isinstance(atom.comparators[0], (ast.Tuple, ast.List, ast.Set)):
                return {e.value for e in atom.comparators[0].elts if isinstance(e, ast.Constant)} <= names and unparse(atom.left) in nsvars
            if isinstance(atom.ops[0], ast.Eq) and isinstance(atom.comparators[0], ast.Constant):
                return atom.comparators[0].value in names and unparse(atom.left) in nsvars
            return False
        return pred

    def prefix_fact(atom, pol):
        return pol is True and isinstance(atom, ast.Call) and isinstance(atom.func, ast.Attribute) and atom.func.attr == "startswith" and atom.args and \
            isinstance(atom.args[0], ast.Constant) and atom.args[0].value == "Pyro5.errors."
    wanted = {"builtins": ns_fact({"builtins", "exceptions"}), "sqlite3": ns_fact({"sqlite3"}), "Pyro5.errors": prefix_fact}
    for want, fact in wanted.items():
        here = [(c, a) for c, a in sites if all(cfg.guarded(node, lambda e: edge_has_fact(e, fact)) for node in ctx.node_of(d2c, c))]
        if not here:
            R.fail("C07-R2", "namespace:%s" % want, "an exception tagged %s.<X> is built from the class <X> of that very namespace" % want, d2c.loc(),
                   "no make_exception site is left under the %s namespace test: such tags are resolved some other way (or not at all)" % want)
            continue
        for c, a in here:
            ok = False
            defs = []
            if isinstance(a, ast.Name):
                for node in ctx.node_of(d2c, c):
                    defs = rd.reaching(node, a.id)
                    ok = bool(defs) and all(d.kind == "assign" and isinstance(d.value, ast.Call) and isinstance(d.value.func, ast.Name) and d.value.func.id == "getattr"
                                            and len(d.value.args) == 2 and isinstance(d.value.args[0], ast.Name) and
                                            (p.resolve_dotted(d2c.module, d.value.args[0].id, d2c) or (None, ""))[1] == want for d in defs)
            R.check(ok, "C07-R2", "namespace:%s" % want, "an exception tagged %s.<X> is built from the class <X> of that very namespace" % want, d2c.loc(c),
                    "the class for a %s.* tag is taken from `%s`: a remote %s.X can arrive as a different class that happens to share the short name "
                    "(e.g. builtins.TimeoutError as Pyro5.errors.TimeoutError)" % (want, ", ".join(unparse(d.value, 50) if d.value is not None else d.kind for d in defs) or unparse(a), want))
    # prefix / split arithmetic of the Pyro5.errors branch
    okp = False
    for n in walk_no_nested(d2c.node):
        if isinstance(n, ast.Subscript) and isinstance(n.value, ast.Call) and isinstance(n.value.func, ast.Attribute) and n.value.func.attr == "split" \
                and len(n.value.args) == 2 and isinstance(n.value.args[1], ast.Constant) and isinstance(n.slice, ast.Constant):
            if n.value.args[1].value == n.slice.value == "Pyro5.errors.".count("."):
                okp = True
    R.check(okp, "C07-R2", "errors-prefix|split", "the short name of a Pyro5.errors.* tag is taken after exactly the prefix's two dots", d2c.loc(),
            "split arguments of the Pyro5.errors branch do not match the prefix")

    # ---------------------------------------------------------------- R3
    ser = ctx.fn("Pyro5.server.Daemon._sendExceptionResponse")
    scfg = ctx.cfg(ser)
    tb = [n for st, t, k in stores_in(ser.node) if isinstance(t, ast.Attribute) and t.attr == "_pyroTraceback" for n in scfg.nodes_for(st)]
    dumps_nodes = [n for c, tgs in ctx.cg.calls_of(ser) if any(t.kind == "fn" and t.fn.name == "dumps" for t in tgs) for n in ctx.node_of(ser, c)]
    if not dumps_nodes:
        raise AnalysisError("_sendExceptionResponse: dumps vanished")
    ok = bool(tb) and all(any(scfg.dominates(x, d) and x is not d for x in tb) for d in dumps_nodes)
    R.check(ok, "C07-R3", "_sendExceptionResponse|traceback-before-dumps", "the remote traceback is attached before every serialisation of the exception", ser.loc(),
            "an exception can be serialised before _pyroTraceback was stored on it")
    fl = [n for st, t, k in stores_in(ser.node) if k == "aug" and isinstance(st.op, ast.BitOr) and "FLAGS_EXCEPTION" in unparse(st.value) for n in scfg.nodes_for(st)]
    sm = [n for c in ctx.calls_to(ser, "Pyro5.protocol.SendingMessage.__init__") for n in ctx.node_of(ser, c)]
    ok = bool(fl) and bool(sm) and all(any(scfg.dominates(x, m) for x in fl) for m in sm)
    R.check(ok, "C07-R3", "_sendExceptionResponse|exception-flag", "FLAGS_EXCEPTION is or-ed into the flags before the reply is built", ser.loc(),
            "an error reply can be sent without FLAGS_EXCEPTION: the client would return the exception object as a normal result")
    hr = ctx.fn("Pyro5.server.Daemon.handleRequest")
    sends = ctx.calls_to(hr, ser.qualname)
    tbs = [c for c in sends if len(c.args) >= 5 and isinstance(c.args[4], ast.Name) and any(
        d.kind == "assign" and isinstance(d.value, ast.Call) and ctx.is_call_to(d.value, hr, "Pyro5.errors.format_traceback")
        for n in ctx.node_of(hr, c) for d in ctx.rd(hr).reaching(n, c.args[4].id))]
    R.check(bool(tbs), "C07-R3", "handleRequest|reply-carries-traceback", "the catch-all passes a formatted traceback to the error reply", hr.loc(),
            "no error reply is built with errors.format_traceback(...)")
    from ..report import Rules
    from ..report import run_shared as _run_shared
    from . import c05
    R5 = Rules("C05")
    try:
        _run_shared(ctx, c05, R5, tier)
    except AnalysisError as _shared_x:
        # the other property's own anchors are gone on this tree: its check reports that; what it produced before is still shared
        R.note("obligations shared from C05 are incomplete on this tree: %s" % _shared_x)
    for o in R5.obs:
        if o.key in ("C05-R3|handleRequest|error-reply-table", "C05-R4|_sendExceptionResponse|first-dumps-guarded", "C05-R4|_sendExceptionResponse|fallback-pyroerror"):
            R.add("C07-R3", o.key.split("|", 1)[1], o.desc, o.ok, o.loc, o.detail)
        if o.rule == "C05-R8" and o.key.split("|")[-1] in ("Pyro5.server", "Pyro5.serializers", "Pyro5.client", "Pyro5.core", "Pyro5.errors"):
            R.add("C07-R3", "definite-assignment|" + o.key.split("|")[-1], o.desc + " (a NameError raised while an exception is being reported replaces it)", o.ok, o.loc, o.detail)

    # the error reply: the traceback text is attached to whatever exception object is serialised, and the reply is really sent
    ser_fn = ctx.fn("Pyro5.server.Daemon._sendExceptionResponse")
    scfg = ctx.cfg(ser_fn)
    tbp = ser_fn.params[5] if len(ser_fn.params) > 5 else None
    dumps_nodes = [n for c, _ in ctx.cg.calls_of(ser_fn) if isinstance(c.func, ast.Attribute) and c.func.attr == "dumps" for n in ctx.node_of(ser_fn, c)]
    tb_stores = [(st, n) for st, t, k in stores_in(ser_fn.node) if isinstance(t, ast.Attribute) and t.attr == "_pyroTraceback" and unparse(st.value) == tbp for n in scfg.nodes_for(st)]
    okt = bool(dumps_nodes) and bool(tb_stores)
    for dn in dumps_nodes:
        # the object being dumped (a Name) carries the traceback: a store on that name dominates the dump with no re-binding of the name in between
        arg = next((c.args[0] for c in calls_in(dn) if isinstance(c.func, ast.Attribute) and c.func.attr == "dumps" and c.args), None)
        if not isinstance(arg, ast.Name):
            okt = False
            continue
        cands = [n for st, n in tb_stores if isinstance(st.targets[0].value, ast.Name) and st.targets[0].value.id == arg.id and scfg.dominates(n, dn)]
        rebinds = [n for st, t, k in stores_in(ser_fn.node) if isinstance(t, ast.Name) and t.id == arg.id for n in scfg.nodes_for(st)]
        if not any(not any(scfg.dominates(c_, rb) and scfg.dominates(rb, dn) for rb in rebinds) for c_ in cands):
            okt = False
    R.check(okt, "C07-R3", "_sendExceptionResponse|traceback-attached", "every exception object that is serialised into the error reply carries the remote traceback text", ser_fn.loc(),
            "an exception object is serialised without `_pyroTraceback = <traceback lines>` having been set on it: the caller gets the exception without the remote traceback")
    sends_ = [n for c in ctx.calls_to(ser_fn, "Pyro5.socketutil.SocketConnection.send") for n in ctx.node_of(ser_fn, c)]
    oks = bool(sends_) and scfg.all_paths_pass([scfg.entry], lambda n: n in sends_, edge_ok=lambda e: e.kind != "exc", targets=[scfg.exit])
    R.check(oks, "C07-R3", "_sendExceptionResponse|reply-sent", "every normal path through _sendExceptionResponse sends the error reply", ser_fn.loc(),
            "the error reply is built but not sent on some path: the caller waits for an answer that never comes")

    gpt = ctx.fn("Pyro5.errors.get_pyro_traceback")
    reads_tb = any(isinstance(n, ast.Call) and isinstance(n.func, ast.Name) and n.func.id == "getattr" and len(n.args) >= 2 and isinstance(n.args[1], ast.Constant)
                   and n.args[1].value == "_pyroTraceback" for n in ast.walk(gpt.node)) or \
        any(isinstance(n, ast.Attribute) and n.attr == "_pyroTraceback" for n in ast.walk(gpt.node))
    R.check(reads_tb and bool(tb), "C07-R3", "traceback|attribute-name-agrees", "the attribute the server stores the remote traceback in is the one errors.get_pyro_traceback reads", gpt.loc(),
            "server and client disagree on the name of the remote-traceback attribute")

    # ---------------------------------------------------------------- R7 (shared with C13-R4)
    from . import c13
    R13 = Rules("C13")
    try:
        _run_shared(ctx, c13, R13, tier)
    except AnalysisError as _shared_x:
        # the other property's own anchors are gone on this tree: its check reports that; what it produced before is still shared
        R.note("obligations shared from C13 are incomplete on this tree: %s" % _shared_x)
    for o in R13.obs:
        if o.rule == "C13-R4":
            R.add("C07-R7", o.key.split("|", 1)[1], o.desc + " (the daemon sends no reply for communication errors and relies on the connection being dropped: otherwise the caller hangs)",
                  o.ok, o.loc, o.detail)
    # a streamed item's exception reaches the caller as it is: the server's removal of the stream entry in the failure path cannot itself raise (shared with C10-R1)
    from . import c10 as _c10
    R10_ = Rules("C10")
    try:
        _run_shared(ctx, _c10, R10_, tier)
    except AnalysisError as _shared_x:
        # the other property's own anchors are gone on this tree: its check reports that; what it produced before is still shared
        R.note("obligations shared from C10 are incomplete on this tree: %s" % _shared_x)
    # "the proxy remains usable for the next call": a remote exception that is itself a CommunicationError (SerializeError: the server closes after replying) must be
    # raised INSIDE the client's guarded region, whose handler releases the connection (shared with C03-R2)
    from . import c03 as _c03
    R03_ = Rules("C03")
    try:
        _run_shared(ctx, _c03, R03_, tier)
    except AnalysisError as _shared_x:
        R.note("obligations shared from C03 are incomplete on this tree: %s" % _shared_x)
    for o in R03_.obs:
        if o.key == "C03-R2|_pyroInvoke|region":
            R.add("C07-R4", "_pyroInvoke|remote-exception-raised-inside-the-releasing-region", o.desc + " (a remote SerializeError drops the client's half of the connection the server "
                  "has closed, so the next call reconnects)", o.ok, o.loc, o.detail)
    for o in R10_.obs:
        if o.key in ("C10-R1|get_next_stream_item|removal-cannot-raise", "C10-R1|get_next_stream_item|handler-reraises"):
            R.add("C07-R6", "stream|" + o.key.split("|", 2)[2], o.desc + " (a KeyError from the bookkeeping would replace the generator's own exception / StopIteration at the caller)", o.ok, o.loc, o.detail)
    # the traceback text that travels with the exception is built by errors.format_traceback INSIDE the error path of handleRequest: whatever it does with the exception
    # value that can run user code (str() / %-formatting calls the exception's __str__) happens under its own catch-all - an exception whose __str__ fails must cost
    # the detailed traceback, not the whole error reply (the caller would see ConnectionClosedError instead of the remote exception)
    ft = ctx.fn("Pyro5.errors.format_traceback")
    exv = [p_ for p_ in ft.params if "value" in p_]
    if not exv:
        raise AnalysisError("format_traceback: the exception-value parameter vanished")
    risky = []
    for n in walk_no_nested(ft.node):
        mentions = any(isinstance(x, ast.Name) and x.id in exv for x in ast.walk(n))
        if not mentions:
            continue
        if (isinstance(n, ast.BinOp) and isinstance(n.op, ast.Mod)) or isinstance(n, ast.JoinedStr) or \
                (isinstance(n, ast.Call) and ((isinstance(n.func, ast.Name) and n.func.id in ("str", "repr", "format")) or (isinstance(n.func, ast.Attribute) and n.func.attr == "format"))):
            risky.append(n)
    if not risky:
        raise AnalysisError("format_traceback: no text is built from the exception value any more")
    bare = [n for n in risky if not any(part == "body" and any(handler_is_catch_all(h) for h in t.handlers) for t, part in enclosing_trys(n, ft.node))]
    R.check(not bare, "C07-R3", "format_traceback|exception-text-built-under-its-own-catch-all", "every str()/%%-formatting of the exception value in format_traceback lies in the try with the catch-all fallback (%d site(s))" % len(risky),
            ft.loc(bare[0]) if bare else ft.loc(),
            "`%s` formats the exception value outside the try that falls back to the plain traceback: an exception whose __str__ raises makes format_traceback raise inside "
            "handleRequest's error path - no error reply is sent, the caller gets ConnectionClosedError instead of the remote exception" % (unparse(bare[0], 70) if bare else ""))
    # every error reply is encoded by a call of the library's stateless module-level encoder (shared with C01-R2): the serializer objects are process-wide singletons used by
    # all server threads, and an exception is encoded through the `default=` hook - Python code in the middle of the encoding where threads switch. One encoder object
    # (msgpack.Packer, json.JSONEncoder with state) kept on the serializer splices two overlapping replies into each other: both callers get garbage instead of their exception
    from . import c01 as _c01
    R01_ = Rules("C01")
    try:
        _run_shared(ctx, _c01, R01_, tier)
    except AnalysisError as _shared_x:
        R.note("obligations shared from C01 are incomplete on this tree: %s" % _shared_x)
    for o in R01_.obs:
        if o.rule == "C01-R2" and o.key.endswith("|encode-callee"):
            R.add("C07-R5", "%s|reply-encoded-by-a-stateless-library-call" % o.key.split("|")[1], o.desc + " (a per-message call of the module-level encoder: concurrent error replies "
                  "cannot run into each other)", o.ok, o.loc, o.detail)
    # the wrapper hands its exception to the same encoder a plain reply uses (class_to_dict: custom converters registered for the exception's class included)
    wsd = ctx.fn("Pyro5.core._ExceptionWrapper.__serialized_dict__")
    enc = [c for c in ctx.calls_to(wsd, "Pyro5.serializers.SerializerBase.class_to_dict")]
    oke = len(enc) == 1 and enc[0].args and unparse(enc[0].args[0]) == "%s.exception" % wsd.self_name
    R.check(oke, "C07-R5", "wrapper|payload-encoded-by-class_to_dict", "the wrapped exception is encoded by SerializerBase.class_to_dict, like an exception travelling on its own", wsd.loc(),
            "_ExceptionWrapper.__serialized_dict__ builds the exception's wire form itself: an exception class with a registered class-to-dict converter travels in the generic form "
            "from a batch (and is refused by the client) while the same call made on its own delivers it")
    # the batch wrapper branch converts its payload under the same test recreate_classes uses
    wb = []
    for n in walk_no_nested(d2c.node):
        if isinstance(n, ast.If) and "isinstance" in unparse(n.test):
            for branch, pol in ((n.body, True), (n.orelse, False)):
                if any(isinstance(x, ast.Call) and isinstance(x.func, ast.Attribute) and x.func.attr == "dict_to_class" for st in branch for x in ast.walk(st)
                       if not isinstance(st, ast.If)):
                    wb.append((n, pol))
    okw = len(wb) == 1
    if okw:
        atoms = [unparse(a) for a, pl in facts_of(wb[0][0].test, wb[0][1]) if pl is True]
        okw = len(atoms) == 2 and any(a.startswith("isinstance(") and a.endswith(", dict)") for a in atoms) and any(a.startswith("'__class__' in ") for a in atoms)
    R.check(okw, "C07-R5", "wrapper|payload-converted-by-class-tag", "the wrapped exception dict is re-created whenever it carries a class tag (the test recreate_classes itself applies)", d2c.loc(wb[0][0]) if wb else d2c.loc(),
            "the wrapper branch re-creates its payload under `%s`: exceptions transported by a registered converter stay raw dicts and the batch raises TypeError instead of that call's own exception"
            % (unparse(wb[0][0].test) if wb else "?"))

    # ---------------------------------------------------------------- R6
    n6 = 0
    for fq in ("Pyro5.server.Daemon.handleRequest", "Pyro5.server._get_exposed_property_value", "Pyro5.server._set_exposed_property_value",
               "Pyro5.server._get_attribute", "Pyro5.server.DaemonObject.get_next_stream_item"):
        g = ctx.fn(fq)
        sites = []
        for c, tgs in ctx.cg.calls_of(g):
            user = (isinstance(c.func, ast.Name) and ctx.cg.is_local(g, c.func.id) and not any(t.kind == "fn" for t in tgs) and
                    not any(t.kind == "ext" and not t.name.endswith("()()") for t in tgs)) or \
                   (isinstance(c.func, ast.Attribute) and c.func.attr in ("fget", "fset")) or \
                   (isinstance(c.func, ast.Name) and c.func.id == "next" and fq.endswith("get_next_stream_item"))
            if user:
                sites.append(c)
        for c in sites:
            n6 += 1
            bad = None
            for t, part in enclosing_trys(c, g.node):
                if part != "body":
                    continue
                for hnd in t.handlers:
                    classes = [es.class_of_expr(x, g) for x in (hnd.type.elts if isinstance(hnd.type, ast.Tuple) else [hnd.type])] if hnd.type is not None else ["builtins.BaseException"]
                    if not any(cl and (es.is_sub(cl, "builtins.Exception") or es.is_sub("builtins.Exception", cl)) for cl in classes):
                        continue
                    last = hnd.body[-1] if hnd.body else None
                    reraises = isinstance(last, ast.Raise) and (last.exc is None or (hnd.name and unparse(last.exc) == hnd.name))
                    wraps = any(isinstance(x, ast.Call) and any(ty == "cls:Pyro5.core._ExceptionWrapper" for ty in ctx.cg.expr_types(x, g)) and x.args and
                                hnd.name and unparse(x.args[0]) == hnd.name for st in hnd.body for x in walk_no_nested(st))
                    replies = any(isinstance(x, ast.Call) and ctx.is_call_to(x, g, "Pyro5.server.Daemon._sendExceptionResponse") and hnd.name and
                                  any(unparse(a) == hnd.name for a in x.args) for st in hnd.body for x in walk_no_nested(st))
                    if not (reraises or wraps or replies):
                        bad = hnd
            # `with contextlib.suppress(X):` around the call is a handler for X that does nothing
            from ..engine.cfg import suppress_info
            from ..engine.context import enclosing_withs
            for w in enclosing_withs(c):
                if not any(w is x for x in ast.walk(g.node)):
                    continue
                for it in w.items:
                    tys = suppress_info(it)
                    if tys:
                        classes = [es.class_of_expr(x, g) for x in tys]
                        if any(cl and (es.is_sub(cl, "builtins.Exception") or es.is_sub("builtins.Exception", cl)) for cl in classes):
                            bad = w
            R.check(bad is None, "C07-R6", "%s|user-exception-propagates:%s#%d" % (g.name, unparse(c.func, 30), sites.index(c)), "an exception raised by user code leaves this call site unchanged (re-raised or wrapped as is)",
                    g.loc(c), "the handler at %s swallows or replaces exceptions of the user's code called by `%s`: the caller receives a different exception (or none)" % (
                        g.loc(bad) if bad is not None else "", unparse(c, 50)))
    # the property gates run the accessor itself: `getattr(obj, name)` instead of `descriptor.fget(obj)` turns an AttributeError raised by the user's getter into a call of the
    # object's __getattr__ fallback - the caller gets an unrelated value (or another error) instead of the getter's exception
    for gq, acc in (("Pyro5.server._get_exposed_property_value", "fget"), ("Pyro5.server._set_exposed_property_value", "fset")):
        gg = ctx.fn(gq)
        direct = [c for c, _ in ctx.cg.calls_of(gg) if isinstance(c.func, ast.Attribute) and c.func.attr == acc]
        if not direct:
            n6 += 1
        R.check(bool(direct), "C07-R6", "%s|accessor-run-directly" % gg.name, "the exposed property's %s is called directly, so what it raises is what leaves the gate" % acc, gg.loc(),
                "%s reaches the property through getattr()/setattr() on the object: an AttributeError from the user's accessor is swallowed by the attribute protocol "
                "(__getattr__ fallback) and never reported to the caller" % gg.name)
    if n6 < 5:
        raise AnalysisError("fewer user-code call sites on the dispatch path than expected (%d)" % n6)
    # the daemon's default error hook runs inside the except block that holds the user's exception: if it raises, its error replaces the user's
    dh = ctx.fn("Pyro5.server._default_methodcall_error_handler")
    desc = {k: v for k, v in es.escapes(dh.qualname).items()}
    R.check(not desc, "C07-R6", "_default_methodcall_error_handler|cannot-raise", "the default method-call error hook has an empty escape set", dh.loc(),
            "the hook can raise %s (%s): it is called while the user's exception is being handled, so its own error is what the caller receives" % (
                sorted({k[0].rsplit(".", 1)[-1] for k in desc}), "; ".join(sorted({v[0] for v in desc.values()}))[:200]))

    # ---------------------------------------------------------------- R4
    inv = ctx.fn("Pyro5.client.Proxy._pyroInvoke")
    icfg = ctx.cfg(inv)

    def exc_flag(want):
        def pred(atom, pol):
            return pol is want and isinstance(atom, ast.BinOp) and isinstance(atom.op, ast.BitAnd) and \
                any(ctx.resolves_to_object(x, inv, "Pyro5.protocol.FLAGS_EXCEPTION") for x in (atom.left, atom.right))
        return pred
    raises = [n for n in icfg.nodes if n.kind == "stmt" and isinstance(n.ast, ast.Raise) and isinstance(n.ast.exc, ast.Name)]
    loads_vars = {t.id for st, t, k in stores_in(inv.node) if k == "assign" and isinstance(t, ast.Name) and isinstance(st.value, ast.Call) and
                  isinstance(st.value.func, ast.Attribute) and st.value.func.attr == "loads"}
    raises = [n for n in raises if n.ast.exc.id in loads_vars]
    ok = len(raises) == 1 and icfg.guarded(raises[0], lambda e: edge_has_fact(e, exc_flag(True)))
    R.check(ok, "C07-R4", "_pyroInvoke|raise-under-flag", "the decoded object is raised exactly on the FLAGS_EXCEPTION edge", inv.loc(raises[0].ast) if raises else inv.loc(),
            "the client does not raise the remote exception under FLAGS_EXCEPTION")
    rets = [n for n in icfg.nodes if n.kind == "stmt" and isinstance(n.ast, ast.Return) and isinstance(n.ast.value, ast.Name) and n.ast.value.id in loads_vars]
    ok = len(rets) == 1 and icfg.guarded(rets[0], lambda e: edge_has_fact(e, exc_flag(False)))
    R.check(ok, "C07-R4", "_pyroInvoke|return-only-without-flag", "the decoded object is returned only when the exception flag is clear", inv.loc(rets[0].ast) if rets else inv.loc(),
            "a reply flagged as exception can be returned as a normal value (silent failure)")

    # ---------------------------------------------------------------- R5
    loops = [n for n in walk_no_nested(hr.node) if isinstance(n, ast.For)]
    batch = None
    for lp in loops:
        if any(isinstance(x, ast.Call) and ctx.is_call_to(x, hr, "Pyro5.server._get_attribute") for x in ast.walk(lp)) or \
                any(isinstance(x, ast.Call) and isinstance(x.func, ast.Name) and x.func.id == "method" for x in ast.walk(lp)):
            batch = lp
    if batch is None:
        raise AnalysisError("handleRequest: batch loop vanished")
    handlers = [h for t in ast.walk(batch) if isinstance(t, ast.Try) for h in t.handlers]
    if not handlers:
        raise AnalysisError("handleRequest: batch loop has no exception handler")
    H = handlers[0]
    wraps = [x for st in H.body for x in walk_no_nested(st) if isinstance(x, ast.Call) and
             any(ty == "cls:Pyro5.core._ExceptionWrapper" for ty in ctx.cg.expr_types(x, hr))]
    ok = len(wraps) == 1 and wraps[0].args and unparse(wraps[0].args[0]) == H.name
    R.check(ok, "C07-R5", "batch|wraps-caught-exception", "the handler wraps the caught exception in core._ExceptionWrapper", hr.loc(H),
            "the batch handler does not wrap the exception it caught")
    tbst = [st for st in H.body if isinstance(st, ast.Assign) and isinstance(st.targets[0], ast.Attribute) and st.targets[0].attr == "_pyroTraceback"
            and unparse(st.targets[0].value) == H.name]
    def _pos(node):
        """index of the handler statement that contains node (statement order, not line numbers)"""
        for i_, st_ in enumerate(H.body):
            if any(x is node for x in ast.walk(st_)):
                return i_
        return -1
    ok = bool(tbst) and bool(wraps) and 0 <= _pos(tbst[0]) < _pos(wraps[0])
    R.check(ok, "C07-R5", "batch|traceback-stored", "the traceback is attached to the exception before it is wrapped", hr.loc(H),
            "batch members lose their remote traceback")
    rg = ctx.fn("Pyro5.client.BatchProxy.__resultsgenerator")
    tests = [n for n in walk_no_nested(rg.node) if isinstance(n, ast.Call) and isinstance(n.func, ast.Name) and n.func.id == "isinstance" and len(n.args) == 2 and
             ctx.resolves_to_object(n.args[1], rg, "Pyro5.core._ExceptionWrapper")]
    calls = ctx.calls_to(rg, "Pyro5.core._ExceptionWrapper.raiseIt") or [c for c, _ in ctx.cg.calls_of(rg) if isinstance(c.func, ast.Attribute) and c.func.attr == "raiseIt"]
    R.check(bool(tests) and bool(calls), "C07-R5", "client|unwraps-same-class", "the client tests for core._ExceptionWrapper and calls raiseIt()", rg.loc(),
            "the client's batch result generator no longer recognises the wrapper class")
    ri = ctx.fn("Pyro5.core._ExceptionWrapper.raiseIt")
    rr = [n for n in walk_no_nested(ri.node) if isinstance(n, ast.Raise)]
    ok = len(rr) == 1 and unparse(rr[0].exc) == "self.exception"
    R.check(ok, "C07-R5", "wrapper|raiseIt-raises-payload", "raiseIt raises the wrapped exception itself", ri.loc(), "raiseIt raises `%s`" % (unparse(rr[0].exc) if rr else "nothing"))
