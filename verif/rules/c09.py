"""C09 — Instance modes: one per daemon, one per connection, or one per call."""
import ast
from ..engine.model import AnalysisError, dotted
from ..engine.context import unparse, enclosing_stmt, stores_in, names_in, enclosing_loops, in_lock_region
from ..engine.cfg import walk_no_nested, calls_in, facts_of
from .c03 import edge_has_fact

EXPLANATION = (
    "Decided: in Daemon._getInstance a cached instance is tested for presence only by identity with None (independent of the "
    "instance's own __bool__/__len__/__eq__); for mode 'single' the table read, the creation and the table write lie in one "
    "`with create_single_instance_lock` region and nothing else in the package writes that table; mode 'session' uses a table "
    "that is an attribute of the connection, which SocketConnection.close resets; mode 'percall' stores nothing; the creator "
    "(or the class) is called exactly once per created instance and a creator result of the wrong type raises; the mode "
    "literals tested equal the ones the behavior decorator accepts; register() defaults the mode only if none is set or inherited. "
    'Also decided: the instance tables are created per daemon / per connection, read and written under the same key, a fresh instance is stored before it is returned, close() drops session instances on every path, _getInstance runs exactly for registered classes, the creator is tested by identity with None. '
    "Also decided (round 7): Only the behavior decorator and register()'s guarded default write a class's instance mode. "
    'Also decided (round 9): The behavior decorator stores the (mode, creator) pair it was given. '
    'Also decided (round 12): The existing-connection server wraps its socket in ONE SocketConnection, made at set-up. '
    "Not decided: identity across real histories/schedules (follows only under the interpreter's lock semantics)."
)

GI = "Pyro5.server.Daemon._getInstance"


def mode_fact(mode):
    def pred(atom, pol):
        if pol is True and isinstance(atom, ast.Compare) and len(atom.ops) == 1 and isinstance(atom.ops[0], ast.Eq):
            sides = [atom.left, atom.comparators[0]]
            return any(isinstance(s, ast.Constant) and s.value == mode for s in sides) and any(isinstance(s, ast.Name) for s in sides)
        return False
    return pred


def is_none_true(name):
    def pred(atom, pol):
        if isinstance(atom, ast.Compare) and len(atom.ops) == 1 and isinstance(atom.left, ast.Name) and atom.left.id == name and \
                isinstance(atom.comparators[0], ast.Constant) and atom.comparators[0].value is None:
            return (isinstance(atom.ops[0], ast.Is) and pol is True) or (isinstance(atom.ops[0], ast.IsNot) and pol is False)
        return False
    return pred


def run(ctx, R, tier):
    p = ctx.p
    R.rule("C09-R1", "a cached instance is tested for presence only by identity with None", floor=2)
    R.rule("C09-R2", "mode single: table read, creation and table write lie in one `with create_single_instance_lock` region; no other writer of the table", floor=4)
    R.rule("C09-R3", "mode session: the table is an attribute of the connection parameter; SocketConnection.close resets it", floor=3)
    R.rule("C09-R4", "mode percall: nothing is cached, the fresh instance is returned", floor=1)
    R.rule("C09-R5", "createInstance calls exactly one of creator(clazz) / clazz(), once; a creator result of another type raises; one creation per cache miss", floor=5)
    R.rule("C09-R6", "the mode literals tested by _getInstance equal the ones the behavior decorator accepts; anything else raises; only behavior and register() write the mode", floor=3)

    R.rule("C09-R7", "the instance tables are per daemon / per connection: created fresh in __init__, never a class-level or shared dict", floor=2)
    f = ctx.fn(GI)
    cfg = ctx.cfg(f)
    ci = ctx.fn(GI + ".createInstance")
    conn = f.params[2] if len(f.params) > 2 else None
    if conn is None:
        raise AnalysisError("_getInstance: connection parameter vanished")

    # table reads:  X = <table>.get(clazz)
    reads = []
    for st, t, k in stores_in(f.node):
        if k == "assign" and isinstance(t, ast.Name) and isinstance(st.value, ast.Call) and isinstance(st.value.func, ast.Attribute) \
                and st.value.func.attr == "get" and "nstances" in unparse(st.value.func.value):
            reads.append((st, t.id, unparse(st.value.func.value)))
    for st, t, k in stores_in(f.node):
        if k == "assign" and isinstance(t, ast.Name) and isinstance(st.value, ast.Subscript) and "nstances" in unparse(st.value.value):
            reads.append((st, t.id, unparse(st.value.value)))
    if len(reads) < 2:
        raise AnalysisError("_getInstance: fewer instance-table lookups than expected (%d)" % len(reads))

    # ---------------------------------------------------------------- R1
    rd = ctx.rd(f)
    for st, var, table in reads:
        bad = []
        for node in cfg.nodes:
            if node.kind != "test":
                continue
            defs = rd.reaching(node, var)
            if not any(d.node is not None and d.node.ast is st for d in defs):
                continue
            test = node.ast.test
            for atom, pol in facts_of(test, True) + facts_of(test, False):
                if var in names_in(atom):
                    ok = isinstance(atom, ast.Compare) and len(atom.ops) == 1 and isinstance(atom.ops[0], (ast.Is, ast.IsNot)) and \
                        isinstance(atom.left, ast.Name) and atom.left.id == var and isinstance(atom.comparators[0], ast.Constant) and \
                        atom.comparators[0].value is None
                    if not ok:
                        bad.append(node.ast)
        R.check(not bad, "C09-R1", "_getInstance|presence-test:%s#%d" % (table, reads.index((st, var, table))), "the value looked up in %s is tested with `is None` only" % table,
                f.loc(bad[0]) if bad else f.loc(st),
                "`%s` decides presence by truthiness/equality of a user object: a falsy instance (empty container, __bool__ False) is re-created on every call"
                % (unparse(bad[0].test) if bad else ""))

    # ---------------------------------------------------------------- R2
    LOCK = "self.create_single_instance_lock"
    single_table = "self._pyroInstances"
    accesses = []
    for n in walk_no_nested(f.node):
        if isinstance(n, ast.Attribute) and unparse(n) == single_table:
            accesses.append(n)
    if len(accesses) < 2:
        raise AnalysisError("_getInstance: accesses of self._pyroInstances vanished")
    regions = {id(in_lock_region(a, LOCK)) if in_lock_region(a, LOCK) is not None else None for a in accesses}
    ok = None not in regions and len(regions) == 1
    R.check(ok, "C09-R2", "_getInstance|table-under-lock", "every access of self._pyroInstances lies in one `with %s` region" % LOCK, f.loc(accesses[0]),
            "the single-instance table is read or written outside the creation lock: two racing first calls both see no instance and create two")
    creates_single = []
    for c in ctx.calls_to(f, ci.qualname):
        for node in ctx.node_of(f, c):
            if cfg.guarded(node, lambda e: edge_has_fact(e, mode_fact("single"))):
                creates_single.append(c)
    ok = bool(creates_single) and all(in_lock_region(c, LOCK) is not None and id(in_lock_region(c, LOCK)) in regions for c in creates_single)
    R.check(ok, "C09-R2", "_getInstance|creation-under-lock", "the single instance is created inside the same lock region", f.loc(),
            "creation of the single instance happens outside the lock region that reads/writes the table")
    writers = set()
    for g in p.functions.values():
        for st, t, k in stores_in(g.node):
            base = t.value if isinstance(t, ast.Subscript) else t
            if isinstance(base, ast.Attribute) and base.attr == "_pyroInstances":
                writers.add(g.qualname)
        for c, _ in ctx.cg.calls_of(g):
            if isinstance(c.func, ast.Attribute) and c.func.attr in ("clear", "pop", "popitem", "update", "setdefault", "__setitem__", "__delitem__") and \
                    isinstance(c.func.value, ast.Attribute) and c.func.value.attr == "_pyroInstances":
                writers.add(g.qualname)
    extra = writers - {"Pyro5.server.Daemon.__init__", GI}
    R.check(not extra, "C09-R2", "_pyroInstances|writers", "only Daemon.__init__ and _getInstance write the single-instance table", f.loc(),
            "other writers: %s" % sorted(extra))
    init = ctx.fn("Pyro5.server.Daemon.__init__")
    lock_made = [st for st, t, k in stores_in(init.node) if unparse(t) == LOCK and isinstance(st.value, ast.Call) and
                 dotted(st.value.func) in ("threading.Lock", "threading.RLock")]
    R.check(len(lock_made) == 1, "C09-R2", "Daemon.__init__|lock-created", "the creation lock is a threading lock created once per daemon", init.loc(),
            "create_single_instance_lock is not created as threading.Lock()/RLock() in Daemon.__init__")

    # ---------------------------------------------------------------- R3
    sess_reads = [r for r in reads if r[2].startswith(conn + ".")]
    ok = len(sess_reads) >= 1
    for st, var, table in sess_reads:
        for node in cfg.nodes_for(st):
            if not cfg.guarded(node, lambda e: edge_has_fact(e, mode_fact("session"))):
                ok = False
    R.check(ok, "C09-R3", "_getInstance|session-table-on-connection", "mode session looks the instance up in a table of the connection parameter", f.loc(),
            "the session branch does not use a per-connection table")
    ok = True
    why = ""
    for st, t, k in stores_in(f.node):
        if isinstance(t, ast.Subscript):
            for node in cfg.nodes_for(st):
                if cfg.guarded(node, lambda e: edge_has_fact(e, mode_fact("session"))):
                    if not unparse(t.value).startswith(conn + "."):
                        ok = False
                        why = "the session branch stores the instance in `%s`, which is shared between connections" % unparse(t.value)
    R.check(ok, "C09-R3", "_getInstance|session-store-on-connection", "mode session stores only into the connection's table", f.loc(), why)
    # the table is written under the key it is read with (the registered class): otherwise every lookup misses and the mode degrades to percall
    for mode, prefix in (("single", single_table), ("session", conn + ".")):
        rkeys = set()
        for c in walk_no_nested(f.node):
            if isinstance(c, ast.Call) and isinstance(c.func, ast.Attribute) and c.func.attr == "get" and unparse(c.func.value).startswith(prefix) and c.args:
                rkeys.add(unparse(c.args[0]))
            if isinstance(c, ast.Subscript) and isinstance(c.ctx, ast.Load) and unparse(c.value).startswith(prefix):
                rkeys.add(unparse(c.slice))
        wkeys = {unparse(t.slice) for st, t, k in stores_in(f.node) if isinstance(t, ast.Subscript) and unparse(t.value).startswith(prefix)}
        R.check(bool(rkeys) and rkeys == wkeys and rkeys == {f.params[1]}, "C09-R3" if mode == "session" else "C09-R2", "_getInstance|%s-table-key-agreement" % mode,
                "the %s table is read and written under the same key, the registered class" % mode, f.loc(),
                "the %s table is read under %s but written under %s: lookups never find what was stored, so a new instance is created for every call" % (mode, sorted(rkeys), sorted(wkeys)))
    # a newly created single / session instance is remembered: from the creation call every normal path stores it into the mode's table before it is returned
    rets_all = [n for n in cfg.nodes if n.kind == "stmt" and isinstance(n.ast, ast.Return)]
    for mode, prefix in (("single", single_table), ("session", conn + ".")):
        made = [n for c in ctx.calls_to(f, ci.qualname) for n in ctx.node_of(f, c) if cfg.guarded(n, lambda e: edge_has_fact(e, mode_fact(mode)))]
        stored = [n for st, t, k in stores_in(f.node) if isinstance(t, ast.Subscript) and unparse(t.value).startswith(prefix) for n in cfg.nodes_for(st)]
        okm = bool(made) and bool(stored) and cfg.all_paths_pass(made, lambda n: n in stored, edge_ok=lambda e: e.kind != "exc", targets=rets_all + [cfg.exit])
        R.check(okm, "C09-R3" if mode == "session" else "C09-R2", "_getInstance|%s-instance-remembered" % mode, "a freshly created %s instance is stored in its table before it is returned" % mode,
                f.loc(), "mode %s can create an instance and return it without storing it: the next call creates another one (one per call instead of one per %s)" % (
                    mode, "daemon" if mode == "single" else "connection"))
    cl = ctx.fn("Pyro5.socketutil.SocketConnection.close")
    resets = [st for st, t, k in stores_in(cl.node) if unparse(t) == "self.pyroInstances" and isinstance(st.value, (ast.Dict, ast.Call))]
    clears = [c for c, _ in ctx.cg.calls_of(cl) if unparse(c.func) == "self.pyroInstances.clear"]
    R.check(bool(resets) or bool(clears), "C09-R3", "SocketConnection.close|drops-session-instances", "closing a connection drops its session instances", cl.loc(),
            "SocketConnection.close no longer resets pyroInstances")
    clcfg = ctx.cfg(cl)

    def keep_open_(atom, pol):
        return pol is True and unparse(atom) == "self.keep_open"
    rnodes_ = [n for st in resets for n in clcfg.nodes_for(st)] + [n for c in clears for n in ctx.node_of(cl, c)]
    okr = bool(rnodes_) and clcfg.all_paths_cross([clcfg.entry], lambda e: (e.src in rnodes_ and e.kind != "exc") or edge_has_fact(e, keep_open_), targets=[clcfg.exit])
    R.check(okr, "C09-R3", "SocketConnection.close|drop-on-every-path", "every path through close() (also when shutting the socket down fails) drops the session instances", cl.loc(),
            "the reset of pyroInstances can be skipped (it sits behind a call whose failure is suppressed): after a connection reset by the peer the session instances are kept")
    # ... and every server type really closes an ended connection, also when the disconnect hook raises (shared with C13-R1/R2)
    # on a connection the application handed over (svr_existingconn) the session table lives on the ONE SocketConnection object made when the server is set up: every
    # request is dispatched on that object. A wrapper object made per request (a property that builds one on each access) has an empty table each time - the session
    # instance is created anew for every call and its state is lost
    exc_cls = p.cls("Pyro5.svr_existingconn.SocketServer_ExistingConnection")
    made = [(m_, c) for m_ in exc_cls.methods.values() for c in walk_no_nested(m_.node)
            if isinstance(c, ast.Call) and (dotted(c.func) or "").endswith("SocketConnection")]
    if not made:
        raise AnalysisError("SocketServer_ExistingConnection no longer wraps its socket in a SocketConnection")
    per_request = [(m_, c) for m_, c in made if m_.name != "init" and m_.name != "__init__"]
    R.check(not per_request, "C09-R3", "existing-connection|one-connection-object-for-all-requests", "the SocketConnection of a pre-connected socket is created once, when the server is initialised",
            per_request[0][0].loc(per_request[0][1]) if per_request else exc_cls.module.relpath,
            ("`%s` in %s builds a new connection object outside the server's set-up: requests on the one real connection are dispatched on different SocketConnection objects, each with "
             "an empty pyroInstances table - a 'session' class gets a fresh instance for every call" % (unparse(per_request[0][1], 60), per_request[0][0].name)) if per_request else "")
    from ..report import Rules
    from ..report import run_shared as _run_shared
    from . import c13
    R13 = Rules("C13")
    try:
        _run_shared(ctx, c13, R13, tier)
    except AnalysisError as _shared_x:
        # the other property's own anchors are gone on this tree: its check reports that; what it produced before is still shared
        R.note("obligations shared from C13 are incomplete on this tree: %s" % _shared_x)
    for o in R13.obs:
        if o.key in ("C13-R4|ClientConnectionJob.__call__|handlers-cannot-fail", "C13-R4|SocketServer_Multiplex.events|handlers-cannot-fail"):
            R.add("C09-R3", "connection-end|" + o.key.split("|", 1)[1], o.desc + " (an error inside the handler skips the close() that drops the session instances)", o.ok, o.loc, o.detail)
        if o.key in ("C13-R1|__call__|close-after-disconnect", "C13-R2|events|disconnect->unregister->close"):
            R.add("C09-R3", "connection-end|" + o.key.split("|", 1)[1], o.desc + " (close() is what drops the session instances)", o.ok, o.loc, o.detail)

    # ---------------------------------------------------------------- R4
    rets = [n for n in cfg.nodes if n.kind == "stmt" and isinstance(n.ast, ast.Return) and cfg.guarded(n, lambda e: edge_has_fact(e, mode_fact("percall")))]
    ok = bool(rets)
    why = "no return under instance_mode == 'percall'"
    for n in rets:
        v = n.ast.value
        if not (isinstance(v, ast.Call) and ctx.is_call_to(v, f, ci.qualname)):
            if isinstance(v, ast.Name):
                defs = ctx.rd(f).reaching(n, v.id)
                if not (defs and all(d.kind == "assign" and isinstance(d.value, ast.Call) and ctx.is_call_to(d.value, f, ci.qualname) for d in defs)):
                    ok = False
                    why = "the percall branch returns `%s`, which is not a freshly created instance" % unparse(v)
            else:
                ok = False
                why = "the percall branch returns `%s`" % unparse(v)
    for st, t, k in stores_in(f.node):
        if isinstance(t, ast.Subscript) or (isinstance(t, ast.Attribute)):
            for node in cfg.nodes_for(st):
                if cfg.guarded(node, lambda e: edge_has_fact(e, mode_fact("percall"))):
                    ok = False
                    why = "the percall branch stores `%s`: the instance would be reused" % unparse(st)
    R.check(ok, "C09-R4", "_getInstance|percall-fresh", "mode percall returns a fresh instance and caches nothing", f.loc(), why)

    # ---------------------------------------------------------------- R5
    ccfg = ctx.cfg(ci)
    clazz_p, creator_p = ci.params[0], ci.params[1]
    creator_calls = [c for c, _ in ctx.cg.calls_of(ci) if isinstance(c.func, ast.Name) and c.func.id == creator_p]
    class_calls = [c for c, _ in ctx.cg.calls_of(ci) if isinstance(c.func, ast.Name) and c.func.id == clazz_p]
    R.check(len(creator_calls) == 1 and len(class_calls) == 1 and not enclosing_loops(creator_calls[0], ci.node) and not enclosing_loops(class_calls[0], ci.node),
            "C09-R5", "createInstance|one-call-each", "one creator(clazz) call and one clazz() call, none in a loop", ci.loc(),
            "%d creator calls / %d class calls" % (len(creator_calls), len(class_calls)))

    def _set(atom, pol):
        """+1: the creator is known to be set, -1: known to be None/absent, 0: no information (truthiness and identity-with-None tests both count)"""
        if isinstance(atom, ast.Name) and atom.id == creator_p:
            return 1 if pol is True else -1
        if isinstance(atom, ast.Compare) and len(atom.ops) == 1 and isinstance(atom.left, ast.Name) and atom.left.id == creator_p \
                and isinstance(atom.comparators[0], ast.Constant) and atom.comparators[0].value is None:
            if isinstance(atom.ops[0], ast.IsNot):
                return 1 if pol is True else -1
            if isinstance(atom.ops[0], ast.Is):
                return -1 if pol is True else 1
        return 0

    def creator_true(atom, pol):
        return _set(atom, pol) == 1

    def creator_false(atom, pol):
        return _set(atom, pol) == -1
    truthy_tests = [n for n in ccfg.nodes if n.kind == "test" and any(isinstance(a, ast.Name) and a.id == creator_p for a, pl in facts_of(n.ast.test, True))]
    beh = ctx.fn("Pyro5.server.behavior._behavior") if "Pyro5.server.behavior._behavior" in p.functions else None
    if beh is not None:
        bcfg = ctx.cfg(beh)
        truthy_tests += [n for n in bcfg.nodes if n.kind == "test" and any(isinstance(a, ast.Name) and a.id == "instance_creator" for a, pl in facts_of(n.ast.test, True))]
    R.check(not truthy_tests, "C09-R5", "createInstance|creator-tested-by-identity", "whether a creator was given is decided by identity with None, not by its truthiness", ci.loc(),
            "the creator is tested by truthiness: a callable creator object that is falsy (defines __len__ or __bool__) is ignored and the class is instantiated directly, so the "
            "creator is not called for that instance")
    if creator_calls and class_calls:
        ok = all(ccfg.guarded(n, lambda e: edge_has_fact(e, creator_true)) for n in ctx.node_of(ci, creator_calls[0])) and \
            all(ccfg.guarded(n, lambda e: edge_has_fact(e, creator_false)) for n in ctx.node_of(ci, class_calls[0]))
        R.check(ok, "C09-R5", "createInstance|exclusive", "creator(clazz) runs only if a creator is set, clazz() only otherwise", ci.loc(),
                "both the creator and the class constructor can run for one instance")
        # wrong type raises: every normal exit after the creator call is guarded by isinstance(obj, clazz) True

        def isinst_true(atom, pol):
            return pol is True and isinstance(atom, ast.Call) and isinstance(atom.func, ast.Name) and atom.func.id == "isinstance" and \
                len(atom.args) == 2 and unparse(atom.args[1]) == clazz_p
        rets_c = [n for n in ccfg.nodes if n.kind == "stmt" and isinstance(n.ast, ast.Return) and
                  ccfg.guarded(n, lambda e: edge_has_fact(e, creator_true))]
        ok = bool(rets_c) and all(ccfg.guarded(n, lambda e: edge_has_fact(e, isinst_true)) for n in rets_c)
        R.check(ok, "C09-R5", "createInstance|creator-type-checked", "a creator result is returned only if it is an instance of the class", ci.loc(),
                "an object of another type returned by the creator would be served")
    for mode in ("single", "session"):
        creates = []
        for c in ctx.calls_to(f, ci.qualname):
            for node in ctx.node_of(f, c):
                if cfg.guarded(node, lambda e: edge_has_fact(e, mode_fact(mode))):
                    creates.append((c, node))
        ok = len(creates) == 1
        why = "%d creation sites for mode %s" % (len(creates), mode)
        if ok:
            c, node = creates[0]
            var = [r[1] for r in reads]
            ok = any(cfg.guarded(node, lambda e, v=v: edge_has_fact(e, is_none_true(v))) for v in var) and not enclosing_loops(c, f.node)
            why = "the %s instance is created although one may already be cached (not on the `is None` edge)" % mode
        R.check(ok, "C09-R5", "_getInstance|create-on-miss-only:%s" % mode, "exactly one creation site, on the cache-miss edge", f.loc(), why)

    # ---------------------------------------------------------------- R6
    tested = set()
    for n in walk_no_nested(f.node):
        if isinstance(n, ast.Compare) and len(n.ops) == 1 and isinstance(n.ops[0], ast.Eq) and isinstance(n.comparators[0], ast.Constant) \
                and isinstance(n.left, ast.Name) and isinstance(n.comparators[0].value, str):
            tested.add(n.comparators[0].value)
    beh = ctx.fn("Pyro5.server.behavior._behavior")
    accepted = set()
    for n in walk_no_nested(beh.node):
        if isinstance(n, ast.Compare) and len(n.ops) == 1 and isinstance(n.ops[0], (ast.NotIn, ast.In)) and isinstance(n.comparators[0], (ast.Tuple, ast.List, ast.Set)):
            accepted |= {e.value for e in n.comparators[0].elts if isinstance(e, ast.Constant)}
    R.check(tested == accepted == {"single", "session", "percall"}, "C09-R6", "modes|agree", "tested modes = accepted modes = {single, session, percall}", f.loc(),
            "_getInstance tests %s, behavior accepts %s" % (sorted(tested), sorted(accepted)))
    regf = ctx.fn("Pyro5.server.Daemon.register")
    rcfg = ctx.cfg(regf)
    dst = [n for st, t, k in stores_in(regf.node) if k == "assign" and isinstance(t, ast.Attribute) and t.attr == "_pyroInstancing" for n in rcfg.nodes_for(st)]

    def no_instancing(atom, pol):
        return pol is False and isinstance(atom, ast.Call) and isinstance(atom.func, ast.Name) and atom.func.id == "hasattr" and len(atom.args) == 2 and \
            isinstance(atom.args[1], ast.Constant) and atom.args[1].value == "_pyroInstancing"
    R.check(bool(dst) and all(rcfg.guarded(n, lambda e: edge_has_fact(e, no_instancing)) for n in dst), "C09-R6", "register|default-only-if-unset",
            "register() defaults the instance mode only if the class has none, own or inherited (hasattr)", regf.loc(),
            "the default ('session', None) is stored although the class inherits a @behavior setting: an inherited 'single'/'percall' class silently becomes per-session")
    # the creator the daemon will call is the one the application gave: the behavior decorator stores its argument itself (a callable object that happens to be falsy
    # is still a creator - `x or None` drops it)
    bsts = [st for st, t, k in stores_in(beh.node) if isinstance(t, ast.Attribute) and t.attr == "_pyroInstancing"]
    okc = len(bsts) == 1 and isinstance(bsts[0].value, ast.Tuple) and len(bsts[0].value.elts) == 2 and all(isinstance(e, ast.Name) for e in bsts[0].value.elts)
    if okc:
        outer = beh.parent
        outer_params = set(outer.params) if outer is not None else set()
        okc = all(e.id in outer_params and not any(isinstance(t2, ast.Name) and t2.id == e.id for st2, t2, k2 in stores_in(beh.node)) and
                  not (outer is not None and any(isinstance(t2, ast.Name) and t2.id == e.id for st2, t2, k2 in stores_in(outer.node))) for e in bsts[0].value.elts)
    R.check(okc, "C09-R5", "behavior|mode-and-creator-stored-as-given", "the behavior decorator stores exactly the (instance_mode, instance_creator) it was called with", beh.loc(bsts[0]) if bsts else beh.loc(),
            "`%s`: what is stored is not the decorator's own argument pair (e.g. `creator or None`): a falsy but callable creator is silently replaced and the daemon builds instances "
            "with clazz() instead" % (unparse(bsts[0]) if bsts else "no store of _pyroInstancing"))
    # who may set the instance mode of a class: the behavior decorator (the user's explicit choice) and register()'s guarded default, nobody else - any other writer
    # (a decorator that "establishes the default", a copy in a base-class hook) overrides what a subclass inherits
    writers = []
    for g in p.functions.values():
        if isinstance(g.node, ast.Lambda):
            continue
        for st, t, k in stores_in(g.node):
            if isinstance(t, ast.Attribute) and t.attr == "_pyroInstancing":
                writers.append((g, st))
        for c in [x for x in walk_no_nested(g.node) if isinstance(x, ast.Call) and isinstance(x.func, ast.Name) and x.func.id == "setattr" and len(x.args) == 3
                  and isinstance(x.args[1], ast.Constant) and x.args[1].value == "_pyroInstancing"]:
            writers.append((g, c))
    allowed_w = {"Pyro5.server.behavior._behavior", "Pyro5.server.Daemon.register"}
    stray = [(g, st) for g, st in writers if g.qualname not in allowed_w]
    R.check(not stray and {g.qualname for g, _ in writers} == allowed_w, "C09-R6", "instancing|who-may-write", "_pyroInstancing is written by the behavior decorator and by register()'s guarded default only",
            stray[0][0].loc(stray[0][1]) if stray else regf.loc(),
            ("%s stores _pyroInstancing (`%s`): a class that inherits its instance mode from a @behavior base gets this value instead" % (stray[0][0].qualname, unparse(stray[0][1])))
            if stray else "writers found: %s" % sorted(g.qualname for g, _ in writers))
    # else branch raises: function exit (fall-through) must not be reachable without return/raise
    ok = not any(e.kind != "exc" for e in cfg.exit.pred if e.src.id in cfg.live() and (e.src.kind != "stmt" or not isinstance(e.src.ast, ast.Return)))
    R.check(ok, "C09-R6", "modes|unknown-raises", "an unknown instance mode raises", f.loc(), "_getInstance can fall through and return None for an unknown mode")

    # the instance mode applies to exactly the registered classes: the dispatcher calls _getInstance under inspect.isclass(<registry value>)
    h = ctx.fn("Pyro5.server.Daemon.handleRequest")
    hcfg = ctx.cfg(h)
    gi = ctx.calls_to(h, "Pyro5.server.Daemon._getInstance")
    ok = len(gi) == 1
    why = "handleRequest no longer calls _getInstance exactly once"
    if ok:
        arg = unparse(gi[0].args[0]) if gi[0].args else None

        def is_class(want):
            def pred(atom, pol):
                return pol is want and isinstance(atom, ast.Call) and unparse(atom.func) in ("inspect.isclass", "isclass") and atom.args and unparse(atom.args[0]) == arg
            return pred
        ok = all(hcfg.guarded(n, lambda e: edge_has_fact(e, is_class(True))) for n in ctx.node_of(h, gi[0])) and not enclosing_loops(gi[0], h.node)
        why = "_getInstance is not called exactly for registry values that are classes (or it moved into the batch loop)"
    R.check(ok, "C09-R5", "handleRequest|getInstance-for-classes-only", "_getInstance(obj, conn) runs once per request, exactly when the registry value is a class", h.loc(gi[0]) if gi else h.loc(), why)

    # ---------------------------------------------------------------- R7
    from .common import fresh_per_instance
    fresh_per_instance(ctx, R, "C09-R7", "Pyro5.server.Daemon", "_pyroInstances", "every daemon in the process would serve 'single' classes from one shared instance table")
    fresh_per_instance(ctx, R, "C09-R7", "Pyro5.socketutil.SocketConnection", "pyroInstances", "all connections would share one 'session' instance table")
