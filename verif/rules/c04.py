"""C04 — Deserialisation builds only data and a fixed set of known classes."""
import ast
from ..engine.model import AnalysisError, dotted
from ..engine.context import unparse, enclosing_stmt, stores_in, names_in
from ..engine.cfg import stmt_exprs, walk_no_nested, calls_in, facts_of
from .c03 import edge_has_fact

EXPLANATION = (
    "Closed-world shape of the decoder. Decided: the set of functions reachable from every serializer's loads/loadsCall/hooks "
    "is computed over the typed call graph; in it every call is on an allow-list (plain-data constructors, the trusted "
    "decoders, Pyro's own URI/Proxy/Daemon placeholder/serializer/wrapper construction, logging) and no import/exec/IO "
    "primitive is reachable; the double-underscore refusal guards every constructing exit of dict_to_class except the "
    "registered-converter exit; class re-creation is top-down (members of a class-tagged dict reach dict_to_class as raw data) "
    "for every serializer; every dynamically chosen exception class comes from getattr on builtins/errors/sqlite3 under an "
    "issubclass guard, from the exception whitelist under a membership guard, or is struct.error; the whitelist is filled "
    "only by the two module-level loops over builtins and Pyro5.errors under issubclass filters; imports inside decode "
    "functions are limited to the package and sqlite3/marshal; msgpack extension records go through ext_hook (unknown codes refused); "
    'Also decided (round 9): Every attribute a Proxy method assigns on self is declared in Proxy.__pyroAttributes (otherwise __setstate__ connects while decoding). '
    'Also decided (round 10): The converter registries are never re-bound (one shared table per direction, edited in place). '
    "constructors reachable from the decoder do not inspect the values they wrap. Not decided: what the trusted third-party decoders can build, "
    "side effects of exception constructors."
)

ENTRY_METHODS = ("loads", "loadsCall", "object_hook", "ext_hook", "recreate_classes", "dict_to_class", "make_exception")

ALLOWED_EXT = {
    # plain data constructors / predicates
    "builtins.float", "builtins.int", "builtins.complex", "builtins.tuple", "builtins.set", "builtins.dict", "builtins.list", "builtins.bytes",
    "builtins.str", "builtins.type", "builtins.isinstance", "builtins.issubclass", "builtins.getattr", "builtins.setattr", "builtins.len",
    "builtins.hasattr", "builtins.super", "builtins.frozenset", "builtins.bool", "builtins.repr", "builtins.iter", "builtins.sorted",
    # trusted decoders and their helpers
    "serpent.loads", "json.loads", "marshal.loads", "msgpack.unpackb", "struct.unpack", "datetime.datetime.fromtimestamp", "datetime.date.fromordinal",
    # URI parsing, thread identity (Proxy.__setstate__), regex of the URI parser
    "re.match", "re.compile().match", "threading.get_ident", "greenlet.getcurrent", "object.__new__",
}
ALLOWED_EXT_PREFIX = ("logging.",)
ALLOWED_UNKNOWN_ATTRS = {
    "get", "decode", "startswith", "endswith", "split", "items", "tobytes", "upper", "strip", "partition", "group", "groups", "match", "append",
    "join", "format", "keys", "values", "lower", "encode",
    # methods of the builtin containers / strings (on an unresolved receiver these names are taken to be container operations)
    "discard", "add", "remove", "pop", "update", "extend", "copy", "clear", "setdefault", "insert", "sort", "index", "count", "find", "replace",
    "rstrip", "lstrip", "rsplit", "splitlines", "rpartition", "isdigit", "union", "intersection", "difference", "issubset", "issuperset",
}
ALLOWED_CTORS_PREFIX = ("Pyro5.errors.",)
DANGEROUS = ("builtins.__import__", "builtins.eval", "builtins.exec", "builtins.compile", "builtins.open", "importlib.", "os.", "subprocess.", "socket.",
             "pickle.", "shutil.", "ctypes.", "sys.modules", "runpy.", "builtins.globals", "builtins.locals", "builtins.vars")


def decode_set(ctx):
    p = ctx.p
    roots = []
    for c in [p.cls("Pyro5.serializers.SerializerBase")] + ctx.cg.serializer_classes():
        for m in ENTRY_METHODS:
            if m in c.methods:
                roots.append(c.methods[m])
    seen = {}
    work = list(roots)
    for r in roots:
        seen[r.qualname] = None
    while work:
        f = work.pop()
        for call, tgs in ctx.cg.calls_of(f):
            for t in tgs:
                if t.kind == "fn" and t.fn.qualname not in seen:
                    seen[t.fn.qualname] = (f, call)
                    work.append(t.fn)
    return roots, seen


def run(ctx, R, tier):
    p = ctx.p
    es = ctx.escape
    R.rule("C04-R1", "dict_to_class: every constructing exit except the registered-converter exit lies on the false edge of `\"__\" in classname`", floor=8)
    R.rule("C04-R2", "every dynamically chosen class that is instantiated comes from a class-checked lookup (issubclass-guarded getattr on builtins/errors/sqlite3, "
                     "membership-guarded whitelist entry, struct.error) or from the converter registry", floor=6)
    R.rule("C04-R3", "every call in the decode-reachable function set is on the allow-list; no import/exec/IO primitive is reachable", floor=14)
    R.rule("C04-R4", "class re-creation is top-down: members of a class-tagged dict reach dict_to_class as raw data, for every serializer", floor=5)
    R.rule("C04-R6", "msgpack extension records go through ext_hook, which refuses unknown codes; constructors reachable from the decoder do not inspect the values they wrap", floor=5)
    R.rule("C04-R5", "the exception whitelist is written only by the module-level loops over builtins / Pyro5.errors under issubclass filters", floor=3)

    roots, dset = decode_set(ctx)
    if len(dset) < 12:
        raise AnalysisError("decode-reachable function set smaller than expected (%d)" % len(dset))
    R.note("decode-reachable function set: " + ", ".join(sorted(q.split(".", 1)[1] for q in dset)))

    # ---------------------------------------------------------------- R5 (decided first: it does not depend on the shape of dict_to_class, so a restructured
    # decoder cannot keep a run-time writer of the whitelist from being reported)
    ser = p.module("Pyro5.serializers")
    loops = [st for st in ser.tree.body if isinstance(st, ast.For) and any(isinstance(x, ast.Subscript) and unparse(x.value) == "all_exceptions" and isinstance(x.ctx, ast.Store)
                                                                          for x in ast.walk(st))]
    if len(loops) < 2:
        raise AnalysisError("serializers.py: the module-level loops filling all_exceptions vanished")
    for lp in loops:
        src = unparse(lp.iter)
        ok_src = src in ("vars(builtins).items()", "vars(errors).items()")
        tests = [n.test for n in ast.walk(lp) if isinstance(n, ast.If)]
        ok_test = any(any(isinstance(x, ast.Call) and isinstance(x.func, ast.Name) and x.func.id == "issubclass" and len(x.args) == 2 and
                          unparse(x.args[1]) in ("BaseException", "errors.PyroError", "Exception") for x in ast.walk(t)) for t in tests)
        stores_guarded = all(any(_inside(x, i) for i in ast.walk(lp) if isinstance(i, ast.If)) for x in ast.walk(lp)
                             if isinstance(x, ast.Subscript) and isinstance(x.ctx, ast.Store))
        R.check(ok_src and ok_test and stores_guarded, "C04-R5", "all_exceptions|loop:%s" % src, "whitelist filled from builtins/errors under an issubclass filter",
                "%s:%d" % (ser.relpath, lp.lineno), "loop over `%s` fills the whitelist without an issubclass(BaseException|PyroError) filter" % src)
    writers = []
    for g in p.functions.values():
        for st, t, k in stores_in(g.node):
            base = t.value if isinstance(t, ast.Subscript) else t
            if unparse(base) in ("all_exceptions", "serializers.all_exceptions"):
                writers.append((g, st))
        for c, _ in ctx.cg.calls_of(g):
            if isinstance(c.func, ast.Attribute) and c.func.attr in ("setdefault", "update", "pop", "clear", "popitem", "__setitem__") and \
                    unparse(c.func.value) in ("all_exceptions", "serializers.all_exceptions"):
                writers.append((g, c))
    R.check(not writers, "C04-R5", "all_exceptions|no-runtime-writer", "no function writes the exception whitelist", ser.relpath,
            "%s modifies the whitelist at run time (`%s`): a tag refused once is accepted the next time" % (
                writers[0][0].qualname if writers else "", unparse(writers[0][1], 70) if writers else ""))

    # ---------------------------------------------------------------- R1
    dtc = ctx.fn("Pyro5.serializers.SerializerBase.dict_to_class")
    cfg = ctx.cfg(dtc)
    rd = ctx.rd(dtc)
    from .common import classname_defs
    cn_defs = classname_defs(dtc.node)
    if not cn_defs:
        raise AnalysisError("dict_to_class: `classname = data.get('__class__', ...)` vanished")
    cname = cn_defs[0].targets[0].id

    def no_dunder(atom, pol):
        return pol is False and isinstance(atom, ast.Compare) and len(atom.ops) == 1 and isinstance(atom.ops[0], ast.In) and \
            isinstance(atom.left, ast.Constant) and atom.left.value == "__" and unparse(atom.comparators[0]) == cname

    def in_registry(atom, pol):
        return pol is True and isinstance(atom, ast.Compare) and len(atom.ops) == 1 and isinstance(atom.ops[0], ast.In) and \
            unparse(atom.left) == cname and "dict_to_class_registry" in unparse(atom.comparators[0])
    rets = [n for n in cfg.nodes if n.kind == "stmt" and isinstance(n.ast, ast.Return)]
    if len(rets) < 8:
        raise AnalysisError("dict_to_class: fewer return statements than expected (%d)" % len(rets))
    for i, n in enumerate(sorted(rets, key=lambda n: n.lineno)):
        key = "dict_to_class|return:%s" % unparse(n.ast.value, 40)
        if cfg.guarded(n, lambda e: edge_has_fact(e, in_registry)):
            v = n.ast.value
            ok = isinstance(v, ast.Call) and isinstance(v.func, ast.Name) and \
                all(d.kind == "assign" and isinstance(d.value, ast.Subscript) and "dict_to_class_registry" in unparse(d.value.value)
                    for d in rd.reaching(n, v.func.id)) and bool(rd.reaching(n, v.func.id))
            R.check(ok, "C04-R1", key, "registered-converter exit: the callee is the registry entry for this tag", dtc.loc(n.ast),
                    "the exit under the registry-membership test calls something else than the registered converter")
            continue
        R.check(cfg.guarded(n, lambda e: edge_has_fact(e, no_dunder)), "C04-R1", key, "exit is reachable only after the double-underscore refusal", dtc.loc(n.ast),
                "`%s` can be reached for a class tag containing '__' (dunder names give access to interpreter internals)" % unparse(n.ast, 60))
    raises = [n for n in cfg.nodes if n.kind == "stmt" and isinstance(n.ast, ast.Raise) and isinstance(n.ast.exc, ast.Call) and
              es.class_of_expr(n.ast.exc.func, dtc) == "Pyro5.errors.SecurityError"]

    def dunder_true(atom, pol):
        return pol is True and isinstance(atom, ast.Compare) and len(atom.ops) == 1 and isinstance(atom.ops[0], ast.In) and \
            isinstance(atom.left, ast.Constant) and atom.left.value == "__"
    R.check(bool(raises) and all(cfg.guarded(n, lambda e: edge_has_fact(e, dunder_true)) for n in raises), "C04-R1", "dict_to_class|dunder-raises-SecurityError",
            "a tag with a double underscore raises SecurityError", dtc.loc(), "the double-underscore refusal no longer raises SecurityError")
    fallthrough = [e for e in cfg.exit.pred if not (e.src.kind == "stmt" and isinstance(e.src.ast, ast.Return))]
    R.check(not fallthrough, "C04-R1", "dict_to_class|unknown-tag-raises", "an unknown class tag ends in a raise, never in an implicit None", dtc.loc(),
            "dict_to_class can fall through and return None for an unknown tag")

    # ---------------------------------------------------------------- R2
    me = ctx.fn("Pyro5.serializers.SerializerBase.make_exception")
    dyn_sites = []
    for q in dset:
        f = p.functions[q]
        for call, tgs in ctx.cg.calls_of(f):
            if any(t.kind == "dyn" for t in tgs):
                dyn_sites.append((f, call))
    ok_sites = 0
    for f, call in dyn_sites:
        nm = unparse(call.func)
        key = "%s|dynamic-call:%s" % (f.qualname.split(".", 2)[2], nm)
        if f is dtc and isinstance(call.func, ast.Name):
            defs = [d for n in ctx.node_of(f, call) for d in rd.reaching(n, call.func.id)]
            if defs and all(d.kind == "assign" and isinstance(d.value, ast.Subscript) and "dict_to_class_registry" in unparse(d.value.value) for d in defs):
                R.ok("C04-R2", key, "converter taken from the opt-in registry", f.loc(call))
                ok_sites += 1
                continue
        if f is me and isinstance(call.func, ast.Name) and call.func.id == me.params[0]:
            R.ok("C04-R2", key, "exception class parameter: every call site is checked below", f.loc(call))
            ok_sites += 1
            continue
        if f.qualname.endswith("custom_serializer") or f.qualname.endswith("serpent_converter"):
            continue
        R.fail("C04-R2", key, "dynamic call in the decode path is one of the sanctioned forms", f.loc(call),
               "`%s(...)` instantiates/calls a value chosen at run time that is neither the registered converter nor a class-checked exception type" % nm)
    sites = ctx.cg.callers_of(me.qualname)
    if len(sites) < 5:
        raise AnalysisError("make_exception: fewer call sites than expected (%d)" % len(sites))
    for i, (g, c) in enumerate(sorted(sites, key=lambda x: x[1].lineno)):
        a = c.args[0] if c.args else None
        gcfg = ctx.cfg(g)
        grd = ctx.rd(g)
        key = "make_exception-site|%s" % unparse(a, 40)
        ok = False
        why = "unrecognised exception class expression `%s`" % unparse(a)
        if isinstance(a, ast.Attribute) and es.class_of_expr(a, g) == "ext:struct.error":
            ok = True
        elif isinstance(a, ast.Subscript) and unparse(a.value) == "all_exceptions":
            keyv = unparse(a.slice)

            def member(atom, pol):
                return pol is True and isinstance(atom, ast.Compare) and len(atom.ops) == 1 and isinstance(atom.ops[0], ast.In) and \
                    unparse(atom.left) == keyv and unparse(atom.comparators[0]) == "all_exceptions"
            ok = all(gcfg.guarded(n, lambda e: edge_has_fact(e, member)) for n in ctx.node_of(g, c))
            why = "whitelist lookup is not behind `%s in all_exceptions`" % keyv
        elif isinstance(a, ast.Name):
            var = a.id
            defs = [d for n in ctx.node_of(g, c) for d in grd.reaching(n, var)]
            good_src = bool(defs) and all(
                d.kind == "assign" and isinstance(d.value, ast.Call) and isinstance(d.value.func, ast.Name) and d.value.func.id == "getattr"
                and len(d.value.args) == 2 and isinstance(d.value.args[0], ast.Name) and
                (ctx.p.resolve_dotted(g.module, d.value.args[0].id, g) or (None, ""))[1] in ("builtins", "Pyro5.errors", "sqlite3")
                for d in defs)

            def subclass_checked(atom, pol):
                return pol is True and isinstance(atom, ast.Call) and isinstance(atom.func, ast.Name) and atom.func.id == "issubclass" and \
                    len(atom.args) == 2 and unparse(atom.args[0]) == var and \
                    es.class_of_expr(atom.args[1], g) in ("builtins.BaseException", "builtins.Exception", "Pyro5.errors.PyroError")
            guarded = all(gcfg.guarded(n, lambda e: edge_has_fact(e, subclass_checked)) for n in ctx.node_of(g, c))
            ok = good_src and guarded
            if not good_src:
                why = "`%s` is not obtained by a plain getattr on builtins / Pyro5.errors / sqlite3 (defs: %s)" % (
                    var, [unparse(d.value, 50) if d.value is not None else d.kind for d in defs])
            else:
                why = "`%s` is instantiated without an `issubclass(%s, BaseException|PyroError)` guard on the way: any attribute of the namespace " \
                      "(functions like open/eval, arbitrary classes) would be called with peer-chosen arguments" % (var, var)
        R.check(ok, "C04-R2", key, "exception type passed to make_exception is class-checked", g.loc(c), why)

    # ---------------------------------------------------------------- R3
    n_calls = 0
    ser_classes = {c.qualname for c in ctx.cg.serializer_classes()}     # Pyro's own serializer types are part of the closed set
    for q in sorted(dset):
        f = p.functions[q]
        fbad = []
        raise_calls = {id(n.exc) for n in walk_no_nested(f.node) if isinstance(n, ast.Raise) and n.exc is not None}
        for call, tgs in ctx.cg.calls_of(f):
            n_calls += 1
            for t in tgs:
                if t.kind == "fn":
                    continue        # inside the set by construction
                if t.kind == "ctor":
                    if id(call) in raise_calls or t.name.startswith(ALLOWED_CTORS_PREFIX) or t.name in ser_classes:
                        continue
                    fbad.append((call, "constructs %s" % t.name))
                elif t.kind == "ext":
                    nm = t.name
                    if nm.startswith(DANGEROUS):
                        fbad.append((call, "reaches the import/exec/IO primitive %s" % nm))
                    elif nm in ALLOWED_EXT or nm.startswith(ALLOWED_EXT_PREFIX) or nm.rsplit(".", 1)[-1] in ALLOWED_UNKNOWN_ATTRS or nm.endswith(".__new__"):
                        continue
                    elif nm.startswith("builtins.") and nm.split(".")[1] not in ("input", "breakpoint", "help", "print", "memoryview", "super", "classmethod", "staticmethod", "property"):
                        continue     # data-only builtins (int.from_bytes, bytes.fromhex, min, max, ...); the dangerous ones were refused above
                    elif id(call) in raise_calls:
                        continue
                    else:
                        fbad.append((call, "calls %s, which is not on the decoder's allow-list" % nm))
                elif t.kind == "unknown":
                    nm = (t.name or "")
                    if nm.startswith("attr:") and nm[5:] in ALLOWED_UNKNOWN_ATTRS | {"__setstate__", "__getstate__"}:
                        continue
                    fbad.append((call, "unresolved call `%s`" % unparse(call.func)))
                # dyn: handled by R2
        key = "decode-fn|%s" % q.split(".", 1)[1]
        if fbad:
            via = dset[q]
            R.fail("C04-R3", key, "every call is on the decoder's allow-list", f.loc(fbad[0][0]),
                   "%s (reached from the decoder%s)" % ("; ".join("%s at %s" % (w, f.loc(c)) for c, w in fbad[:3]),
                                                         " via %s" % via[0].loc(via[1]) if via else " directly"))
        else:
            R.ok("C04-R3", key, "all calls allowed", f.loc())
        for n in walk_no_nested(f.node):
            if isinstance(n, (ast.Import, ast.ImportFrom)):
                names = [a.name for a in n.names] if isinstance(n, ast.Import) else [n.module or ""]
                internal = isinstance(n, ast.ImportFrom) and n.level > 0
                okimp = internal or all(x in ("sqlite3", "marshal") or x.startswith("Pyro5") for x in names)
                R.check(okimp, "C04-R3", "decode-import|%s|%s" % (q.split(".", 1)[1], ",".join(names) or "."), "import inside a decode function is package-internal or sqlite3/marshal",
                        f.loc(n), "decoding imports `%s`" % unparse(n))

    # ---------------------------------------------------------------- R4
    rc = ctx.fn("Pyro5.serializers.SerializerBase.recreate_classes")
    rcfg = ctx.cfg(rc)
    lit = rc.params[1]
    dcalls = [c for c, _ in ctx.cg.calls_of(rc) if isinstance(c.func, ast.Attribute) and c.func.attr == "dict_to_class"]
    ok = len(dcalls) == 1 and dcalls[0].args and unparse(dcalls[0].args[0]) == lit
    why = "dict_to_class is not handed the parameter itself"
    if ok:
        # the argument must be the raw parameter: no reaching definition of `literal` other than the parameter
        rrd = ctx.rd(rc)
        for n in ctx.node_of(rc, dcalls[0]):
            if any(d.kind != "param" for d in rrd.reaching(n, lit)):
                ok = False
                why = "the dict handed to dict_to_class was rebuilt (its members already re-created) before the class tag was looked at"
        # and no recursive recreate_classes call may precede it on the path
        rec = [n for c in ctx.calls_to(rc, rc.qualname) for n in ctx.node_of(rc, c)]
        dn = ctx.node_of(rc, dcalls[0])
        if ok and any(rcfg.path_exists([r], lambda x: x in dn) for r in rec):
            ok = False
            why = "members are re-created before the enclosing class-tagged dict is handed to dict_to_class (bottom-up): a nested Proxy/exception dict " \
                  "is a live object when the outer __setstate__/constructor touches it"
    R.check(ok, "C04-R4", "recreate_classes|top-down", "a class-tagged dict is handed to dict_to_class raw, before any member is re-created", rc.loc(), why)
    for c in ctx.cg.serializer_classes():
        for mname in ("loads", "loadsCall"):
            m = c.methods.get(mname)
            if m is None:
                raise AnalysisError("%s.%s vanished" % (c.qualname, mname))
            hooks = []
            for call, tgs in ctx.cg.calls_of(m):
                for kw in call.keywords:
                    if kw.arg in ("object_hook", "object_pairs_hook"):
                        hooks.append(call)
            R.check(not hooks, "C04-R4", "%s.%s|no-bottom-up-hook" % (c.name, mname), "the library decoder is not given a per-dict hook (it would convert innermost dicts first)",
                    m.loc(hooks[0]) if hooks else m.loc(),
                    "`%s` converts class-tagged dicts bottom-up: a tagged dict nested in another one's state is already a live object when the outer one is built"
                    % (unparse(hooks[0], 70) if hooks else ""))

    # ---------------------------------------------------------------- R6
    mp = p.cls("Pyro5.serializers.MsgpackSerializer")
    n_un = 0
    for mname in ("loads", "loadsCall"):
        m_ = mp.methods[mname]
        for call, tgs in ctx.cg.calls_of(m_):
            if any(t.kind == "ext" and t.name == "msgpack.unpackb" for t in tgs):
                n_un += 1
                kw = {k.arg: unparse(k.value) for k in call.keywords}
                R.check(kw.get("ext_hook") == "self.ext_hook", "C04-R6", "MsgpackSerializer.%s|ext_hook" % mname, "msgpack extension records are decoded by the class's own ext_hook (unknown codes are refused)",
                        m_.loc(call), "msgpack.unpackb is called without ext_hook=self.ext_hook: extension records reach the application as raw msgpack.ExtType objects and unknown codes are accepted")
    if n_un < 2:
        raise AnalysisError("MsgpackSerializer: msgpack.unpackb calls vanished")
    eh = mp.methods["ext_hook"]
    ecfg = ctx.cfg(eh)
    last = eh.node.body[-1]
    R.check(isinstance(last, ast.Raise), "C04-R6", "MsgpackSerializer.ext_hook|unknown-code-raises", "an unknown extension code raises", eh.loc(), "ext_hook can return for an unknown extension code")
    for q in sorted(dset):
        g = p.functions[q]
        if g.name not in ("__init__", "__setstate__") or g.cls is None:
            continue
        prm = [x for x in g.params if x != g.self_name]
        badx = []
        for n in walk_no_nested(g.node):
            if isinstance(n, ast.Call) and isinstance(n.func, ast.Name) and n.func.id in ("getattr", "hasattr", "setattr") and n.args and isinstance(n.args[0], ast.Name) and n.args[0].id in prm:
                badx.append(n)
            elif isinstance(n, ast.Attribute) and isinstance(n.value, ast.Name) and n.value.id in prm and isinstance(n.ctx, ast.Load) and not n.attr.startswith("__"):
                badx.append(n)
        if g.qualname in ("Pyro5.core.URI.__init__",):
            continue      # URI(uri) copies another URI through its state methods
        R.check(not badx, "C04-R6", "ctor-inert|%s" % q.split(".", 1)[1], "a constructor/state setter reachable from the decoder only stores or converts its argument", g.loc(),
                "`%s` looks attributes up on a decoded value: if that value is a Proxy the lookup fetches metadata, i.e. decoding opens a connection to a peer-chosen address" % (unparse(badx[0]) if badx else ""))

    # the converter registries are ONE table each, created in the class body of SerializerBase and edited in place: a classmethod that assigns `cls.<registry> = <copy>`
    # creates a private table on whatever subclass it was called through - that table shadows the shared one from then on, and a later unregister through the api
    # (which edits the base table) no longer reaches the serializer that keeps building the application's class for the tag
    sb = p.cls("Pyro5.serializers.SerializerBase")
    regs = [k for k in sb.class_attrs if k.endswith("_registry")]
    if len(regs) < 2:
        raise AnalysisError("SerializerBase: the converter registries vanished from the class body")
    rebinds = []
    for g in [x for x in p.functions.values() if x.module.name == "Pyro5.serializers" and not isinstance(x.node, ast.Lambda)]:
        for st, t, k in stores_in(g.node):
            if isinstance(t, ast.Attribute) and t.attr.endswith("_registry") and k in ("assign", "aug"):
                rebinds.append((g, st))
    R.check(not rebinds, "C04-R5", "converter-registries|one-shared-table-edited-in-place", "the class-to-dict / dict-to-class registries are never re-bound (only their entries change)",
            rebinds[0][0].loc(rebinds[0][1]) if rebinds else sb.module.relpath,
            ("`%s` in %s replaces the registry object: called through a serializer subclass it leaves that subclass with its own copy, and an unregister through the base class / "
             "Pyro5.api no longer removes the converter the default serializer uses" % (unparse(rebinds[0][1], 70), rebinds[0][0].name)) if rebinds else "")
    # Proxy.__setattr__ sends every name that is not in Proxy.__pyroAttributes to the REMOTE object (metadata fetch = connect): an attribute that a Proxy method
    # assigns on self must be declared there, or restoring / copying a proxy opens a connection - for __setstate__, while a message is being decoded
    px = p.cls("Pyro5.client.Proxy")
    declared = set()
    for k_, v_ in px.class_attrs.items():
        if k_.endswith("__pyroAttributes"):
            for x in ast.walk(v_):
                if isinstance(x, ast.Constant) and isinstance(x.value, str):
                    declared.add(x.value)
    if len(declared) < 10:
        raise AnalysisError("Proxy.__pyroAttributes: the declaration of the proxy's own attribute names vanished")
    undeclared = []
    for mname, m in sorted(px.methods.items()):
        if m.self_name is None:
            continue
        for st, t, k in stores_in(m.node):
            if isinstance(t, ast.Attribute) and isinstance(t.value, ast.Name) and t.value.id == m.self_name:
                nm = t.attr
                from ..engine.model import mangle
                if nm not in declared and mangle("Proxy", nm) not in declared and not (nm.startswith("__") and nm.endswith("__")):
                    undeclared.append((m, st, nm))
    R.check(not undeclared, "C04-R6", "Proxy|own-attributes-declared", "every attribute a Proxy method assigns on self is listed in Proxy.__pyroAttributes (%d names)" % len(declared),
            undeclared[0][0].loc(undeclared[0][1]) if undeclared else px.module.relpath,
            ("Proxy.%s assigns self.%s, which is not in __pyroAttributes: Proxy.__setattr__ treats it as an attribute of the remote object, fetches the metadata and so connects to the "
             "location in the proxy's uri - in __setstate__ that happens while a peer's message is being decoded" % (undeclared[0][0].name, undeclared[0][2])) if undeclared else "")

    # a dict is class-tagged when it HAS the tag key, whatever the tag's value: recreate_classes must dispatch on key membership (a falsy tag is still a tag, and must be rejected)
    rcf = ctx.fn("Pyro5.serializers.SerializerBase.recreate_classes")
    rcfg_ = ctx.cfg(rcf)
    lit_ = rcf.params[1]
    d2c_calls = [n for c, _ in ctx.cg.calls_of(rcf) if isinstance(c.func, ast.Attribute) and c.func.attr == "dict_to_class" for n in ctx.node_of(rcf, c)]

    def has_tag(want):
        def pred(atom, pol):
            if isinstance(atom, ast.Compare) and len(atom.ops) == 1 and isinstance(atom.left, ast.Constant) and atom.left.value == "__class__" and unparse(atom.comparators[0]) == lit_:
                return (isinstance(atom.ops[0], ast.In) and pol is want) or (isinstance(atom.ops[0], ast.NotIn) and pol is (not want))
            return False
        return pred
    plain = [n for n in rcfg_.nodes if n.kind in ("stmt", "for") and any(isinstance(c, ast.Call) and isinstance(c.func, ast.Attribute) and c.func.attr == "items" and unparse(c.func.value) == lit_
                                                                          for e_ in stmt_exprs(n) for c in ast.walk(e_))]
    ok = bool(d2c_calls) and all(rcfg_.guarded(n, lambda e: edge_has_fact(e, has_tag(True))) for n in d2c_calls) and \
        bool(plain) and all(rcfg_.guarded(n, lambda e: edge_has_fact(e, has_tag(False))) for n in plain)
    R.check(ok, "C04-R1", "recreate_classes|dispatch-on-key-membership", "a dict goes to dict_to_class exactly when it contains the key '__class__'; only dicts without it are passed on as data",
            rcf.loc(), "the class-tag test in recreate_classes is not a membership test of the key: a dict whose tag is falsy ('', None, 0, ...) is returned as ordinary data instead of being rejected")


def _inside(node, container):
    n = node
    while n is not None:
        if n is container:
            return True
        n = getattr(n, "_parent", None)
    return False
