"""C06 — Wire messages decode to exactly what was encoded; nothing else decodes."""
import ast
import re
import struct
from ..engine.model import AnalysisError, dotted, fold
from ..engine.context import unparse, enclosing_stmt, stores_in, names_in, enclosing_loops
from ..engine.cfg import walk_no_nested, calls_in, facts_of, no_exc
from .c03 import edge_has_fact

EXPLANATION = (
    "Decided: encoder and decoder use one header format constant, _header_size is its calcsize, packed values = unpacked "
    "targets = fields of the format (11) and field i is packed and unpacked in the same role; every hard-coded offset/size "
    "(validate's slices, the 6-byte prefix read, the chunk-header 4/8) equals what the format strings imply and chunk lengths "
    "are decoded unsigned; the receiver's size check and identity check dominate normal construction, recv_stub parses the "
    "header before it reads the body and reads exactly annotations_size+data_size; the sender's size check is made on the "
    "payload that is actually packed (after compression) and dominates packing; the length check, the declared-length cursor "
    "advance and the exact-tiling check dominate the payload store; the compression flag is set iff the payload was replaced "
    "by its compressed form and cleared on decode; the byte reader underneath returns exactly the requested bytes (shared with C17). "
    'Also decided: the encoder checks annotation id width and value type before packing; recv_stub reads and validates the prefix first. '
    "arbitrary byte strings as a whole."
    'Also decided (round 9): Header packing through pack_into is read as a pack site and must target memory of the message itself, not a module-level buffer; a precompiled struct.Struct is read as its format. '
    "Not decided: zlib round trip, all fragmentations (C17), acceptance of "
)

PROTO = "Pyro5.protocol"


def fmt_fields(fmt):
    """[(count, code)] for a struct format with a byte-order prefix"""
    body = fmt[1:] if fmt[:1] in "@=<>!" else fmt
    return [(int(n) if n else 1, c) for n, c in re.findall(r"(\d*)([a-zA-Z?])", body)]


def field_offsets(fmt):
    prefix = fmt[0] if fmt[:1] in "@=<>!" else ""
    toks = re.findall(r"\d*[a-zA-Z?]", fmt[len(prefix):])
    offs = []
    for i in range(len(toks) + 1):
        offs.append(struct.calcsize(prefix + "".join(toks[:i])))
    return [(offs[i], offs[i + 1]) for i in range(len(toks))]


def run(ctx, R, tier):
    p = ctx.p
    es = ctx.escape
    mod = p.module(PROTO)
    R.rule("C06-R1", "one header layout: same format constant packed and unpacked, _header_size = calcsize, value/target/field counts agree", floor=3)
    R.rule("C06-R2", "positional role agreement of the 11 header fields between encoder and decoder", floor=11)
    R.rule("C06-R3", "hard-coded offsets and sizes equal what the format strings imply; chunk lengths are decoded unsigned", floor=6)
    R.rule("C06-R4", "size checks: receiver check dominates construction and precedes the body read; sender checks the payload it packs", floor=4)
    R.rule("C06-R5", "exact tiling: payload length check, declared-length cursor advance, cursor == annotations_size before the data store; body read is exact", floor=4)
    R.rule("C06-R6", "identity check (tag, version, magic) dominates normal construction; the 6-byte prefix is validated before the rest is read", floor=2)
    R.rule("C06-R8", "the byte reader underneath recv_stub returns exactly the requested bytes and never reads past them (shared with C17-R1/R5)", floor=4)
    R.rule("C06-R7", "compression: flag set iff the payload was replaced by zlib.compress output; decompress guarded by the flag, flag cleared after", floor=2)

    snd = ctx.fn(PROTO + ".SendingMessage.__init__")
    rcv = ctx.fn(PROTO + ".ReceivingMessage.__init__")
    addp = ctx.fn(PROTO + ".ReceivingMessage.add_payload")
    val = ctx.fn(PROTO + ".ReceivingMessage.validate")
    rs = ctx.fn(PROTO + ".recv_stub")
    scfg, rcfg, acfg = ctx.cfg(snd), ctx.cfg(rcv), ctx.cfg(addp)

    # ---------------------------------------------------------------- R1
    packs = [c for c, _ in ctx.cg.calls_of(snd) if ctx.ext_name(c, snd) == "struct.pack"]
    # struct.pack_into(fmt, buffer, offset, v...) packs the same fields; it is looked at as struct.pack(fmt, v...) plus an obligation on the buffer (below)
    into_sites = [c for c, _ in ctx.cg.calls_of(snd) if ctx.ext_name(c, snd) == "struct.pack_into" and len(c.args) >= 3]
    for c in into_sites:
        syn = ast.Call(func=ast.Attribute(value=ast.Name(id="struct", ctx=ast.Load()), attr="pack", ctx=ast.Load()), args=[c.args[0]] + list(c.args[3:]), keywords=[])
        ast.copy_location(syn, c)
        syn._parent = getattr(c, "_parent", None)
        syn._pack_into = c
        packs.append(syn)
    shared_buf = None
    for c in into_sites:
        b = c.args[1]
        base = b
        while isinstance(base, (ast.Attribute, ast.Subscript, ast.Call)):
            base = base.value if not isinstance(base, ast.Call) else base.func
        if isinstance(base, ast.Name) and not ctx.cg.is_local(snd, base.id):
            shared_buf = c
    R.check(shared_buf is None, "C06-R2", "encoder|packs-into-its-own-memory", "the header is packed into memory that belongs to this message (not into a module-level buffer)",
            snd.loc(shared_buf) if shared_buf is not None else snd.loc(),
            "`%s` packs the header into an object shared by every message: two threads building messages at the same time overwrite each other's header before it is joined "
            "into the message - type, flags, sequence number and lengths of another message go out" % (unparse(shared_buf, 60) if shared_buf is not None else ""))
    unpacks = [c for c, _ in ctx.cg.calls_of(rcv) if ctx.ext_name(c, rcv) == "struct.unpack"]
    hdr_pack = [c for c in packs if c.args and ctx.resolves_to_object(c.args[0], snd, PROTO + "._header_format")]
    hdr_unpack = [c for c in unpacks if c.args and ctx.resolves_to_object(c.args[0], rcv, PROTO + "._header_format")]
    R.check(len(hdr_pack) == 1 and len(hdr_unpack) == 1, "C06-R1", "header|same-format-constant", "the header is packed and unpacked with the same format constant",
            snd.loc(), "header pack sites using _header_format: %d, unpack sites: %d" % (len(hdr_pack), len(hdr_unpack)))
    okf, fmt = fold(p, mod, mod.constants.get("_header_format")) if "_header_format" in mod.constants else (False, None)
    if not okf or not isinstance(fmt, str):
        raise AnalysisError("protocol._header_format is not a constant string")
    oks, hsize = fold(p, mod, mod.constants.get("_header_size")) if "_header_size" in mod.constants else (False, None)
    hs_expr = mod.constants.get("_header_size")
    R.check(oks and hsize == struct.calcsize(fmt) and isinstance(hs_expr, ast.Call) and dotted(hs_expr.func) == "struct.calcsize" and
            unparse(hs_expr.args[0]) == "_header_format", "C06-R1", "header|size-is-calcsize", "_header_size = struct.calcsize(_header_format)", mod.relpath,
            "_header_size (%s) is not computed from the header format (%s bytes)" % (hsize, struct.calcsize(fmt)))
    fields = fmt_fields(fmt)
    nfields = len(fields)
    if not hdr_pack or not hdr_unpack:
        raise AnalysisError("header pack/unpack sites vanished")
    pack_vals = hdr_pack[0].args[1:]
    ust = enclosing_stmt(hdr_unpack[0])
    targets = ust.targets[0].elts if isinstance(ust, ast.Assign) and isinstance(ust.targets[0], ast.Tuple) else []
    R.check(len(pack_vals) == len(targets) == nfields, "C06-R1", "header|counts", "packed values = unpack targets = fields of the format (%d)" % nfields,
            snd.loc(hdr_pack[0]), "packed %d, unpacked %d, format has %d fields" % (len(pack_vals), len(targets), nfields))

    # ---------------------------------------------------------------- R2
    if len(pack_vals) == len(targets) == 11:
        enc_attr = {}
        for st, t, k in stores_in(snd.node):
            if k == "assign" and isinstance(t, ast.Attribute) and unparse(t.value) == "self" and isinstance(st.value, ast.Name):
                enc_attr.setdefault(st.value.id, set()).add(t.attr)
        roles = ["magic-tag", "version", "type", "serializer_id", "flags", "seq", "data_size", "annotations_size", "corr_id", "reserved", "magic-number"]
        const_roles = {0: None, 1: PROTO + ".PROTOCOL_VERSION", 10: PROTO + "._magic_number"}
        for i, role in enumerate(roles):
            pv, tg = pack_vals[i], targets[i]
            ok = False
            why = "field %d (%s): encoder packs `%s`, decoder stores it into `%s`" % (i, role, unparse(pv), unparse(tg))
            if i in const_roles:
                # the constant packed must be the constant the decoder compares the unpacked local with
                cmp_ok = False
                for n in walk_no_nested(rcv.node):
                    if isinstance(n, ast.Compare) and len(n.ops) == 1 and isinstance(n.ops[0], (ast.NotEq, ast.Eq)) and unparse(tg) in (unparse(n.left), unparse(n.comparators[0])):
                        other = n.comparators[0] if unparse(n.left) == unparse(tg) else n.left     # symmetric: either operand order
                        if const_roles[i] is None:
                            cmp_ok = isinstance(other, ast.Constant) and isinstance(pv, ast.Constant) and other.value == pv.value
                        else:
                            cmp_ok = ctx.resolves_to_object(other, rcv, const_roles[i]) and ctx.resolves_to_object(pv, snd, const_roles[i])
                ok = cmp_ok
            elif role == "reserved":
                ok = isinstance(pv, ast.Constant) and pv.value == 0 and isinstance(tg, ast.Name)
            elif role == "data_size":
                ok = isinstance(pv, ast.Call) and isinstance(pv.func, ast.Name) and pv.func.id == "len" and unparse(tg) == "self.data_size"
                if ok:
                    # the measured buffer is the one appended as the message body
                    datast = [st for st, t, k in stores_in(snd.node) if unparse(t) == "self.data"]
                    ok = bool(datast) and unparse(pv.args[0]) in names_in(datast[-1].value)
            elif role == "annotations_size":
                ok = isinstance(pv, ast.Name) and unparse(tg) == "self.annotations_size"
                if ok:
                    srd0 = ctx.rd(snd)
                    defs0 = [d for pn in ctx.node_of(snd, hdr_pack[0]) for d in srd0.reaching(pn, pv.id)]
                    ok = bool(defs0) and all(d.kind == "assign" and d.value is not None and any(isinstance(x, ast.Call) and unparse(x.func) == "sum" for x in ast.walk(d.value))
                                             for d in defs0)
            elif role == "corr_id":
                ok = unparse(pv) == "self.corr_id" and unparse(tg) == "self.corr_id"
            else:
                ok = isinstance(pv, ast.Name) and isinstance(tg, ast.Attribute) and unparse(tg.value) == "self" and \
                    (tg.attr in enc_attr.get(pv.id, set()) or tg.attr == pv.id or (role == "type" and tg.attr == "type"))
                if role == "flags":
                    ok = isinstance(pv, ast.Name) and pv.id == "flags" and unparse(tg) == "self.flags"
            R.check(ok, "C06-R2", "header-field#%d:%s" % (i, role), "packed and unpacked in the same role", snd.loc(hdr_pack[0]), why)
    else:
        raise AnalysisError("header no longer has 11 fields: the role table of C06-R2 must be re-confirmed")

    # the correlation id travels exactly when the sender has one: the flag bit and the 16 id bytes are set together, on the edge where the context's id is set,
    # and the all-zero id (no flag) on the other - a message that carries the id without the flag, or the flag with the zero id, decodes to another id than was sent
    def has_id(want):
        def pred(atom, pol):
            return pol is want and unparse(atom).endswith("current_context.correlation_id")
        return pred
    cflag = [st for st, t, k in stores_in(snd.node) if k == "aug" and isinstance(st.op, ast.BitOr) and ctx.resolves_to_object(st.value, snd, PROTO + ".FLAGS_CORR_ID")]
    cstores = [st for st, t, k in stores_in(snd.node) if k == "assign" and unparse(t) == "self.corr_id"]
    real = [st for st in cstores if "current_context.correlation_id" in unparse(st.value)]
    zero = [st for st in cstores if st not in real]
    okc = len(cflag) == 1 and len(real) == 1 and len(zero) >= 1 and \
        all(scfg.guarded(n, lambda e: edge_has_fact(e, has_id(True))) for st in cflag + real for n in scfg.nodes_for(st)) and \
        all(scfg.guarded(n, lambda e: edge_has_fact(e, has_id(False))) for st in zero for n in scfg.nodes_for(st))
    R.check(okc, "C06-R2", "encoder|correlation-id-and-its-flag-go-together", "FLAGS_CORR_ID and the id bytes are set on the edge where the context has a correlation id, the zero id on the other",
            snd.loc(cflag[0]) if cflag else snd.loc(),
            "the correlation-id flag and the id bytes are no longer selected by `if current_context.correlation_id`: a request is sent without the id its caller set (the server "
            "makes up another one), or with a flag that announces an id that is all zeros")

    # ---------------------------------------------------------------- R3
    offs = field_offsets(fmt)
    expect = {PROTO + "._protocol_version_bytes": offs[1], PROTO + "._magic_number_bytes": offs[10]}
    found = {}
    for n in walk_no_nested(val.node):
        if isinstance(n, ast.Compare) and len(n.ops) == 1 and isinstance(n.ops[0], (ast.Eq, ast.NotEq)):
            for sl, other in ((n.left, n.comparators[0]), (n.comparators[0], n.left)):      # symmetric: either operand order
                if not (isinstance(sl, ast.Subscript) and isinstance(sl.slice, ast.Slice)):
                    continue
                for q in expect:
                    if ctx.resolves_to_object(other, val, q):
                        lo = ctx.const(sl.slice.lower, val) if sl.slice.lower is not None else (True, 0)
                        hi = ctx.const(sl.slice.upper, val) if sl.slice.upper is not None else (False, None)
                        found[q] = (lo[1], hi[1], n)
    for q, (lo_e, hi_e) in expect.items():
        got = found.get(q)
        R.check(got is not None and (got[0], got[1]) == (lo_e, hi_e), "C06-R3", "validate|slice:%s" % q.rsplit(".", 1)[1],
                "slice compared with %s is the field's byte range [%d:%d]" % (q.rsplit(".", 1)[1], lo_e, hi_e), val.loc(got[2]) if got else val.loc(),
                "validate compares bytes [%s:%s] with %s, but the header format puts that field at [%d:%d]" % (
                    got[0] if got else "?", got[1] if got else "?", q.rsplit(".", 1)[1], lo_e, hi_e))
    for q, expr_name in ((PROTO + "._protocol_version_bytes", "PROTOCOL_VERSION"), (PROTO + "._magic_number_bytes", "_magic_number")):
        nm = q.rsplit(".", 1)[1]
        okb, vb = fold(p, mod, mod.constants[nm]) if nm in mod.constants else (False, None)
        okv, vv = fold(p, mod, mod.constants[expr_name]) if expr_name in mod.constants else (False, None)
        R.check(okb and okv and vb == vv.to_bytes(2, "big"), "C06-R3", "constant|%s" % nm, "%s is the big-endian 2-byte form of %s" % (nm, expr_name), mod.relpath,
                "%s = %r does not encode %s = %r the way the '!H' header field does" % (nm, vb, expr_name, vv))
    recvs = sorted(ctx.calls_to(rs, "Pyro5.socketutil.SocketConnection.recv"), key=lambda c: c.lineno)
    if len(recvs) not in (2, 3):
        raise AnalysisError("recv_stub: expected 3 recv calls")
    ok1, n1 = ctx.const(recvs[0].args[0], rs)
    ok2, n2 = ctx.const(recvs[1].args[0], rs) if len(recvs) == 3 else (False, None)
    R.check(len(recvs) == 3 and ok1 and ok2 and n1 == offs[1][1] and n1 + n2 == struct.calcsize(fmt), "C06-R3", "recv_stub|prefix+rest=header",
            "first read ends after the version field (%d bytes), the two reads sum to the header size" % offs[1][1], rs.loc(recvs[0]),
            "recv_stub reads %s + %s bytes for a %d byte header whose version field ends at %d" % (n1, n2, struct.calcsize(fmt), offs[1][1]))
    chunk_packs = [c for c in packs if c not in hdr_pack]
    if len(chunk_packs) != 1:
        raise AnalysisError("SendingMessage: expected one annotation chunk header pack")
    okc, cfmt = ctx.const(chunk_packs[0].args[0], snd)
    if not okc:
        raise AnalysisError("annotation chunk header format is not constant")
    csize = struct.calcsize(cfmt)
    coffs = field_offsets(cfmt)
    sums = [n for n in walk_no_nested(snd.node) if isinstance(n, ast.BinOp) and isinstance(n.op, ast.Add) and isinstance(n.left, ast.Constant)
            and isinstance(n.right, ast.Call) and unparse(n.right.func) == "len"]
    R.check(bool(sums) and all(s.left.value == csize for s in sums), "C06-R3", "encoder|chunk-overhead", "the encoder counts %d bytes of header per annotation chunk" % csize,
            snd.loc(sums[0]) if sums else snd.loc(), "annotations_size is summed with a per-chunk overhead that differs from calcsize(%r) = %d" % (cfmt, csize))
    # the encoder refuses annotation ids that do not fill the fixed id field, and values that are not bytes-like (their len() would not be their byte count)
    scfg = ctx.cfg(snd)
    cp = chunk_packs[0]
    idexpr = None
    for a in cp.args[1:]:
        for n in ast.walk(a):
            if isinstance(n, ast.Name) and idexpr is None:
                idexpr = n.id
    idw = int(coffs[0][1])

    def id_fits(atom, pol):
        if isinstance(atom, ast.Compare) and len(atom.ops) == 1 and isinstance(atom.left, ast.Call) and unparse(atom.left.func) == "len" and atom.left.args \
                and unparse(atom.left.args[0]) == idexpr and isinstance(atom.comparators[0], ast.Constant) and atom.comparators[0].value == idw:
            return (isinstance(atom.ops[0], ast.NotEq) and pol is False) or (isinstance(atom.ops[0], ast.Eq) and pol is True)
        return False
    ok = idexpr is not None and all(scfg.guarded(n, lambda e: edge_has_fact(e, id_fits)) for n in ctx.node_of(snd, cp))
    R.check(ok, "C06-R3", "encoder|annotation-id-width-checked", "a chunk header is packed only for an id of exactly %d characters" % idw, snd.loc(cp),
            "annotation ids of another length than %d are packed (struct pads or truncates them): the receiver decodes a different id than the sender was given" % idw)
    lens = [c for c in walk_no_nested(cp) if isinstance(c, ast.Call) and unparse(c.func) == "len" and c.args and isinstance(c.args[0], ast.Name) and c.args[0].id != idexpr]
    valexpr = lens[0].args[0].id if lens else None

    def bytes_like(atom, pol):
        if isinstance(atom, ast.Call) and unparse(atom.func) == "isinstance" and len(atom.args) == 2 and unparse(atom.args[0]) == valexpr:
            return pol is True
        return False
    appends = [n for c, _ in ctx.cg.calls_of(snd) if isinstance(c.func, ast.Attribute) and c.func.attr == "append" and c.args and unparse(c.args[0]) == valexpr
               for n in ctx.node_of(snd, c)]
    ok = valexpr is not None and bool(appends) and all(scfg.guarded(n, lambda e: edge_has_fact(e, bytes_like)) for n in appends)
    R.check(ok, "C06-R3", "encoder|annotation-value-bytes-like", "an annotation value is written only after it was found to be bytes-like", snd.loc(cp),
            "annotation values of any type are joined into the message: the declared chunk length (len(v)) need not be the number of bytes written")
    # len(v) is the byte count only for byte-sized items: memoryviews with a larger item size are re-cast (or measured with nbytes) before any size is taken
    casts = [c for c in walk_no_nested(snd.node) if isinstance(c, ast.Call) and isinstance(c.func, ast.Attribute) and c.func.attr == "cast" and c.args
             and isinstance(c.args[0], ast.Constant) and c.args[0].value in ("B", "b", "c")]
    nbytes = [x for x in walk_no_nested(snd.node) if isinstance(x, ast.Attribute) and x.attr == "nbytes"]
    okm = bool(nbytes)
    if casts and sums:
        cn = [n for c in casts for n in ctx.node_of(snd, c)]
        sn = [n for x in sums for n in scfg.nodes_for(enclosing_stmt(x))]
        okm = all(any(scfg.dominates(a, b) for a in cn) for b in sn)
    R.check(okm, "C06-R3", "encoder|annotation-sizes-are-byte-counts", "memoryview values are reduced to byte items (or measured with nbytes) before annotations_size is summed", snd.loc(),
            "annotation sizes are taken with len() of whatever was given: for a memoryview over multi-byte items len() counts items, so the header declares fewer bytes than are written and "
            "the receiver refuses the sender's own message")
    # ... for EVERY memoryview whose items are wider than a byte: the cast is selected by `isinstance(v, memoryview)` (optionally narrowed by `v.itemsize != 1`), nothing else
    for c in casts:
        par = getattr(c, "_parent", None)
        tst = par.test if isinstance(par, ast.IfExp) and par.body is c else None
        if tst is None:
            st_if = enclosing_stmt(c)
            anc = getattr(st_if, "_parent", None)
            tst = anc.test if isinstance(anc, ast.If) and st_if in anc.body else None
        recv = unparse(c.func.value)
        parts = tst.values if isinstance(tst, ast.BoolOp) and isinstance(tst.op, ast.And) else [tst] if tst is not None else []

        def _is_mv(e):
            return isinstance(e, ast.Call) and unparse(e.func) == "isinstance" and len(e.args) == 2 and unparse(e.args[0]) == recv and "memoryview" in unparse(e.args[1])

        def _wide(e):
            return isinstance(e, ast.Compare) and len(e.ops) == 1 and unparse(e.left) == recv + ".itemsize" and isinstance(e.comparators[0], ast.Constant) and e.comparators[0].value == 1 \
                and isinstance(e.ops[0], (ast.NotEq, ast.Gt))
        okc = bool(parts) and any(_is_mv(x) for x in parts) and all(_is_mv(x) or _wide(x) for x in parts)
        R.check(okc, "C06-R3", "encoder|every-wide-memoryview-is-recast", "the byte cast is applied under isinstance(v, memoryview) [and v.itemsize != 1] and under nothing else", snd.loc(c),
                "the cast to byte items is selected by `%s`: memoryviews over multi-byte items that this test lets through are measured by item count - the header declares fewer "
                "annotation bytes than are written and the receiver rejects the sender's own message" % (unparse(tst, 70) if tst is not None else "no test at all"))
    lits = sorted({n.value for st in addp.node.body for w in walk_no_nested(st) if isinstance(w, ast.While)
                   for n in ast.walk(w) if isinstance(n, ast.Constant) and isinstance(n.value, int) and not isinstance(n.value, bool)})
    R.check(set(lits) <= {coffs[0][1], csize} and csize in lits, "C06-R3", "decoder|chunk-literals", "the decoder's chunk walk uses only the offsets %d and %d" % (coffs[0][1], csize),
            addp.loc(), "integer literals %s in the annotation walk do not match calcsize(%r): id ends at %d, header is %d bytes" % (lits, cfmt, coffs[0][1], csize))
    # unsigned decoding of the chunk length
    len_code = fmt_fields(cfmt)[1][1]
    ok = len_code in "BHILQN"
    why = "encoder packs chunk lengths with signed code %r" % len_code
    dec_ok = False
    for n in walk_no_nested(addp.node):
        if isinstance(n, ast.Call) and unparse(n.func) == "int.from_bytes":
            signed = any(k.arg == "signed" and not (isinstance(k.value, ast.Constant) and k.value.value is False) for k in n.keywords)
            bo = n.args[1] if len(n.args) > 1 else None
            if not signed and isinstance(bo, ast.Constant) and bo.value == "big" and cfmt[:1] in "!>":
                dec_ok = True
            else:
                why = "chunk length decoded with `%s` (signed or wrong byte order)" % unparse(n)
        elif isinstance(n, ast.Call) and dotted(n.func) in ("struct.unpack", "struct.unpack_from") and n.args:
            okd, dfmt = ctx.const(n.args[0], addp)
            if okd and dfmt == cfmt:
                dec_ok = True
            elif okd:
                why = "chunk header decoded with format %r but encoded with %r (a length >= 2**31 becomes negative: the cursor stops advancing)" % (dfmt, cfmt)
    R.check(ok and dec_ok, "C06-R3", "decoder|chunk-length-unsigned", "chunk lengths are decoded as the unsigned big-endian field the encoder writes", addp.loc(), why)

    # ---------------------------------------------------------------- R4
    def size_side(atom):
        """(checked size expression, polarity under which the size exceeds the limit) for `LIMIT < size` (the canonical reading of `size > LIMIT`) and for
        `size <= LIMIT` (the same decision written from the accepting side)"""
        if isinstance(atom, ast.Compare) and len(atom.ops) == 1:
            if isinstance(atom.ops[0], ast.Lt) and unparse(atom.left) == "config.MAX_MESSAGE_SIZE":
                return atom.comparators[0], True
            if isinstance(atom.ops[0], ast.LtE) and unparse(atom.comparators[0]) == "config.MAX_MESSAGE_SIZE":
                return atom.left, False
        return None, None

    def too_large(side_ok):
        def pred(atom, pol):
            sz, exceeds = size_side(atom)
            if sz is not None:
                return pol is (side_ok if exceeds else (not side_ok))
            return False
        return pred
    R.check(rcfg.guarded(rcfg.exit, lambda e: edge_has_fact(e, too_large(False))), "C06-R4", "receiver|size-check-dominates",
            "a ReceivingMessage is constructed only on the false edge of size > MAX_MESSAGE_SIZE", rcv.loc(),
            "a header declaring more than MAX_MESSAGE_SIZE bytes is accepted")
    from ..engine.guards import strip_not

    def size_atoms(test):
        return [a for a, pl in facts_of(test, True) + facts_of(test, False) if size_side(a)[0] is not None]
    size_tests = [n for n in rcfg.nodes if n.kind == "test" and size_atoms(n.ast.test)]
    ok = bool(size_tests)
    if ok:
        left = size_side(size_atoms(size_tests[0].ast.test)[0])[0]
        ok = left is not None and {unparse(x) for x in ast.walk(left) if isinstance(x, ast.Attribute)} >= {"self.data_size", "self.annotations_size"}
    R.check(ok, "C06-R4", "receiver|checks-sum", "the receiver compares data_size + annotations_size with the limit", rcv.loc(),
            "the receiver's size check does not cover both length fields")
    ctor = ctx.calls_to(rs, rcv.qualname)
    rscfg = ctx.cfg(rs)
    body_nodes = ctx.node_of(rs, recvs[-1])
    ok = len(ctor) == 1 and all(any(rscfg.dominates(x, b) for x in ctx.node_of(rs, ctor[0])) for b in body_nodes)
    R.check(ok, "C06-R4", "recv_stub|header-before-body", "the header is parsed (and size-checked) before any body byte is read", rs.loc(recvs[-1]),
            "recv_stub reads the body before the header's declared sizes were checked")
    s_tests = [n for n in scfg.nodes if n.kind == "test" and size_atoms(n.ast.test)]
    pack_nodes = ctx.node_of(snd, hdr_pack[0])
    ok = bool(s_tests) and all(scfg.guarded(pn, lambda e: edge_has_fact(e, too_large(False))) for pn in pack_nodes)
    R.check(ok, "C06-R4", "sender|size-check-dominates-pack", "the header is packed only on the false edge of total_size > MAX_MESSAGE_SIZE", snd.loc(),
            "an over-limit message can be packed and sent")
    ok = False
    why = "no sender size check"
    if s_tests:
        srd = ctx.rd(snd)
        t = s_tests[0]
        sz = size_side(size_atoms(t.ast.test)[0])[0]
        ok = True
        why = ""
        # every variable the checked size derives from must have the same reaching definitions at the check and at the pack
        var_chain = set()
        for nm in names_in(sz):
            var_chain.add(nm)
            for d in srd.reaching(t, nm):
                if d.value is not None and d.kind == "assign":
                    var_chain |= names_in(d.value)
        var_chain -= set(snd.params) - {snd.params[5]}   # parameters other than the payload cannot be redefined meaningfully
        for pn in pack_nodes:
            for nm in sorted(var_chain):
                at_check_def = None
                # definitions of nm seen by the statement that computed the checked size
                for d in srd.reaching(t, [x for x in names_in(sz)][0]) if False else []:
                    pass
                d_check = {d.id for d in srd.reaching(t, nm)}
                # use the node that defines the checked variable (total_size = ...) if any
                for nm2 in names_in(sz):
                    for d in srd.reaching(t, nm2):
                        if d.node is not None and d.kind == "assign" and nm in names_in(d.value):
                            d_check = {x.id for x in srd.reaching(d.node, nm)}
                d_pack = {d.id for d in srd.reaching(pn, nm)}
                if d_check != d_pack:
                    ok = False
                    why = "`%s` is redefined between the size check and the packing of the header (e.g. compression after the check): the size that was " \
                          "checked is not the size that is sent" % nm
    R.check(ok, "C06-R4", "sender|checked-size-is-sent-size", "the checked size is computed from the payload that is packed", snd.loc(), why)

    # ---------------------------------------------------------------- R5
    def len_mismatch(pol_want):
        def pred(atom, pol):
            if isinstance(atom, ast.Compare) and len(atom.ops) == 1 and isinstance(atom.left, ast.Call) and unparse(atom.left.func) == "len":
                right = {unparse(x) for x in ast.walk(atom.comparators[0]) if isinstance(x, ast.Attribute)}
                if right >= {"self.data_size", "self.annotations_size"}:
                    if isinstance(atom.ops[0], ast.NotEq):
                        return pol is pol_want
                    if isinstance(atom.ops[0], ast.Eq):
                        return pol is (not pol_want)
            return False
        return pred
    data_stores = [n for st, t, k in stores_in(addp.node) if unparse(t) == "self.data" for n in acfg.nodes_for(st)]
    if len(data_stores) < 2:
        raise AnalysisError("add_payload: self.data stores vanished")
    ok = all(acfg.guarded(n, lambda e: edge_has_fact(e, len_mismatch(False))) for n in data_stores)
    R.check(ok, "C06-R5", "add_payload|length-check", "the payload is stored only if len(payload) == data_size + annotations_size", addp.loc(),
            "a payload whose length differs from the header's declared sizes is accepted")
    loops = [n for n in walk_no_nested(addp.node) if isinstance(n, ast.While)]
    ok = len(loops) == 1
    why = "annotation walk loop vanished"
    if ok:
        lp = loops[0]
        cursor = unparse(lp.test.left) if isinstance(lp.test, ast.Compare) else None
        incs = [n for n in walk_no_nested(lp) if isinstance(n, ast.AugAssign) and unparse(n.target) == cursor and isinstance(n.op, ast.Add)]
        ard = ctx.rd(addp)
        ok = len(incs) == 1
        why = "cursor increment vanished"
        if ok:
            v = incs[0].value
            parts = [v.left, v.right] if isinstance(v, ast.BinOp) and isinstance(v.op, ast.Add) else []
            consts = [x for x in parts if isinstance(x, ast.Constant)]
            namesv = [x for x in parts if isinstance(x, ast.Name)]
            ok = len(consts) == 1 and consts[0].value == csize and len(namesv) == 1
            why = "the cursor advances by `%s`, not by %d + the declared chunk length" % (unparse(v), csize)
            if ok:
                node = acfg.nodes_for(incs[0])[0]
                defs = ard.reaching(node, namesv[0].id)
                ok = bool(defs) and all(d.kind == "assign" and isinstance(d.value, ast.Call) and
                                        (unparse(d.value.func) == "int.from_bytes" or dotted(d.value.func) in ("struct.unpack", "struct.unpack_from")) for d in defs)
                why = "the cursor advances by the size of what was sliced (`%s`), not by the length declared in the chunk header: an over-long last chunk " \
                      "is silently clamped and still tiles" % ", ".join(unparse(d.value, 40) if d.value is not None else d.kind for d in defs)

        def tiled(atom, pol):
            if isinstance(atom, ast.Compare) and len(atom.ops) == 1 and {unparse(atom.left), unparse(atom.comparators[0])} == {cursor, "self.annotations_size"}:
                return (isinstance(atom.ops[0], ast.Eq) and pol is True) or (isinstance(atom.ops[0], ast.NotEq) and pol is False)
            return False
        ann_store = [n for st, t, k in stores_in(addp.node) if unparse(t) == "self.data" and "annotations_size" in unparse(st.value) for n in acfg.nodes_for(st)]
        ok2 = bool(ann_store) and all(acfg.guarded(n, lambda e: edge_has_fact(e, tiled)) for n in ann_store)
        R.check(ok2, "C06-R5", "add_payload|exact-tiling", "data is taken only after the chunk cursor was checked to equal annotations_size", addp.loc(),
                "annotation chunks that do not tile the annotations region exactly are accepted")
    R.check(ok, "C06-R5", "add_payload|declared-length-advance", "the chunk cursor advances by header size + declared length", addp.loc(), why)
    barg = recvs[-1].args[0]
    ok = isinstance(barg, ast.BinOp) and isinstance(barg.op, ast.Add) and {unparse(barg.left).split(".")[-1], unparse(barg.right).split(".")[-1]} == {"annotations_size", "data_size"}
    R.check(ok, "C06-R5", "recv_stub|exact-body-read", "the body read asks for exactly annotations_size + data_size bytes", rs.loc(recvs[-1]),
            "recv_stub reads `%s` bytes of body" % unparse(barg))

    # ---------------------------------------------------------------- R6
    def ident(name_idx, const_q):
        tg = unparse(targets[name_idx])

        def pred(atom, pol):
            if isinstance(atom, ast.Compare) and len(atom.ops) == 1 and tg in (unparse(atom.left), unparse(atom.comparators[0])):
                return (isinstance(atom.ops[0], ast.NotEq) and pol is False) or (isinstance(atom.ops[0], ast.Eq) and pol is True)
            return False
        return pred
    ok = all(rcfg.guarded(rcfg.exit, lambda e, i=i: edge_has_fact(e, ident(i, None))) for i in (0, 1, 10))
    R.check(ok, "C06-R6", "receiver|identity-check", "normal construction only if tag, version and magic number all match", rcv.loc(),
            "a header with a wrong tag, protocol version or magic number is accepted")
    vcalls = ctx.calls_to(rs, val.qualname)
    ok = len(recvs) == 3 and len(vcalls) == 1 and all(any(rscfg.dominates(v, r) for v in ctx.node_of(rs, vcalls[0])) for r in ctx.node_of(rs, recvs[1]))
    R.check(ok, "C06-R6", "recv_stub|validate-prefix-first", "the 6-byte prefix is validated before the rest of the header is read", rs.loc(),
            "recv_stub keeps reading from a peer whose first bytes are not a Pyro header")

    # ---------------------------------------------------------------- R8 (shared with C17-R1/R3)
    from ..report import Rules
    from ..report import run_shared as _run_shared
    from . import c17
    R17 = Rules("C17")
    try:
        _run_shared(ctx, c17, R17, tier)
    except AnalysisError as _shared_x:
        # the other property's own anchors are gone on this tree: its check reports that; what it produced before is still shared
        R.note("obligations shared from C17 are incomplete on this tree: %s" % _shared_x)
    for o in R17.obs:
        if o.rule in ("C17-R1", "C17-R5") or (o.rule == "C17-R3" and o.key.split("|")[1] == "receive_data"):
            R.add("C06-R8", o.key.split("|", 1)[1], o.desc + " (recv_stub relies on it to consume exactly this message's bytes)", o.ok, o.loc, o.detail)

    # ---------------------------------------------------------------- R7
    comp = [st for st, t, k in stores_in(snd.node) if k == "assign" and isinstance(t, ast.Name) and isinstance(st.value, ast.Call) and dotted(st.value.func) == "zlib.compress"]
    flagset = [st for st, t, k in stores_in(snd.node) if k == "aug" and isinstance(st.op, ast.BitOr) and ctx.resolves_to_object(st.value, snd, PROTO + ".FLAGS_COMPRESSED")]
    ok = len(comp) == 1 and len(flagset) == 1
    why = "%d compress assignments, %d flag stores" % (len(comp), len(flagset))
    if ok:
        cnode = scfg.nodes_for(comp[0])
        fnode = scfg.nodes_for(flagset[0])
        # flag store iff compressed payload is used: each dominates... they must be in the same block: same set of guards
        same = all(scfg.dominates(c, f_) or scfg.dominates(f_, c) for c in cnode for f_ in fnode)
        pvar = comp[0].targets[0].id
        srd = ctx.rd(snd)
        # at the flag store the payload must be the compressed one
        ok = same and all(all(d.node is not None and d.node.ast is comp[0] for d in srd.reaching_out(f_, pvar)) for f_ in fnode) and \
            all(scfg.path_exists([c], lambda n: n in fnode, edge_ok=no_exc) or scfg.path_exists(fnode, lambda n: n is c, edge_ok=no_exc) for c in cnode)
        why = "FLAGS_COMPRESSED can be set although the payload that is sent is not the zlib.compress output (the receiver then fails to decompress)"
        if ok:
            # and whenever the compressed payload is used, the flag store is passed: compress node -> pack must pass flag store
            ok = scfg.all_paths_pass(cnode, lambda n: n in fnode, edge_ok=no_exc, targets=pack_nodes) and \
                all(comp[0].value.args and unparse(comp[0].value.args[0]) == pvar for _ in [0])
            why = "setting FLAGS_COMPRESSED and sending the zlib.compress output are not tied to the same condition: the flag can be set on an uncompressed payload or a compressed payload can go out without the flag (the receiver then fails to decode the value)"
        clear = [st for st, t, k in stores_in(snd.node) if k == "aug" and isinstance(st.op, ast.BitAnd) and "FLAGS_COMPRESSED" in unparse(st.value)]
        if ok and not (clear and all(scfg.dominates(x, f_) for x in scfg.nodes_for(clear[0]) for f_ in fnode)):
            ok = False
            why = "a FLAGS_COMPRESSED bit passed in by the caller is not cleared before the codec decides"
    R.check(ok, "C06-R7", "encoder|flag-iff-compressed", "FLAGS_COMPRESSED is set exactly when the payload was replaced by its compressed form", snd.loc(), why)
    dec = [n for c, _ in ctx.cg.calls_of(addp) if ctx.ext_name(c, addp) == "zlib.decompress" for n in ctx.node_of(addp, c)]

    def compressed_true(atom, pol):
        return pol is True and isinstance(atom, ast.BinOp) and isinstance(atom.op, ast.BitAnd) and \
            any(ctx.resolves_to_object(x, addp, PROTO + ".FLAGS_COMPRESSED") for x in (atom.left, atom.right))
    clr = [n for st, t, k in stores_in(addp.node) if k == "aug" and isinstance(st.op, ast.BitAnd) and "FLAGS_COMPRESSED" in unparse(st.value) for n in acfg.nodes_for(st)]
    ok = bool(dec) and all(acfg.guarded(n, lambda e: edge_has_fact(e, compressed_true)) for n in dec) and bool(clr) and \
        acfg.all_paths_pass(dec, lambda n: n in clr, edge_ok=no_exc)
    R.check(ok, "C06-R7", "decoder|decompress-iff-flag", "decompression happens exactly under the flag and the flag is cleared afterwards", addp.loc(),
            "decompression is not tied to FLAGS_COMPRESSED, or the flag stays set on the decoded message")
