"""C19 — URIs have one canonical text form that parses back to the same URI (printer/parser agreements, eq/hash consistency)."""
import ast
import re
from ..engine.model import AnalysisError, dotted
from ..engine.context import unparse, enclosing_stmt, stores_in, names_in
from ..engine.cfg import walk_no_nested, calls_in, facts_of, no_exc
from .c03 import edge_has_fact

EXPLANATION = (
    "Thin by nature (stated as such): the language-level round trip over all strings is a statement about a regex and int() "
    "and is not decided. Decided: URI.__eq__ and __hash__ both derive from __getstate__ (or compare every state field); "
    "__getstate__ returns and __setstate__ unpacks the same five fields in the same order; Proxy state element i is restored "
    "from index i, with the URI travelling as str(uri) and re-parsed by core.URI; no field that enters the hashed tuple is "
    "assigned an unhashable container; the unix-socket prefix, its slice offset, the location separator and the bracket rule "
    "agree between printer and parser, the printer uses constant format strings only and emits the fields verbatim, ports are parsed with int(); strings are stored "
    "by the name server exactly as given; for every field whose truthiness the "
    "printer uses to choose the text form the parser rejects the falsy value; the name server stores text and re-parses on lookup. "
    'Also decided: a blank PYROMETA tag set is rejected; tags are joined with the separator they are split on; the sqlite storage writes the given uri on every path. '
    'Also decided (round 10): The wire form of a URI/Proxy/Daemon carries __getstate__() unchanged; the parser stores the object part exactly as matched; the broadcast responder and locate_ns use one codec; set_metadata rewrites an entry under the lock hold it read it in (shared from C15). '
    'Also decided (round 9): lookup builds the returned URI from the entry read in that call, not from state kept on the name server. '
    'Also decided (round 12): Replacing an entry on the sqlite back-end is one transaction (shared from C14/C15). '
    'Also decided (round 11): Empty PYROMETA tags never enter the tag set; __str__ joins the tag set exactly on the PYROMETA branch; the broadcast responder edits a copy of the uri made for the datagram. '
)

U = "Pyro5.core.URI"


def self_attrs(expr):
    return [n.attr for n in ast.walk(expr) if isinstance(n, ast.Attribute) and isinstance(n.value, ast.Name) and n.value.id == "self"]


def enclosing_if_test(node):
    """test of the innermost `if` whose body/orelse contains node (None if there is none inside the function)"""
    cur = getattr(node, "_parent", None)
    while cur is not None and not isinstance(cur, (ast.FunctionDef, ast.AsyncFunctionDef, ast.Lambda)):
        if isinstance(cur, ast.If):
            return cur.test
        cur = getattr(cur, "_parent", None)
    return None


def run(ctx, R, tier):
    p = ctx.p
    R.rule("C19-R1", "eq and hash derive from one state; getstate/setstate agree on fields and order (URI and Proxy)", floor=5)
    R.rule("C19-R2", "no field of the hashed state tuple is assigned an unhashable container", floor=5)
    R.rule("C19-R3", "printer/parser constants agree: unix-socket prefix and offset, location separator, bracket rule, integer ports", floor=5)
    R.rule("C19-R4", "presence agreement: a field whose truthiness the printer uses is never accepted falsy by the parser", floor=2)
    R.rule("C19-R5", "the name server stores URI text and re-parses it on lookup", floor=2)

    uri = p.cls(U)
    gs, ss = ctx.fn(U + ".__getstate__"), ctx.fn(U + ".__setstate__")
    eq, hs = ctx.fn(U + ".__eq__"), ctx.fn(U + ".__hash__")
    loc, st_, init, pl = ctx.fn(U + ".location"), ctx.fn(U + ".__str__"), ctx.fn(U + ".__init__"), ctx.fn(U + "._parseLocation")

    # ---------------------------------------------------------------- R1
    ret = [n for n in walk_no_nested(gs.node) if isinstance(n, ast.Return)]
    if len(ret) != 1 or not isinstance(ret[0].value, ast.Tuple):
        raise AnalysisError("URI.__getstate__ does not return a tuple display")
    fields = [unparse(e).split(".", 1)[1] if unparse(e).startswith("self.") else None for e in ret[0].value.elts]
    if None in fields or len(fields) != 5:
        raise AnalysisError("URI.__getstate__: state is not the five self.<field> values: %s" % fields)
    asg = [n for n in walk_no_nested(ss.node) if isinstance(n, ast.Assign) and isinstance(n.targets[0], ast.Tuple)]
    got = [unparse(e).split(".", 1)[1] for e in asg[0].targets[0].elts] if asg else []
    R.check(got == fields and asg and unparse(asg[0].value) == ss.params[1], "C19-R1", "URI|getstate-setstate-order", "__setstate__ unpacks the fields __getstate__ returns, in the same order",
            ss.loc(), "__getstate__ returns %s, __setstate__ unpacks %s" % (fields, got))
    hret = [n for n in walk_no_nested(hs.node) if isinstance(n, ast.Return)]
    ok = len(hret) == 1 and unparse(hret[0].value) == "hash(self.__getstate__())"
    R.check(ok, "C19-R1", "URI|hash-from-state", "__hash__ hashes the state tuple", hs.loc(), "__hash__ is `%s`" % (unparse(hret[0].value) if hret else "?"))
    cmp_state = any(isinstance(n, ast.Compare) and len(n.ops) == 1 and isinstance(n.ops[0], ast.Eq) and
                    {unparse(n.left), unparse(n.comparators[0])} == {"self.__getstate__()", "%s.__getstate__()" % eq.params[1]} for n in walk_no_nested(eq.node))
    compared = set()
    for n in walk_no_nested(eq.node):
        if isinstance(n, ast.Compare):
            for x in [n.left] + n.comparators:
                if isinstance(x, ast.Attribute) and isinstance(x.value, ast.Name) and x.value.id == "self":
                    compared.add(x.attr)
    ok = cmp_state or set(fields) <= compared
    R.check(ok, "C19-R1", "URI|eq-covers-state", "__eq__ compares the whole state that __hash__ hashes", eq.loc(),
            "__eq__ ignores %s: URIs that differ only there compare equal although their hashes (and the objects they designate) differ" % sorted(set(fields) - compared))
    isin = any(isinstance(n, ast.Call) and isinstance(n.func, ast.Name) and n.func.id == "isinstance" and dotted(n.args[1]) == "URI" for n in walk_no_nested(eq.node))
    R.check(isin, "C19-R1", "URI|eq-type-check", "__eq__ is False for non-URI objects", eq.loc(), "__eq__ no longer checks the type of the other object")
    pg, ps = ctx.fn("Pyro5.client.Proxy.__getstate__"), ctx.fn("Pyro5.client.Proxy.__setstate__")
    pret = [n for n in walk_no_nested(pg.node) if isinstance(n, ast.Return)]
    if len(pret) != 1 or not isinstance(pret[0].value, ast.Tuple):
        raise AnalysisError("Proxy.__getstate__ does not return a tuple display")
    elts = pret[0].value.elts
    roles = []
    for e in elts:
        a = self_attrs(e)
        roles.append(a[0] if a else None)
    restored = {}
    for n in walk_no_nested(ps.node):
        if isinstance(n, ast.Assign) and isinstance(n.targets[0], ast.Attribute) and unparse(n.targets[0].value) == "self":
            for x in ast.walk(n.value):
                if isinstance(x, ast.Subscript) and unparse(x.value) == ps.params[1] and isinstance(x.slice, ast.Constant):
                    restored[x.slice.value] = n.targets[0].attr
    ok = all(restored.get(i) == r for i, r in enumerate(roles)) and len(roles) == 6
    R.check(ok, "C19-R1", "Proxy|getstate-setstate-index", "Proxy state element i is restored into the attribute it was taken from", ps.loc(),
            "saved %s, restored %s" % (roles, [restored.get(i) for i in range(len(roles))]))
    ok = unparse(elts[0]) == "str(self._pyroUri)" and any(
        isinstance(n, ast.Assign) and unparse(n.targets[0]) == "self._pyroUri" and isinstance(n.value, ast.Call) and
        ctx.resolves_to_object(n.value.func, ps, U) for n in walk_no_nested(ps.node))
    R.check(ok, "C19-R1", "Proxy|uri-as-text", "the proxy state carries the URI as text and re-parses it with core.URI", pg.loc(),
            "the proxy's URI does not travel as str(uri) / is not re-parsed")

    ph, pe = ctx.fn("Pyro5.client.Proxy.__hash__"), ctx.fn("Pyro5.client.Proxy.__eq__")
    hr = [n for n in walk_no_nested(ph.node) if isinstance(n, ast.Return)]
    okh = len(hr) == 1 and unparse(hr[0].value) == "hash(self._pyroUri)"
    oke = any(isinstance(n, ast.Compare) and len(n.ops) == 1 and isinstance(n.ops[0], ast.Eq) and
              {unparse(n.left), unparse(n.comparators[0])} == {"self._pyroUri", "%s._pyroUri" % pe.params[1]} for n in walk_no_nested(pe.node))
    R.check(okh and oke, "C19-R1", "Proxy|eq-hash-from-uri", "proxies compare and hash by their URI", ph.loc(), "Proxy.__eq__/__hash__ no longer derive from the proxy's URI")

    # the state tuple is what __eq__, __hash__ and __setstate__ work on: the one helper that puts a pyro object (URI, Proxy, Daemon) on the wire hands it over as
    # __getstate__ returned it. A helper that "normalises" it (sorts the tag set of a PYROMETA uri into a list, converts elements) delivers a URI that is unequal to the
    # one that was sent on the serializers that carry the original types
    spo = ctx.fn("Pyro5.serializers.serialize_pyro_object_to_dict")
    rets = [n for n in walk_no_nested(spo.node) if isinstance(n, ast.Return)]
    state_v = None
    if len(rets) == 1 and isinstance(rets[0].value, ast.Dict):
        for k, v in zip(rets[0].value.keys, rets[0].value.values):
            if isinstance(k, ast.Constant) and k.value == "state":
                state_v = v
    if state_v is None:
        raise AnalysisError("serialize_pyro_object_to_dict no longer returns a dict display with a 'state' entry")
    if isinstance(state_v, ast.Name):
        defs = [st.value for st, t, k in stores_in(spo.node) if isinstance(t, ast.Name) and t.id == state_v.id and k == "assign"]
        if len(defs) == 1:
            state_v = defs[0]
    R.check(unparse(state_v) == "%s.__getstate__()" % spo.params[0], "C19-R1", "wire|state-travels-as-__getstate__-returned-it", "the class-to-dict helper of URI/Proxy/Daemon ships obj.__getstate__() unchanged",
            spo.loc(rets[0]), "the 'state' entry is `%s`: what __setstate__ receives is not what __getstate__ produced - e.g. the tag set of a PYROMETA uri arrives as a sorted list, "
            "and the received URI is unequal to the sent one (and `uri.object & tags` fails) on serializers that do carry sets" % unparse(state_v, 90))

    # the broadcast answer of the name server is its URI as text in a datagram: the responder's codec must be the one locate_ns decodes with, or every character
    # outside ASCII in the location (unix socket path, object name) arrives as different characters and the located name server is another uri
    bs = ctx.fn("Pyro5.nameserver.BroadcastServer.processRequest")
    lns = ctx.fn("Pyro5.core.locate_ns")
    import codecs

    def codec_of(c, default):
        a = c.args[0] if c.args else next((k.value for k in c.keywords if k.arg == "encoding"), None)
        if a is None:
            return default
        if isinstance(a, ast.Constant) and isinstance(a.value, str):
            try:
                return codecs.lookup(a.value).name
            except LookupError:
                return "?" + a.value
        return "?" + unparse(a, 40)
    enc = {codec_of(c, "utf-8") for c in walk_no_nested(bs.node) if isinstance(c, ast.Call) and isinstance(c.func, ast.Attribute) and c.func.attr == "encode"}
    received = set()
    for st, t, k in stores_in(lns.node):
        if isinstance(t, ast.Name) and isinstance(getattr(st, "value", None), ast.Call) and isinstance(st.value.func, ast.Attribute) and st.value.func.attr in ("recvfrom", "recv"):
            tg = st.targets[0] if isinstance(st, ast.Assign) else None
            if isinstance(tg, ast.Tuple) and tg.elts and isinstance(tg.elts[0], ast.Name):
                received.add(tg.elts[0].id)
            elif isinstance(tg, ast.Name):
                received.add(tg.id)
    dec = {codec_of(c, "utf-8") for c in walk_no_nested(lns.node) if isinstance(c, ast.Call) and isinstance(c.func, ast.Attribute) and c.func.attr == "decode"
           and isinstance(c.func.value, ast.Name) and c.func.value.id in received}
    if not enc or not dec:
        raise AnalysisError("broadcast lookup: the encode in BroadcastServer.processRequest or the decode of `data` in locate_ns vanished")
    R.check(len(enc) == 1 and enc == dec, "C19-R5", "broadcast|responder-and-locator-use-one-codec", "the uri text is encoded by the broadcast responder with the codec locate_ns decodes it with (%s)" % sorted(enc),
            bs.loc(), "the broadcast responder encodes the name server uri as %s, locate_ns decodes the datagram as %s: a location with a non-ASCII character designates another "
            "socket/host at the client than the one the name server listens on" % (sorted(enc), sorted(dec)))

    # the responder answers each asker with the uri as seen from THAT asker (0.0.0.0 is replaced by the interface that reaches it): the uri it edits is a copy made for
    # this datagram. Editing the server's own uri object makes the first asker's address the answer for everybody after it
    edits = [(st, t) for st, t, k in stores_in(bs.node) if k in ("assign", "aug") and isinstance(t, ast.Attribute) and t.attr in ("host", "port", "sockname", "object", "protocol")]
    if not edits:
        raise AnalysisError("BroadcastServer.processRequest no longer adjusts the host of its answer")
    brd = ctx.rd(bs)
    bcfg = ctx.cfg(bs)
    shared_edit = None
    for st, t in edits:
        if not isinstance(t.value, ast.Name):
            shared_edit = shared_edit or st
            continue
        for n in bcfg.nodes_for(st):
            for d in brd.reaching(n, t.value.id):
                v = d.value
                fresh = v is not None and isinstance(v, ast.Call) and (ctx.resolves_to_object(v.func, bs, U) or unparse(v.func) in ("copy.copy", "copy.deepcopy"))
                if not fresh:
                    shared_edit = shared_edit or st
    R.check(shared_edit is None, "C19-R5", "broadcast|answer-edited-on-a-copy-made-for-this-datagram", "the uri whose host is adjusted for the asker is a new URI object built in this call", bs.loc(shared_edit) if shared_edit is not None else bs.loc(),
            "`%s` changes a uri object that outlives the datagram: the interface address substituted for the FIRST asker stays in the server's uri - every later asker, over "
            "whatever interface, is sent that address (a LAN client is told 127.0.0.1)" % (unparse(shared_edit, 70) if shared_edit is not None else ""))

    # ---------------------------------------------------------------- R2
    for fld in fields:
        bad = []
        for g in uri.methods.values():
            for st, t, k in stores_in(g.node):
                targets = [t]
                if isinstance(t, ast.Attribute) and isinstance(t.value, ast.Name) and t.value.id == "self" and t.attr == fld and k == "assign":
                    v = st.value
                    unhash = isinstance(v, (ast.Set, ast.List, ast.Dict, ast.SetComp, ast.ListComp, ast.DictComp)) or \
                        (isinstance(v, ast.Call) and isinstance(v.func, ast.Name) and v.func.id in ("set", "list", "dict", "bytearray"))
                    if unhash and isinstance(st.targets[0] if hasattr(st, "targets") else None, ast.Attribute):
                        bad.append((g, st))
        R.check(not bad, "C19-R2", "URI.%s|hashable" % fld, "the field is never assigned a set/list/dict", bad[0][0].loc(bad[0][1]) if bad else uri.module.relpath,
                "`%s`: the state tuple then contains an unhashable value and hash(uri) raises TypeError (URIs of that kind cannot be dict keys / set members, "
                "Proxy.__hash__ fails)" % (unparse(bad[0][1]) if bad else ""))

    # ---------------------------------------------------------------- R3
    emitted = [n.left.value for n in walk_no_nested(loc.node) if isinstance(n, ast.BinOp) and isinstance(n.op, ast.Add) and isinstance(n.left, ast.Constant)
               and isinstance(n.left.value, str) and "sockname" in unparse(n.right)]
    tested = [n.args[0].value for n in walk_no_nested(pl.node) if isinstance(n, ast.Call) and isinstance(n.func, ast.Attribute) and n.func.attr == "startswith"
              and n.args and isinstance(n.args[0], ast.Constant) and unparse(n.func.value) == pl.params[1] and n.args[0].value not in ("[", "[[")]
    slices = [n for n in walk_no_nested(pl.node) if isinstance(n, ast.Subscript) and unparse(n.value) == pl.params[1] and isinstance(n.slice, ast.Slice) and n.slice.lower is not None]
    ok = len(emitted) == 1 and emitted == tested and len(slices) == 1 and isinstance(slices[0].slice.lower, ast.Constant) and slices[0].slice.lower.value == len(emitted[0])
    R.check(ok, "C19-R3", "unix-prefix", "the unix-socket prefix printed equals the one parsed and the slice offset equals its length", pl.loc(),
            "printer emits %s, parser tests %s and slices from %s" % (emitted, tested, unparse(slices[0].slice.lower) if slices else "?"))
    sep = [n.left.right.value for n in walk_no_nested(st_.node) if isinstance(n, ast.BinOp) and isinstance(n.op, ast.Add) and isinstance(n.left, ast.BinOp)
           and isinstance(n.left.right, ast.Constant) and "location" in unparse(n.right)]
    rx = uri.class_attrs.get("uriRegEx")
    pat = rx.args[0].value if isinstance(rx, ast.Call) and rx.args and isinstance(rx.args[0], ast.Constant) else None
    if pat is None:
        raise AnalysisError("URI.uriRegEx is not re.compile(<literal>)")
    ok = sep == ["@"] and "(@(?P<location>" in pat
    R.check(ok, "C19-R3", "location-separator", "the printer joins object and location with the separator the regex splits at", st_.loc(), "printer separator %s, regex %r" % (sep, pat))
    okp = ":(?P<object>" in pat and any(isinstance(n, ast.BinOp) and isinstance(n.op, ast.Add) and isinstance(n.right, ast.Constant) and n.right.value == ":" or
                                        isinstance(n, ast.BinOp) and isinstance(n.op, ast.Add) and isinstance(n.left, ast.BinOp) and
                                        isinstance(n.left.right, ast.Constant) and n.left.right.value == ":" for n in walk_no_nested(st_.node))
    R.check(okp, "C19-R3", "protocol-separator", "protocol and object are joined with the ':' the regex expects", st_.loc(), "protocol separator mismatch")
    from ..engine.guards import strip_not
    pr_branch = [n for n in walk_no_nested(loc.node) if isinstance(n, (ast.If, ast.IfExp)) and isinstance(strip_not(n.test)[0], ast.Compare) and
                 isinstance(strip_not(n.test)[0].ops[0], (ast.In, ast.NotIn)) and
                 isinstance(strip_not(n.test)[0].left, ast.Constant) and strip_not(n.test)[0].left.value == ":" and "host" in unparse(strip_not(n.test)[0].comparators[0])]
    fmts = [n.left.value for n in walk_no_nested(loc.node) if isinstance(n, ast.BinOp) and isinstance(n.op, ast.Mod) and isinstance(n.left, ast.Constant)]
    pa_branch = [n for n in walk_no_nested(pl.node) if isinstance(n, ast.Call) and isinstance(n.func, ast.Attribute) and n.func.attr == "startswith" and n.args and
                 isinstance(n.args[0], ast.Constant) and n.args[0].value == "["]
    brackets_printed = any(isinstance(n, ast.Constant) and isinstance(n.value, str) and "[" in n.value and "]" in n.value for n in walk_no_nested(loc.node))
    ok = (len(pr_branch) >= 1 and brackets_printed) == bool(pa_branch) and bool(pa_branch)
    R.check(ok, "C19-R3", "ipv6-brackets", "hosts containing ':' are printed in brackets exactly because the parser has a bracket branch", loc.loc(),
            "bracket branch in printer: %d (brackets emitted: %s), in parser: %d" % (len(pr_branch), brackets_printed, len(pa_branch)))
    badfmt = []
    for fn in (loc, st_):
        for n in walk_no_nested(fn.node):
            if isinstance(n, ast.BinOp) and isinstance(n.op, ast.Mod) and not (isinstance(n.left, ast.Constant) and isinstance(n.left.value, str)):
                badfmt.append((fn, n))
            if isinstance(n, ast.Call) and isinstance(n.func, ast.Attribute) and n.func.attr in ("format", "format_map") and not isinstance(n.func.value, ast.Constant):
                badfmt.append((fn, n))
    R.check(not badfmt, "C19-R3", "printer|constant-format-strings", "the text form is built with constant format strings only (URI data is never part of a format string)", loc.loc(),
            "`%s`: a part of the URI (e.g. a host containing '%%') is interpreted as a format string, so printing fails or silently changes the text" % (unparse(badfmt[0][1]) if badfmt else ""))
    TRANSFORMS = {"replace", "lower", "upper", "strip", "lstrip", "rstrip", "casefold", "title", "capitalize", "encode", "quote", "quote_plus", "translate", "swapcase"}
    tr = [n for fn in (loc, st_) for n in walk_no_nested(fn.node) if isinstance(n, ast.Call) and isinstance(n.func, ast.Attribute) and n.func.attr in TRANSFORMS and
          any(isinstance(x, ast.Attribute) and isinstance(x.value, ast.Name) and x.value.id == "self" for x in ast.walk(n.func.value))]
    R.check(not tr, "C19-R3", "printer|fields-verbatim", "the printer emits the fields as they are (no escaping / case / whitespace transformation the parser does not undo)", loc.loc(),
            "`%s` rewrites a field while printing and the parser does not reverse it: the printed URI parses to a different URI" % (unparse(tr[0]) if tr else ""))
    ints = [n for n in walk_no_nested(pl.node) if isinstance(n, ast.Call) and isinstance(n.func, ast.Name) and n.func.id == "int" and "port" in unparse(n)]
    R.check(bool(ints), "C19-R3", "integer-port", "the port is converted with int() by the parser", pl.loc(), "the parser no longer converts the port with int()")

    # ... and the parser takes the object part as it stands in the text: the printer writes self.object raw, so a parser that decodes, unquotes, strips or case-folds
    # it makes str(URI(s)) parse to a different object the second time (and the daemon's registry, keyed by the raw id, is asked for another id than the one in the uri)
    ui = ctx.fn("Pyro5.core.URI.__init__")
    ost = [st for st, t, k in stores_in(ui.node) if k == "assign" and isinstance(t, ast.Attribute) and t.attr == "object" and isinstance(t.value, ast.Name) and t.value.id == ui.params[0]]
    if not ost:
        raise AnalysisError("URI.__init__: no store of self.object")

    def _raw_group(v):
        return isinstance(v, ast.Call) and isinstance(v.func, ast.Attribute) and v.func.attr == "group" and len(v.args) == 1 and isinstance(v.args[0], ast.Constant) \
            and v.args[0].value == "object"
    badp = [st for st in ost if not (_raw_group(st.value) or (isinstance(st.value, ast.Call) and isinstance(st.value.func, ast.Name) and st.value.func.id in ("set", "frozenset")))]
    R.check(not badp, "C19-R3", "parser|object-part-taken-verbatim", "URI.__init__ stores the object part exactly as the regex matched it (the PYROMETA tag set aside)", ui.loc(badp[0]) if badp else ui.loc(),
            "`%s`: the object part is rewritten while parsing but printed raw - the text form of such a uri parses to a different object, and the id a daemon is asked for "
            "differs from the id it registered" % (unparse(badp[0], 80) if badp else ""))

    # ---------------------------------------------------------------- R4
    truthy_used = set()
    for fn in (loc, st_):
        for n in walk_no_nested(fn.node):
            tests = []
            if isinstance(n, (ast.If, ast.IfExp)):
                tests.append(n.test)
            for t in tests:
                for atom, pol in facts_of(t, True):
                    if isinstance(atom, ast.Attribute) and isinstance(atom.value, ast.Name) and atom.value.id == "self":
                        truthy_used.add(atom.attr)
    truthy_used.discard("location")
    if not {"host", "sockname"} <= truthy_used:
        raise AnalysisError("URI.location no longer chooses its form by the truthiness of host / sockname: %s" % sorted(truthy_used))
    pcfg = ctx.cfg(pl)
    for fld in sorted(truthy_used):
        # the parser must refuse a falsy value of that field: a raise guarded by `not self.<fld>` (possibly in an `or`), dominating the normal exits that follow the store
        stores = [n for st, t, k in stores_in(pl.node) if any(isinstance(x, ast.Attribute) and unparse(x) == "self." + fld for x in ast.walk(t) if True) and k in ("assign",)
                  for n in pcfg.nodes_for(st)]
        # exclude the default `self.port = defaultPort` style stores: we look at the final value, so test all stores

        def nonempty(atom, pol, fld=fld):
            if pol is False and isinstance(atom, ast.UnaryOp) and isinstance(atom.op, ast.Not) and unparse(atom.operand) == "self." + fld:
                return True
            if pol is True and unparse(atom) == "self." + fld:
                return True
            return False
        ok = bool(stores)
        why = "the parser never stores self.%s" % fld
        if ok:
            for s in stores:
                # every path from the store to the normal exit passes an edge establishing that the field is truthy
                reach = pcfg.reachable([s], edge_ok=lambda e: e.kind != "exc" and not edge_has_fact(e, nonempty))
                if pcfg.exit.id in reach:
                    # a later store may overwrite (e.g. default port): accept if another store of the same field is reachable without the check
                    later = [x for x in stores if x is not s and x.id in reach]
                    if later:
                        continue
                    ok = False
                    why = "the printer chooses the text form by the truthiness of self.%s, but the parser accepts a falsy value for it (stored at %s): such a URI " \
                          "prints without that part and the printed text parses to a different URI or not at all" % (fld, pl.loc(s.ast))
        R.check(ok, "C19-R4", "presence|%s" % fld, "a falsy %s is rejected by the parser" % fld, loc.loc(), why)

    # the PYROMETA object is a tag set printed as ",".join(tags): a set that prints as the empty string ({""} from "PYROMETA:,") gives a text the parser rejects
    icfg = ctx.cfg(init)
    tagsets = [st for st, t, k in stores_in(init.node) if k == "assign" and unparse(t) == "self.object" and isinstance(st.value, ast.Call)
               and isinstance(st.value.func, ast.Name) and st.value.func.id in ("set", "frozenset")]
    if not tagsets:
        tagsets = [st for st, t, k in stores_in(init.node) if k == "assign" and unparse(t) == "self.object" and isinstance(st.value, (ast.SetComp, ast.Set))]
    if len(tagsets) != 1:
        raise AnalysisError("URI.__init__: the PYROMETA tag set construction vanished")
    ts = tagsets[0]
    rejects = []
    for n in icfg.nodes:
        if n.kind == "stmt" and isinstance(n.ast, ast.Raise) and any(icfg.dominates(a, n) and a is not n for a in icfg.nodes_for(ts)):
            conds = [c for c in ast.walk(enclosing_if_test(n.ast)) if True] if enclosing_if_test(n.ast) is not None else []
            if any(unparse(c) == "self.object" for c in conds):
                rejects.append(n)
    R.check(bool(rejects), "C19-R4", "presence|metadata-tags", "a PYROMETA tag set that would print as the empty string is rejected by the parser", init.loc(ts),
            "after `%s` nothing rejects a blank tag set: \"PYROMETA:,\" is accepted with the tags {\"\"} and prints as \"PYROMETA:\", which the parser refuses" % unparse(ts, 70))
    # ... and so is one whose only tags are empty strings ('PYROMETA:,' or 'PYROMETA: , '): the empty tag is taken out of the set BEFORE the emptiness test (or never
    # enters it), otherwise {''} passes the test and prints as 'PYROMETA:' which the parser rejects
    gens = [g_ for n in ast.walk(ts.value) if isinstance(n, (ast.GeneratorExp, ast.SetComp, ast.ListComp)) for g_ in n.generators]
    filtered = any(g_.ifs for g_ in gens)
    drops = [n for n in icfg.nodes if n.kind == "stmt" and any(isinstance(c.func, ast.Attribute) and c.func.attr in ("discard", "difference_update") and unparse(c.func.value) == "self.object"
                                                                 and c.args and "''" in unparse(c.args[0]).replace('"', "'") for c in calls_in(n))]
    dropped = filtered or (bool(drops) and bool(rejects) and icfg.all_paths_pass(icfg.nodes_for(ts), lambda n: n in drops, edge_ok=no_exc, targets=rejects))
    R.check(dropped, "C19-R4", "presence|empty-tags-never-enter-the-set", "empty tag texts are filtered out or discarded before the tag set is tested for emptiness", init.loc(ts),
            "an empty tag stays in the set: URI('PYROMETA:,') is accepted with the tags {''} and its text form 'PYROMETA:' is refused by the parser (no fixed point)")

    # PYROMETA tags: printed with the separator they are split on (the parser's regex allows no blanks inside the object part)
    joins = [c for c in walk_no_nested(st_.node) if isinstance(c, ast.Call) and isinstance(c.func, ast.Attribute) and c.func.attr == "join" and isinstance(c.func.value, ast.Constant)]
    splits = [c for c in walk_no_nested(init.node) if isinstance(c, ast.Call) and isinstance(c.func, ast.Attribute) and c.func.attr == "split" and c.args and isinstance(c.args[0], ast.Constant)
              and unparse(c.func.value) == "self.object"]
    ok = len(joins) == 1 and len(splits) == 1 and joins[0].func.value.value == splits[0].args[0].value
    R.check(ok, "C19-R3", "PYROMETA|tag-separator", "the printer joins the tags with exactly the separator the parser splits on", st_.loc(joins[0]) if joins else st_.loc(),
            "tags are joined with %r but split on %r: the printed form of a PYROMETA uri with several tags is not accepted back (the object part may not contain blanks)" % (
                joins[0].func.value.value if joins else None, splits[0].args[0].value if splits else None))

    # ... and the join is what prints the object part exactly when the uri is a PYROMETA uri (whose object IS the tag set); every other protocol prints self.object itself
    scfg = ctx.cfg(st_)

    def is_meta(want):
        def pred(atom, pol):
            if isinstance(atom, ast.Compare) and len(atom.ops) == 1 and isinstance(atom.ops[0], (ast.Eq, ast.NotEq)):
                sides = [atom.left, atom.comparators[0]]
                if any(unparse(x) == "self.protocol" for x in sides) and any(isinstance(x, ast.Constant) and x.value == "PYROMETA" for x in sides):
                    return ((pol is True) == isinstance(atom.ops[0], ast.Eq)) is want
            return False
        return pred
    objs = [n for n in walk_no_nested(st_.node) if isinstance(n, ast.Attribute) and n.attr == "object" and unparse(n.value) == st_.self_name and isinstance(n.ctx, ast.Load)]
    in_join = [n for n in objs if any(n in list(ast.walk(j)) for j in joins)]
    plain = [n for n in objs if n not in in_join]
    okj = bool(in_join) and bool(plain) and \
        all(scfg.guarded(x, lambda e: edge_has_fact(e, is_meta(True))) for n in in_join for x in ctx.node_of(st_, n)) and \
        all(scfg.guarded(x, lambda e: edge_has_fact(e, is_meta(False))) for n in plain for x in ctx.node_of(st_, n))
    R.check(okj, "C19-R3", "printer|tag-set-joined-exactly-for-PYROMETA", "__str__ prints the joined tag set on the PYROMETA branch and self.object itself on every other", st_.loc(),
            "the choice between `','.join(self.object)` and `self.object` no longer follows `self.protocol == 'PYROMETA'`: str() of a PYROMETA uri raises TypeError (str + set) or "
            "prints the set's repr, or another uri's object name is joined character by character")

    # ---------------------------------------------------------------- R5
    reg = ctx.fn("Pyro5.nameserver.NameServer.register")
    okr = any(isinstance(n, ast.Assign) and unparse(n.targets[0]) == reg.params[2] and unparse(n.value) == "str(%s)" % reg.params[2] for n in walk_no_nested(reg.node)) and \
        any(isinstance(n, ast.Call) and ctx.resolves_to_object(n.func, reg, U) for n in walk_no_nested(reg.node))
    urip = reg.params[2]
    rrd = ctx.rd(reg)
    rcfg2 = ctx.cfg(reg)
    store = [st for st, t, k in stores_in(reg.node) if k == "assign" and isinstance(t, ast.Subscript) and unparse(t.value) == "self.storage"]
    verb = bool(store)
    for st in store:
        for n in rcfg2.nodes_for(st):
            for d in rrd.reaching(n, urip):
                if d.kind == "param":
                    continue
                if d.kind == "assign" and unparse(d.value) == "str(%s)" % urip:
                    continue
                verb = False
    okr = okr and verb
    R.check(okr, "C19-R5", "NameServer.register|stores-text", "URI objects are stored as str(uri); strings are validated by parsing and stored exactly as given", reg.loc(),
            "register no longer stores the URI's text form verbatim (the string is rewritten before it is stored)")
    lk = ctx.fn("Pyro5.nameserver.NameServer.lookup")
    okl = any(isinstance(n, ast.Assign) and isinstance(n.value, ast.Call) and ctx.resolves_to_object(n.value.func, lk, U) for n in walk_no_nested(lk.node))
    R.check(okl, "C19-R5", "NameServer.lookup|reparses", "lookup re-parses the stored text with core.URI", lk.loc(), "lookup no longer returns core.URI(stored text)")
    # ... and what it parses is the text it read in this very call: the URI is built from nothing the name server object remembers between calls
    remembered = [n for n in walk_no_nested(lk.node) if isinstance(n, ast.Attribute) and isinstance(n.value, ast.Name) and n.value.id == lk.self_name and n.attr not in ("storage", "lock")
                  and not isinstance(getattr(n, "_parent", None), ast.Call)]
    R.check(not remembered, "C19-R5", "NameServer.lookup|from-this-call's-read-only", "the returned URI derives from the entry read in this call, not from state kept on the name server object", lk.loc(remembered[0]) if remembered else lk.loc(),
            "lookup uses `%s`, a field of the shared name server object: under concurrent lookups (or after the entry changed) the URI handed out can be that of another name / an older registration"
            % (unparse(remembered[0]) if remembered else ""))
    from .common import sql_setitem_writes_uri
    sql_setitem_writes_uri(ctx, R, "C19-R5")

    # the name server keeps the uri as text under the name: an operation that rewrites an entry (set_metadata) reads the text and writes it back under ONE lock hold
    # (shared with C15-R1) - read and written back under two, a re-registration in between is undone and every later lookup designates the replaced location
    from ..report import Rules as _Rules
    from ..report import run_shared as _run_shared
    from . import c15 as _c15
    R15 = _Rules("C15")
    try:
        _run_shared(ctx, _c15, R15, tier)
    except AnalysisError as _shared_x:
        R.note("obligations shared from C15 are incomplete on this tree: %s" % _shared_x)
    for o in R15.obs:
        if o.key == "C15-R3|SqlStorage.__setitem__|one-transaction":
            R.add("C19-R5", "SqlStorage.__setitem__|replacing-an-entry-is-one-transaction", o.desc + " (a refused update of a name leaves the uri that was stored under it in place)", o.ok, o.loc, o.detail)
        if o.key == "C15-R1|NameServer.set_metadata|compound-under-one-lock":
            R.add("C19-R5", "NameServer.set_metadata|uri-written-back-under-the-lock-it-was-read", o.desc + " (the stored uri text of a name is never replaced by a stale copy of itself)",
                  o.ok, o.loc, o.detail)
