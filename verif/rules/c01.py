"""C01 — Values cross the wire unchanged, identically for arguments and results."""
import ast
from ..engine.model import AnalysisError, dotted
from ..engine.context import unparse, enclosing_stmt, stores_in, names_in
from ..engine.cfg import walk_no_nested

EXPLANATION = (
    "Sibling-agreement analysis. Decided: for each of the four serializers the call path (dumpsCall/loadsCall) and the result "
    "path (dumps/loads) use the same library routine with the same keyword map (hooks included), apply class re-creation / "
    "byte normalisation / marshal pre-conversion to the same effect (recreate_classes on vargs AND kwargs iff on results, "
    "etc.); msgpack's extension types are written and read by inverse codec pairs with equal parameters (struct format, byte "
    "order, signedness) and every written ext code is read; recreate_classes descends into set/list/tuple/dict alike; server and "
    "client use one serializer object per exchange; the call envelope (object, method, vargs, kwargs) is written and read in matching "
    "positions/keys; the isinstance dispatch chains of the type mappers test subtypes before supertypes; no serializer dereferences the kwargs slot that the proxy leaves None for attribute and batch requests; compression flag/transform pairing (shared with C06-R7). "
    "Also decided (rounds 4/5, mutation map): no serializer dereferences the kwargs slot the proxy leaves None; marshal's pre-conversion recurses into containers with a per-path cycle guard; the byte normaliser returns the content of exactly the view it was given; the client refuses a reply encoded by another serializer before decoding it. "
    "documented type mapping, idempotence."
    "Also decided (round 9): A batch member's result is collected exactly as the method returned it. "
    'Also decided (round 11): The exact-read obligations of receive_data are shared (C17 via C06): the serializer is handed exactly the payload bytes that were sent. '
    "Also decided (round 10): The marshal pre-conversion's cycle record is a parameter passed down by every recursive call (not state on the serializer); the oneway thread hands user keyword arguments over so that none can collide with a parameter of the thread's own function; no encoder is called with an option that drops or rewrites what the format cannot express (skipkeys, use_bin_type=False, unicode_errors). "
    "Also decided (round 12): The proxy's state carries its serializer choice into copies (shared from C19). "
    "Not decided: that serpent/json/marshal/msgpack/zlib return what was put in over the unbounded value domain, the "
)

DECODERS = {"serpent.loads", "marshal.loads", "json.loads", "msgpack.unpackb"}
ENCODERS = {"serpent.dumps", "marshal.dumps", "json.dumps", "msgpack.packb"}


def lib_calls(ctx, f, names):
    out = []
    for c, tgs in ctx.cg.calls_of(f):
        for t in tgs:
            if t.kind == "ext" and t.name in names:
                out.append((c, t.name))
    return out


# frozen reference: the types each mapper gives a branch of its own (read from the confirmed tree; the mapping is part of the serializer's documented behaviour)
HANDLED_TYPES = {
    "JsonSerializer": {"set", "uuid.UUID", "datetime.datetime", "datetime.date", "decimal.Decimal", "array.array"},
    "MsgpackSerializer": {"set", "uuid.UUID", "complex", "datetime.datetime", "datetime.date", "decimal.Decimal", "numbers.Number", "array.array"},
    "MarshalSerializer": {"array.array", "tuple", "list", "set", "frozenset", "dict"},
}


def _truthy(v):
    return v not in ("False", "None", "0")


# (keyword, encoder) -> predicate on the source text of the value: does this setting lose data?
LOSSY_OPTIONS = {
    ("skipkeys", "json.dumps"): _truthy,                                      # dict entries with a non-JSON key vanish
    ("use_bin_type", "msgpack.packb"): lambda v: not _truthy(v),              # bytes arrive as str
    ("unicode_errors", "msgpack.packb"): lambda v: v not in ("'strict'", "None"),
    ("use_single_float", "msgpack.packb"): _truthy,                           # doubles rounded to 32 bit
    ("indent", "serpent.dumps"): lambda v: False,
}


def _spread_literal(ctx, f, expr):
    """{**<expr>} in an encoder call: the options when <expr> names a dict display of the class body or the module ({k: source text}), else None"""
    name = expr.attr if isinstance(expr, ast.Attribute) else expr.id if isinstance(expr, ast.Name) else None
    if name is None:
        return None
    cands = []
    if f.cls is not None:
        mangled = "_%s%s" % (f.cls.name.lstrip("_"), name) if name.startswith("__") and not name.endswith("__") else name
        for st in f.cls.node.body:
            if isinstance(st, ast.Assign) and len(st.targets) == 1 and isinstance(st.targets[0], ast.Name) and st.targets[0].id in (name, mangled):
                cands.append(st.value)
    for st in f.module.tree.body:
        if isinstance(st, ast.Assign) and len(st.targets) == 1 and isinstance(st.targets[0], ast.Name) and st.targets[0].id == name:
            cands.append(st.value)
    for v in cands:
        if isinstance(v, ast.Dict) and all(isinstance(k, ast.Constant) for k in v.keys):
            return {k.value: unparse(x) for k, x in zip(v.keys, v.values)}
        if isinstance(v, ast.Call) and isinstance(v.func, ast.Name) and v.func.id == "dict" and not v.args:
            return {k.arg: unparse(k.value) for k in v.keywords if k.arg}
    return None


def kwmap(call):
    return {k.arg: unparse(k.value) for k in call.keywords if k.arg}


def applies(ctx, f, expr, qual_suffix, node=None, depth=0):
    """does the value of `expr` pass through a call of self.<qual_suffix>(...)? (follows local names through reaching defs)"""
    if depth > 4 or expr is None:
        return False
    if isinstance(expr, ast.Call):
        if isinstance(expr.func, ast.Attribute) and expr.func.attr == qual_suffix:
            return True
        # wrapper calls around it, e.g. x.decode(), bytes(x)
        if isinstance(expr.func, ast.Attribute) and applies(ctx, f, expr.func.value, qual_suffix, node, depth + 1):
            return True
        return any(applies(ctx, f, a, qual_suffix, node, depth + 1) for a in expr.args)
    if isinstance(expr, ast.Name) and node is not None:
        defs = ctx.rd(f).reaching(node, expr.id)
        return bool(defs) and all(d.kind in ("assign",) and d.value is not None and applies(ctx, f, d.value, qual_suffix, d.node, depth + 1) for d in defs)
    if isinstance(expr, (ast.ListComp, ast.GeneratorExp)):
        return applies(ctx, f, expr.elt, qual_suffix, node, depth + 1)
    if isinstance(expr, ast.DictComp):
        return applies(ctx, f, expr.value, qual_suffix, node, depth + 1)
    return False


def kwargs_slot_names(g, mname):
    """(name, defining statement or None) pairs holding the kwargs slot of the call envelope in dumpsCall / loadsCall"""
    if mname == "dumpsCall":
        if len(g.params) < 5:
            raise AnalysisError("%s: fewer than 4 envelope parameters" % g.qualname)
        return [(g.params[4], None)]
    out = []
    for n in walk_no_nested(g.node):
        if isinstance(n, ast.Assign) and isinstance(n.targets[0], ast.Tuple) and len(n.targets[0].elts) == 4 and isinstance(n.targets[0].elts[3], ast.Name):
            out.append((n.targets[0].elts[3].id, n))
    return out


NONE_INTOLERANT_BUILTINS = {"len", "dict", "list", "tuple", "set", "sorted", "iter", "enumerate", "zip", "frozenset"}


def none_deref(ctx, g, slots):
    """first expression in g that dereferences one of the slot variables while it may still hold the raw (possibly None) envelope value"""
    from .c03 import edge_has_fact
    cfg, rd_ = ctx.cfg(g), ctx.rd(g)
    for name, defstmt in slots:
        for n in walk_no_nested(g.node):
            if not (isinstance(n, ast.Name) and n.id == name and isinstance(n.ctx, ast.Load)):
                continue
            par = getattr(n, "_parent", None)
            deref = None
            if isinstance(par, ast.Attribute) and par.value is n:
                deref = par
            elif isinstance(par, ast.Subscript) and par.value is n:
                deref = par
            elif isinstance(par, (ast.For, ast.comprehension)) and par.iter is n:
                deref = n
            elif isinstance(par, ast.Starred) or (isinstance(par, ast.keyword) and par.arg is None):
                deref = par
            elif isinstance(par, ast.Call) and isinstance(par.func, ast.Name) and par.func.id in NONE_INTOLERANT_BUILTINS and n in par.args:
                deref = par
            elif isinstance(par, ast.Compare) and n in par.comparators and any(isinstance(o, (ast.In, ast.NotIn)) for o in par.ops):
                deref = par
            if deref is None:
                continue
            st = enclosing_stmt(n)
            nodes = cfg.nodes_for(st)
            if not nodes:
                continue
            # is the raw value still in the variable here?
            raw = any((defstmt is None and d.kind == "param") or (defstmt is not None and d.kind == "unpack" and d.index == 3)
                      for nd in nodes for d in rd_.reaching(nd, name))
            if not raw:
                continue

            def truthy(atom, pol, name=name):
                if isinstance(atom, ast.Name) and atom.id == name:
                    return pol is True
                if isinstance(atom, ast.Compare) and len(atom.ops) == 1 and isinstance(atom.left, ast.Name) and atom.left.id == name \
                        and isinstance(atom.comparators[0], ast.Constant) and atom.comparators[0].value is None:
                    return (isinstance(atom.ops[0], ast.IsNot) and pol is True) or (isinstance(atom.ops[0], ast.Is) and pol is False)
                return False
            # expression-level guards: `x.items() if x else ...`, `x and x.items()`
            guarded_expr = False
            cur, child = par, n
            while cur is not None and not isinstance(cur, ast.stmt):
                if isinstance(cur, ast.IfExp) and child is cur.body and isinstance(cur.test, ast.Name) and cur.test.id == name:
                    guarded_expr = True
                if isinstance(cur, ast.BoolOp) and isinstance(cur.op, ast.And) and child is not cur.values[0] \
                        and any(isinstance(v, ast.Name) and v.id == name for v in cur.values[:cur.values.index(child)]):
                    guarded_expr = True
                child, cur = cur, getattr(cur, "_parent", None)
            if guarded_expr:
                continue
            if all(cfg.guarded(nd, lambda e: edge_has_fact(e, truthy)) for nd in nodes):
                continue
            return deref
    return None


def edge_has_fact_local(edge, pred):
    from .c03 import edge_has_fact
    return edge_has_fact(edge, pred)


def run(ctx, R, tier):
    p = ctx.p
    R.rule("C01-R1", "decode symmetry: loadsCall and loads use the same library routine with the same keyword map, and apply class re-creation / byte normalisation alike", floor=12)
    R.rule("C01-R2", "encode symmetry: dumpsCall and dumps use the same library routine with the same keyword map and the same pre-conversion", floor=8)
    R.rule("C01-R3", "compression pairing (shared with C06-R7)", floor=2)
    R.rule("C01-R4", "msgpack extension types: every code written by default() is read by ext_hook() with the inverse codec and equal parameters", floor=4)

    R.rule("C01-R5", "recreate_classes recurses through set, list, tuple and dict alike", floor=4)
    R.rule("C01-R6", "one serializer per exchange: the server answers with the serializer object it decoded the request with; the client decodes with the one it encoded with", floor=2)
    rc = ctx.fn("Pyro5.serializers.SerializerBase.recreate_classes")
    lit = rc.params[1]
    tvars = [n.targets[0].id for n in walk_no_nested(rc.node) if isinstance(n, ast.Assign) and isinstance(n.targets[0], ast.Name) and unparse(n.value) == "type(%s)" % lit]
    rccfg = ctx.cfg(rc)
    from .c03 import edge_has_fact
    rec_nodes = [n for n in rccfg.nodes if any(isinstance(x, ast.Call) and isinstance(x.func, ast.Attribute) and x.func.attr == "recreate_classes"
                                               for e_ in __import__("verif.engine.cfg", fromlist=["stmt_exprs"]).stmt_exprs(n) for x in ast.walk(e_))]
    for kind in ("set", "list", "tuple", "dict"):
        def is_kind(atom, pol, kind=kind):
            if pol is not True:
                return False
            if isinstance(atom, ast.Compare) and len(atom.ops) == 1 and isinstance(atom.ops[0], (ast.Is, ast.Eq)):
                for a_, b_ in ((atom.left, atom.comparators[0]), (atom.comparators[0], atom.left)):     # symmetric: either operand order
                    if unparse(b_) == kind and (unparse(a_) in tvars or unparse(a_) == "type(%s)" % lit):
                        return True
            return isinstance(atom, ast.Call) and unparse(atom.func) == "isinstance" and unparse(atom.args[0]) == lit and kind in unparse(atom.args[1])
        ok = any(rccfg.guarded(n, lambda e: edge_has_fact(e, is_kind)) for n in rec_nodes)
        R.check(ok, "C01-R5", "recreate_classes|%s" % kind, "class-tagged values nested in a %s are re-created" % kind, rc.loc(),
                "recreate_classes does not descend into %s values: a URI/exception/set inside such a container arrives as a raw dict" % kind)
    # the caller's keyword arguments reach the user method as given, whatever their names: a function of the client/server that takes **kwargs and passes them on must not
    # have named parameters of its own next to them (apart from self) - `def f(self, method, *a, **kw)` called with a user keyword `method=...` fails with
    # "multiple values for argument" and the call never happens
    n_fw = 0
    for g in [x for x in p.functions.values() if x.module.name in ("Pyro5.client", "Pyro5.server") and not isinstance(x.node, ast.Lambda)]:
        kw = g.node.args.kwarg
        if kw is None:
            continue
        n_fw += 1
        named = [a.arg for a in g.node.args.args + g.node.args.kwonlyargs if a.arg not in ("self", "cls")]
        R.check(not named, "C01-R7", "%s|user-keywords-cannot-collide" % g.qualname.split(".", 2)[2], "a function that forwards **%s has no named parameter that a user keyword could collide with" % kw.arg, g.loc(),
                "%s(%s, **%s): a remote call that passes a keyword argument named %s never reaches the user's method (TypeError: multiple values for argument) - for a oneway call "
                "nobody is told" % (g.name, ", ".join(named), kw.arg, "/".join(repr(x) for x in named)))
    if n_fw < 2:
        raise AnalysisError("client.py: the **kwargs-forwarding __call__ methods vanished")
    # a result travels the same way from a batch as from a plain call: what the batch loop collects for a successful member is the method's return value itself
    hr_ = ctx.fn("Pyro5.server.Daemon.handleRequest")
    rd_ = ctx.rd(hr_)
    loops_ = [n for n in walk_no_nested(hr_.node) if isinstance(n, ast.For)]
    bad_ = None
    n_app = 0
    for lp_ in loops_:
        dyn = [c for c in walk_no_nested(lp_) if isinstance(c, ast.Call) and isinstance(c.func, ast.Name) and ctx.cg.is_local(hr_, c.func.id) and any(isinstance(a, ast.Starred) for a in c.args)]
        for c in [c for c in walk_no_nested(lp_) if isinstance(c, ast.Call) and isinstance(c.func, ast.Attribute) and c.func.attr == "append" and c.args and isinstance(c.args[0], ast.Name)]:
            defs_ = [d for n in ctx.node_of(hr_, c) for d in rd_.reaching(n, c.args[0].id)]
            if dyn and any(d.kind == "assign" and any(d.value is x for x in dyn) for d in defs_):
                n_app += 1
                if not all(d.kind == "assign" and any(d.value is x for x in dyn) for d in defs_):
                    bad_ = c
    R.check(n_app >= 1 and bad_ is None, "C01-R7", "batch|result-collected-as-returned", "a batch member's result is collected exactly as the method returned it", hr_.loc(bad_) if bad_ is not None else hr_.loc(),
            "the value appended for a successful batch member is (on some path) not the method's return value but something computed from it: the same value arrives differently "
            "from a batch than from a plain call" if n_app else "the batch loop's result append was not found")
    for fq, enc, dec, what in (("Pyro5.server.Daemon.handleRequest", "loadsCall", "dumps", "server"), ("Pyro5.client.Proxy._pyroInvoke", "dumpsCall", "loads", "client")):
        g = ctx.fn(fq)
        grd = ctx.rd(g)

        def receivers(attr):
            out = []
            for c, _ in ctx.cg.calls_of(g):
                if isinstance(c.func, ast.Attribute) and c.func.attr == attr and isinstance(c.func.value, ast.Name):
                    for n in ctx.node_of(g, c):
                        out.append((c.func.value.id, frozenset(d.id for d in grd.reaching(n, c.func.value.id)), c))
            return out
        a, b = receivers(enc), receivers(dec)
        ok = bool(a) and bool(b) and all(x[0] == y[0] and x[1] == y[1] for x in a for y in b)
        R.check(ok, "C01-R6", "%s|same-serializer" % what, "%s and %s are called on the same serializer object" % (enc, dec), g.loc(),
                "the %s uses one serializer for the call and possibly another for the result: the type mapping of arguments and results can differ" % what)

    # ... and the client refuses a reply that was encoded by a different serializer instead of decoding it with its own
    inv = ctx.fn("Pyro5.client.Proxy._pyroInvoke")
    icfg = ctx.cfg(inv)
    decs = [n for c, _ in ctx.cg.calls_of(inv) if isinstance(c.func, ast.Attribute) and c.func.attr == "loads" for n in ctx.node_of(inv, c)]

    def same_id(atom, pol):
        if isinstance(atom, ast.Compare) and len(atom.ops) == 1 and all(unparse(x).endswith(".serializer_id") for x in (atom.left, atom.comparators[0])) \
                and unparse(atom.left) != unparse(atom.comparators[0]):
            return (isinstance(atom.ops[0], ast.NotEq) and pol is False) or (isinstance(atom.ops[0], ast.Eq) and pol is True)
        return False
    ok = bool(decs) and all(icfg.guarded(n, lambda e: edge_has_fact(e, same_id)) for n in decs)
    R.check(ok, "C01-R6", "client|reply-serializer-id-checked", "the reply is decoded only after its serializer id was found equal to the request's", inv.loc(),
            "the reply's payload can be decoded although its serializer id differs from the one the call was encoded with (the mismatch test or its raise is gone)")

    sers = ctx.cg.serializer_classes()
    if len(sers) < 4:
        raise AnalysisError("fewer serializer classes than expected (%d)" % len(sers))
    for c in sorted(sers, key=lambda c: c.name):
        name = c.name
        m = {k: c.methods.get(k) for k in ("loads", "loadsCall", "dumps", "dumpsCall")}
        if any(v is None for v in m.values()):
            raise AnalysisError("%s does not define all of loads/loadsCall/dumps/dumpsCall" % c.qualname)
        # ------------------------------------------------------------ R1
        dl, dlc = lib_calls(ctx, m["loads"], DECODERS), lib_calls(ctx, m["loadsCall"], DECODERS)
        ok = len(dl) == 1 and len(dlc) == 1 and dl[0][1] == dlc[0][1]
        R.check(ok, "C01-R1", "%s|decode-callee" % name, "loads and loadsCall call the same library decoder", m["loadsCall"].loc(),
                "loads uses %s, loadsCall uses %s" % ([x[1] for x in dl], [x[1] for x in dlc]))
        if ok:
            ka, kb = kwmap(dl[0][0]), kwmap(dlc[0][0])
            R.check(ka == kb, "C01-R1", "%s|decode-keywords" % name, "same keyword arguments (hooks included) on both paths", m["loadsCall"].loc(dlc[0][0]),
                    "results are decoded with %s but call arguments with %s: a value decodes differently depending on the direction it travels "
                    "(e.g. extension types arrive raw as arguments)" % (ka, kb))
            # byte normalisation of the input
            na = applies(ctx, m["loads"], dl[0][0].args[0] if dl[0][0].args else None, "_convertToBytes", ctx.node_of(m["loads"], dl[0][0])[0])
            nb = applies(ctx, m["loadsCall"], dlc[0][0].args[0] if dlc[0][0].args else None, "_convertToBytes", ctx.node_of(m["loadsCall"], dlc[0][0])[0])
            R.check(na == nb, "C01-R1", "%s|input-normalisation" % name, "both paths normalise bytearray/memoryview input alike", m["loadsCall"].loc(),
                    "_convertToBytes applied on the result path: %s, on the call path: %s" % (na, nb))
        # class re-creation
        f1, f2 = m["loads"], m["loadsCall"]
        rets1 = [n for n in walk_no_nested(f1.node) if isinstance(n, ast.Return) and n.value is not None]
        rets2 = [n for n in walk_no_nested(f2.node) if isinstance(n, ast.Return) and n.value is not None]
        if not rets1 or not rets2:
            raise AnalysisError("%s: loads/loadsCall without a return value" % name)
        r1 = all(applies(ctx, f1, r.value, "recreate_classes", ctx.cfg(f1).nodes_for(r)[0]) for r in rets1)
        rv = rk = True
        for r in rets2:
            v2 = r.value
            node2 = ctx.cfg(f2).nodes_for(r)[0]
            if isinstance(v2, ast.Tuple) and len(v2.elts) == 4:
                rv = rv and applies(ctx, f2, v2.elts[2], "recreate_classes", node2)
                rk = rk and applies(ctx, f2, v2.elts[3], "recreate_classes", node2)
            else:
                x = applies(ctx, f2, v2, "recreate_classes", node2)
                rv, rk = rv and x, rk and x
        hooks2 = bool(dlc) and ("object_hook" in kwmap(dlc[0][0]))
        hooks1 = bool(dl) and ("object_hook" in kwmap(dl[0][0]))
        R.check((r1 or hooks1) == (rv or hooks2) == (rk or hooks2) and (r1 or hooks1), "C01-R1", "%s|class-recreation" % name,
                "class re-creation is applied to results, positional arguments and keyword arguments alike", f2.loc(),
                "recreate_classes applied on every path to: result=%s vargs=%s kwargs=%s — class-tagged values (exceptions, URIs, proxies, sets) arrive as raw dicts in the "
                "position that is not re-created" % (r1 or hooks1, rv or hooks2, rk or hooks2))
        # ------------------------------------------------------------ R2
        el, elc = lib_calls(ctx, m["dumps"], ENCODERS), lib_calls(ctx, m["dumpsCall"], ENCODERS)
        ok = len(el) == 1 and len(elc) == 1 and el[0][1] == elc[0][1]
        R.check(ok, "C01-R2", "%s|encode-callee" % name, "dumps and dumpsCall call the same library encoder", m["dumpsCall"].loc(),
                "dumps uses %s, dumpsCall uses %s" % ([x[1] for x in el], [x[1] for x in elc]))
        if ok:
            ka, kb = kwmap(el[0][0]), kwmap(elc[0][0])
            R.check(ka == kb, "C01-R2", "%s|encode-keywords" % name, "same keyword arguments on both paths", m["dumpsCall"].loc(elc[0][0]),
                    "results are encoded with %s but calls with %s" % (ka, kb))
            # the encoder either encodes ALL of the value or raises: an option that makes it drop or rewrite what it cannot express turns "cannot be sent" (an error at
            # the sender, reported) into a different value at the receiver, silently
            for lc_fn, lc in ((m["dumps"], el[0][0]), (m["dumpsCall"], elc[0][0])):
                opts = dict(kwmap(lc))
                for k in lc.keywords:
                    if k.arg is None:
                        lit = _spread_literal(ctx, lc_fn, k.value)
                        if lit is not None:
                            opts.update(lit)
                lossy = [(k, v) for k, v in sorted(opts.items()) if (k, el[0][1]) in LOSSY_OPTIONS and LOSSY_OPTIONS[(k, el[0][1])](v)]
                R.check(not lossy, "C01-R2", "%s.%s|encoder-keeps-everything-or-raises" % (name, lc_fn.name), "no option of %s that drops or rewrites data it cannot express" % el[0][1], lc_fn.loc(lc),
                        "%s is called with %s: values the format cannot express are dropped or altered instead of refused - the receiver gets a value that differs from the one sent and "
                        "nobody is told" % (el[0][1], ", ".join("%s=%s" % kv for kv in lossy)))
            # pre-conversion (marshal): applied to data iff applied to every varg and every kwarg value
            pa = applies(ctx, m["dumps"], el[0][0].args[0], "convert_obj_into_marshallable", ctx.node_of(m["dumps"], el[0][0])[0])
            arg = elc[0][0].args[0]
            pv = pk = False
            node = ctx.node_of(m["dumpsCall"], elc[0][0])[0]
            if isinstance(arg, ast.Tuple) and len(arg.elts) == 4:
                pv = applies(ctx, m["dumpsCall"], arg.elts[2], "convert_obj_into_marshallable", node)
                pk = applies(ctx, m["dumpsCall"], arg.elts[3], "convert_obj_into_marshallable", node)
            R.check(pa == pv == pk, "C01-R2", "%s|pre-conversion" % name, "pre-conversion of unsupported types is applied to results, vargs and kwargs alike", m["dumpsCall"].loc(),
                    "convert_obj_into_marshallable applied to: result=%s vargs=%s kwargs=%s" % (pa, pv, pk))

    # ---------------------------------------------------------------- R8
    R.rule("C01-R8", "isinstance dispatch chains of the type mappers test a subtype before its supertype", floor=3)
    SUBTYPE = {("datetime.datetime", "datetime.date"), ("decimal.Decimal", "numbers.Number"), ("complex", "numbers.Number"), ("bool", "int"),
               ("int", "numbers.Number"), ("float", "numbers.Number"), ("bytearray", "bytes"), ("frozenset", "set")}
    for fq in ("Pyro5.serializers.JsonSerializer.default", "Pyro5.serializers.MsgpackSerializer.default", "Pyro5.serializers.MarshalSerializer.convert_obj_into_marshallable"):
        g = ctx.fn(fq)
        chain = []
        from ..engine.guards import strip_not
        for st in g.node.body:
            core, pol = strip_not(st.test) if isinstance(st, ast.If) else (None, True)
            if isinstance(st, ast.If) and isinstance(core, ast.Call) and unparse(core.func) == "isinstance" and len(core.args) == 2:
                t = core.args[1]
                branch = st.body if pol else st.orelse
                names = [dotted(x) for x in (t.elts if isinstance(t, ast.Tuple) else [t])]
                if isinstance(t, ast.Name) and t.id in {n.targets[0].id for n in walk_no_nested(g.node) if isinstance(n, ast.Assign) and isinstance(n.targets[0], ast.Name)}:
                    for n in walk_no_nested(g.node):
                        if isinstance(n, ast.Assign) and isinstance(n.targets[0], ast.Name) and n.targets[0].id == t.id and isinstance(n.value, ast.Tuple):
                            names = [dotted(x) for x in n.value.elts]
                ends = bool(branch) and isinstance(branch[-1], (ast.Return, ast.Raise))
                chain.append((names, st, ends))
        bad = None
        for i, (ni, si, ei) in enumerate(chain):
            if not ei:
                continue
            for nj, sj, _ in chain[i + 1:]:
                for a in nj:
                    for b in ni:
                        if (a, b) in SUBTYPE:
                            bad = (a, b, sj)
        # the documented mapping has a branch of its own for every type in the frozen table below (confirmed by reading): a type that loses its branch falls through to
        # class_to_dict - it is then sent as a class dict the receiver refuses, or in a different form than before, for values no test sends
        handled = {a for ni, _, _ in chain for a in ni}
        missing_t = sorted(HANDLED_TYPES[fq.rsplit(".", 2)[1]] - handled)
        R.check(not missing_t, "C01-R8", "%s|every-mapped-type-has-its-branch" % fq.split(".", 2)[2], "each type of this mapper's documented mapping is tested by an isinstance branch (%d types)" % len(HANDLED_TYPES[fq.rsplit(".", 2)[1]]),
                g.loc(), "no isinstance branch for %s any more: values of that type are no longer converted the way the fixed mapping says (they reach class_to_dict / the encoder as they are)" % ", ".join(missing_t))
        # a container is rebuilt as the type it was: `T(converted) if isinstance(obj, T) else ...`
        for ie in [n for n in walk_no_nested(g.node) if isinstance(n, ast.IfExp) and isinstance(n.body, ast.Call) and isinstance(n.body.func, ast.Name)
                   and n.body.func.id in ("set", "frozenset", "tuple", "list", "dict")]:
            tst = ie.test
            okt = isinstance(tst, ast.Call) and unparse(tst.func) == "isinstance" and len(tst.args) == 2 and unparse(tst.args[1]) == ie.body.func.id
            R.check(okt, "C01-R8", "%s|rebuilt-as-%s-only-if-it-was-one" % (fq.split(".", 2)[2], ie.body.func.id), "a converted container is rebuilt as %s exactly under isinstance(obj, %s)" % (ie.body.func.id, ie.body.func.id),
                    g.loc(ie), "`%s`: the container type chosen for the converted members no longer depends on the type of the original - tuples and sets arrive as another container type" % unparse(ie, 90))
        R.check(bad is None and len(chain) >= 2, "C01-R8", "%s|dispatch-order" % fq.split(".", 2)[2], "no branch for a subtype comes after a returning branch for its supertype (%d branches)" % len(chain),
                g.loc(), ("the branch for %s comes after the branch for %s, which already matches it: values of that type take the wrong mapping" % (bad[0], bad[1])) if bad else "dispatch chain vanished")

    # ---------------------------------------------------------------- R7
    R.rule("C01-R7", "the call envelope (object, method, vargs, kwargs) is written by dumpsCall and read by loadsCall in the same order / under the same keys", floor=4)
    for c in sorted(sers, key=lambda c: c.name):
        dc, lc = c.methods["dumpsCall"], c.methods["loadsCall"]
        params = dc.params[1:5]
        enc = lib_calls(ctx, dc, ENCODERS)
        ok = False
        why = "unrecognised call envelope"
        if enc:
            a0 = enc[0][0].args[0]
            rd_ = ctx.rd(dc)
            node = ctx.node_of(dc, enc[0][0])[0]

            def origin(e, depth=0):
                """which dumpsCall parameter does this envelope element derive from?"""
                if isinstance(e, ast.Name):
                    if e.id in params and all(d.kind == "param" for d in rd_.reaching(node, e.id)):
                        return e.id
                    defs = rd_.reaching(node, e.id)
                    src = {origin(d.value, depth + 1) for d in defs if d.value is not None} if depth < 3 else set()
                    return src.pop() if len(src) == 1 else None
                names = {n.id for n in ast.walk(e) if isinstance(n, ast.Name) and n.id in params}
                return names.pop() if len(names) == 1 else None
            if isinstance(a0, ast.Name):
                defs = rd_.reaching(node, a0.id)
                vals = [d.value for d in defs if d.value is not None]
                a0 = vals[0] if len(vals) == 1 else a0
            if isinstance(a0, ast.Tuple) and len(a0.elts) == 4:
                order = [origin(e) for e in a0.elts]
                ok = order == params
                why = "dumpsCall packs %s, loadsCall expects %s" % (order, params)
                # reader: obj, method, vargs, kwargs = <decode>   or the decoder result returned as is
                for n in walk_no_nested(lc.node):
                    if isinstance(n, ast.Assign) and isinstance(n.targets[0], ast.Tuple) and len(n.targets[0].elts) == 4:
                        names = [unparse(x) for x in n.targets[0].elts]
                        rets = [r for r in walk_no_nested(lc.node) if isinstance(r, ast.Return) and isinstance(r.value, ast.Tuple)]
                        if rets and [unparse(x) for x in rets[0].value.elts] != names:
                            ok = False
                            why = "loadsCall unpacks %s but returns %s" % (names, [unparse(x) for x in rets[0].value.elts])
            elif isinstance(a0, ast.Dict):
                keys = {k.value: origin(v) for k, v in zip(a0.keys, a0.values) if isinstance(k, ast.Constant)}
                rets = [r for r in walk_no_nested(lc.node) if isinstance(r, ast.Return) and isinstance(r.value, ast.Tuple) and len(r.value.elts) == 4]
                ok = bool(rets)
                why = "loadsCall does not return a 4-tuple"
                if ok:
                    lrd = ctx.rd(lc)
                    rnode = ctx.cfg(lc).nodes_for(rets[0])[0]

                    def key_of(e, depth=0):
                        for x in ast.walk(e):
                            if isinstance(x, ast.Subscript) and isinstance(x.slice, ast.Constant) and isinstance(x.slice.value, str):
                                return x.slice.value
                        if isinstance(e, ast.Name) and depth < 3:
                            ks = {key_of(d.value, depth + 1) for d in lrd.reaching(rnode, e.id) if d.value is not None}
                            return ks.pop() if len(ks) == 1 else None
                        return None
                    got = [keys.get(key_of(e)) for e in rets[0].value.elts]
                    ok = got == params
                    why = "written under keys %s, read back in the order %s (expected %s)" % (keys, got, params)
        R.check(ok, "C01-R7", "%s|call-envelope" % c.name, "object, method, vargs and kwargs travel in matching positions / keys", dc.loc(), why)

    # ---------------------------------------------------------------- R9
    R.rule("C01-R9", "optional envelope slots: the proxy sends kwargs=None for attribute and batch requests, so no dumpsCall/loadsCall dereferences the kwargs slot unguarded", floor=8)
    none_sites = []
    for g in p.functions.values():
        if not g.module.name.startswith("Pyro5.client"):
            continue
        for n in walk_no_nested(g.node):
            if isinstance(n, ast.Call) and isinstance(n.func, ast.Attribute) and n.func.attr == "_pyroInvoke":
                a = n.args[2] if len(n.args) > 2 else next((k.value for k in n.keywords if k.arg == "kwargs"), None)
                if isinstance(a, ast.Constant) and a.value is None:
                    none_sites.append(g.loc(n))
    R.note("C01-R9 premise: %d _pyroInvoke call sites pass kwargs=None (%s)" % (len(none_sites), ", ".join(none_sites[:4])))
    for c in sorted(sers, key=lambda c: c.name):
        for mname in ("dumpsCall", "loadsCall"):
            g = c.methods[mname]
            bad = none_deref(ctx, g, kwargs_slot_names(g, mname)) if none_sites else None
            R.check(bad is None, "C01-R9", "%s.%s|kwargs-may-be-None" % (c.name, mname),
                    "the kwargs slot is only passed on, tested, or dereferenced under a guard / `or {}` default", g.loc(),
                    ("`%s` at %s dereferences the kwargs slot, which is None for remote attribute access and for batches (%s): every such request fails "
                     "with this serializer" % (unparse(bad, 70), g.loc(bad), none_sites[0])) if bad is not None else "")

    # ---------------------------------------------------------------- R10
    R.rule("C01-R10", "marshal: the pre-conversion reaches values nested in containers (marshal has no per-object hook), like recreate_classes does on the way back", floor=2)
    mcls = p.cls("Pyro5.serializers.MarshalSerializer")
    conv = mcls.methods.get("convert_obj_into_marshallable")
    if conv is None:
        raise AnalysisError("MarshalSerializer.convert_obj_into_marshallable vanished")
    op = conv.params[1]
    CONT = {"list", "tuple", "dict", "set", "frozenset"}
    passthrough = set()
    for r in walk_no_nested(conv.node):
        if isinstance(r, ast.Return) and isinstance(r.value, ast.Name) and r.value.id == op:
            for n in ctx.cfg(conv).nodes_for(r):
                for other in walk_no_nested(conv.node):
                    if isinstance(other, ast.Call) and isinstance(other.func, ast.Name) and other.func.id == "isinstance" and len(other.args) == 2 \
                            and unparse(other.args[0]) == op:
                        tnode = ctx.node_of(conv, other)
                        def is_inst(atom, pol, other=other):
                            return unparse(atom) == unparse(other) and pol is True
                        if ctx.cfg(conv).guarded(n, lambda e: edge_has_fact_local(e, is_inst)):
                            t = other.args[1]
                            if isinstance(t, ast.Name):
                                vals = [d.value for d in ctx.rd(conv).reaching(n, t.id) if d.value is not None]
                                t = vals[0] if len(vals) == 1 else t
                            elts = t.elts if isinstance(t, ast.Tuple) else [t]
                            passthrough |= {unparse(e) for e in elts}
    leaked = sorted(passthrough & CONT)
    R.check(not leaked, "C01-R10", "convert_obj_into_marshallable|containers-not-passed-through", "no container type is returned unconverted", conv.loc(),
            "values of type %s are handed to marshal as they are: an object nested in them (the exception wrapper in a batch reply, a class instance among batched arguments, "
            "a URI in a tuple) makes the whole message unmarshallable although the same value travels fine on its own" % ", ".join(leaked))
    # the cycle guard must describe the current path only: a container reached twice along different branches (aliasing, no cycle) is legal data
    guard_params = [a for a in conv.params[2:]]
    mutated = [c for c in walk_no_nested(conv.node) if isinstance(c, ast.Call) and isinstance(c.func, ast.Attribute) and isinstance(c.func.value, ast.Name)
               and c.func.value.id in guard_params and c.func.attr in ("add", "append", "update", "extend", "insert", "__setitem__")]
    R.check(not mutated, "C01-R10", "convert_obj_into_marshallable|cycle-guard-is-per-path", "the record of containers being converted is never mutated in place (each level passes an extended copy down)",
            conv.loc(mutated[0]) if mutated else conv.loc(),
            "`%s` records visited containers in one object shared by the whole conversion: a value that merely contains the same list or tuple twice (no cycle) is refused as circular, "
            "e.g. a batch whose calls share an argument" % (unparse(mutated[0]) if mutated else ""))
    # ... and it travels WITH the recursion (an argument of each recursive call): a record kept anywhere else - on the serializer, in a thread-local, at module level -
    # outlives a conversion that fails half-way (nothing pops it) and then condemns later, perfectly plain values that reuse one of those containers
    raisers = [n for n in walk_no_nested(conv.node) if isinstance(n, ast.Raise) and n.exc is not None and "circular" in unparse(n.exc).lower()]
    cfg_c = ctx.cfg(conv)
    okg = bool(raisers) and bool(guard_params)
    why_g = "the circular-reference refusal vanished" if not raisers else "the conversion function has no parameter that carries the containers on the current path"
    if okg:
        def on_the_path(atom, pol):
            return pol is True and any(isinstance(x, ast.Name) and x.id in guard_params for x in ast.walk(atom))
        okg = all(cfg_c.guarded(n, lambda e: edge_has_fact_local(e, on_the_path)) for r_ in raisers for n in cfg_c.nodes_for(r_))
        why_g = "the test that refuses a circular reference does not look at the record passed down the recursion (`%s`) but at state kept elsewhere" % ", ".join(guard_params)
    R.check(okg, "C01-R10", "convert_obj_into_marshallable|cycle-guard-travels-with-the-recursion", "the containers on the current path are a parameter of the recursive conversion, tested where 'circular' is refused",
            conv.loc(raisers[0]) if raisers else conv.loc(), why_g + ": after one conversion that failed half-way the leftover record makes later values that reuse a container fail as 'circular'")
    rec = [c for c in walk_no_nested(conv.node) if isinstance(c, ast.Call) and isinstance(c.func, ast.Attribute) and c.func.attr == conv.name
           and isinstance(c.func.value, ast.Name) and c.func.value.id == conv.self_name]
    unguided = [c for c in rec if not any(isinstance(x, ast.Name) and x.id in guard_params for a in list(c.args[1:]) + [k.value for k in c.keywords] for x in ast.walk(a))]
    R.check(not unguided or not guard_params, "C01-R10", "convert_obj_into_marshallable|every-recursive-call-passes-the-path-down", "each recursive call hands the containers on the current path to the next level",
            conv.loc(unguided[0]) if unguided else conv.loc(),
            "`%s` starts the members' conversion with an empty record: a container that contains itself is never recognised - the conversion recurses until RecursionError instead of "
            "refusing the value with the serializer's own error" % (unparse(unguided[0], 80) if unguided else ""))
    R.check(len(rec) >= 2, "C01-R10", "convert_obj_into_marshallable|recurses-into-members", "members of sequences/sets and values of dicts are converted recursively (%d recursive calls)" % len(rec),
            conv.loc(), "the conversion does not call itself for the members of containers")

    # ---------------------------------------------------------------- R11
    R.rule("C01-R11", "the byte normaliser in front of the decoders returns the content of exactly the view it was given", floor=1)
    cb = p.cls("Pyro5.serializers.SerializerBase").methods.get("_convertToBytes")
    if cb is None:
        raise AnalysisError("SerializerBase._convertToBytes vanished")
    dp = cb.params[1]
    rets = [r for r in walk_no_nested(cb.node) if isinstance(r, ast.Return)]
    bad = None
    for r in rets:
        if r.value is None or dp not in {n.id for n in ast.walk(r.value) if isinstance(n, ast.Name)}:
            bad = r
        for n in ast.walk(r.value) if r.value is not None else []:
            if isinstance(n, ast.Attribute) and n.attr in ("obj", "base"):
                bad = r       # the object underneath a memoryview is the whole receive buffer, not the slice
            if isinstance(n, ast.Subscript):
                bad = r
    R.check(bool(rets) and bad is None, "C01-R11", "_convertToBytes|content-of-the-view", "every return value is built from the argument itself (bytes(x), x.tobytes(), x), never from the "
            "buffer underneath a view or a slice of it", cb.loc(), "`%s` at %s does not return the bytes of the view it was given: the payload view of a message with annotations "
            "is a slice of the receive buffer, so the decoder is handed annotation bytes as well" % (unparse(bad, 70) if bad is not None else "", cb.loc(bad) if bad is not None else ""))

    # ---------------------------------------------------------------- R3
    from ..report import Rules, run_shared as _run_shared
    from . import c06
    R6 = Rules("C06")
    try:
        _run_shared(ctx, c06, R6, tier)
    except AnalysisError as _shared_x:
        # the other property's own anchors are gone on this tree: its check reports that; what it produced before is still shared
        R.note("obligations shared from C06 are incomplete on this tree: %s" % _shared_x)
    # the serializer a proxy was told to use is part of its state: a copy (another thread's proxy, a proxy that travelled) keeps it - otherwise the copy silently
    # talks serpent and the same call maps its values differently (shared with C19-R1: state element i is restored into the attribute it was taken from)
    from . import c19 as _c19
    R19_ = Rules("C19")
    try:
        _run_shared(ctx, _c19, R19_, tier)
    except AnalysisError as _shared_x:
        R.note("obligations shared from C19 are incomplete on this tree: %s" % _shared_x)
    for o in R19_.obs:
        if o.key == "C19-R1|Proxy|getstate-setstate-index":
            R.add("C01-R6", "Proxy|state-carries-the-serializer-choice", o.desc + " (among them _pyroSerializer)", o.ok, o.loc, o.detail)
    for o in R6.obs:
        if o.rule == "C06-R7":
            R.add("C01-R3", o.key.split("|", 1)[1], o.desc, o.ok, o.loc, o.detail)
        if o.rule == "C06-R8" and o.key.split("|")[1] == "receive_data":
            # the value that is decoded is the payload that was read: an inexact read (too few, too many, miscounted after a short first read) loses or corrupts the value
            # of a large argument or result on a socket with a timeout, and nothing else
            R.add("C01-R3", "transport|" + o.key.split("|", 1)[1], o.desc + " (the serializer is handed exactly the payload bytes that were sent)", o.ok, o.loc, o.detail)

    # ---------------------------------------------------------------- R4
    mp = p.cls("Pyro5.serializers.MsgpackSerializer")
    dflt, hook = mp.methods.get("default"), mp.methods.get("ext_hook")
    if dflt is None or hook is None:
        raise AnalysisError("MsgpackSerializer.default / ext_hook vanished")
    written = {}
    for n in walk_no_nested(dflt.node):
        if isinstance(n, ast.Call) and dotted(n.func) == "msgpack.ExtType" and len(n.args) == 2:
            okc, code = ctx.const(n.args[0], dflt)
            if not okc:
                raise AnalysisError("msgpack ExtType code is not a constant at %s" % dflt.loc(n))
            written[code] = n.args[1]
    read = {}
    from ..engine.guards import strip_not
    for n in walk_no_nested(hook.node):
        if not isinstance(n, ast.If):
            continue
        core, pol = strip_not(n.test)
        if isinstance(core, ast.Compare) and len(core.ops) == 1 and isinstance(core.ops[0], (ast.Eq, ast.NotEq)):
            if isinstance(core.ops[0], ast.NotEq):
                pol = not pol
            okc, code = ctx.const(core.comparators[0], hook)
            if okc and unparse(core.left) == hook.params[1]:
                branch = ast.If(test=core, body=(n.body if pol else n.orelse), orelse=[])
                ast.copy_location(branch, n)
                rets = [x for st in branch.body for x in walk_no_nested(st) if isinstance(x, ast.Return)]
                read[code] = (branch, rets[0].value if rets else None)
    if len(written) < 4:
        raise AnalysisError("MsgpackSerializer.default: fewer ExtType codes than expected (%d)" % len(written))
    for code, enc in sorted(written.items()):
        key = "ext-code:0x%x" % code
        if code not in read:
            R.fail("C01-R4", key, "code written by default() is read by ext_hook()", dflt.loc(enc), "ext code 0x%x is written but ext_hook has no branch for it" % code)
            continue
        branch, dec = read[code]
        ok, why = codec_pair(ctx, dflt, enc, hook, branch, dec)
        R.check(ok, "C01-R4", key, "written and read by an inverse codec pair with equal parameters", hook.loc(branch), why)


def codec_pair(ctx, ef, enc, df, branch, dec):
    """(ok, why) for one ext code: encoder payload expression vs decoder branch"""
    # struct.pack(fmt, ...)  <->  struct.unpack(fmt, data)
    if isinstance(enc, ast.Call) and dotted(enc.func) == "struct.pack":
        okf, fmt = ctx.const(enc.args[0], ef)
        ups = [x for st in branch.body for x in walk_no_nested(st) if isinstance(x, ast.Call) and dotted(x.func) in ("struct.unpack", "struct.unpack_from")]
        if len(ups) != 1:
            return False, "struct.pack on the writing side but %d struct.unpack calls on the reading side" % len(ups)
        okd, dfmt = ctx.const(ups[0].args[0], df)
        if not (okf and okd):
            raise AnalysisError("non-constant struct format in the msgpack ext codec")
        return fmt == dfmt, "packed with format %r, unpacked with %r" % (fmt, dfmt)
    # str(x).encode(enc)  <->  int(data)
    if isinstance(enc, ast.Call) and isinstance(enc.func, ast.Attribute) and enc.func.attr == "encode" and isinstance(enc.func.value, ast.Call) \
            and isinstance(enc.func.value.func, ast.Name) and enc.func.value.func.id == "str":
        ok = isinstance(dec, ast.Call) and isinstance(dec.func, ast.Name) and dec.func.id == "int" and len(dec.args) == 1
        return ok, "written as decimal text, read with `%s`" % (unparse(dec) if dec is not None else "?")
    # x.to_bytes(n, order, signed=s) <-> int.from_bytes(data, order, signed=s)
    if isinstance(enc, ast.Call) and isinstance(enc.func, ast.Attribute) and enc.func.attr == "to_bytes":
        if not (isinstance(dec, ast.Call) and unparse(dec.func) == "int.from_bytes"):
            return False, "written with to_bytes, read with `%s`" % (unparse(dec) if dec is not None else "?")

        def params(call, first_order_idx):
            order = call.args[first_order_idx] if len(call.args) > first_order_idx else None
            signed = False
            for k in call.keywords:
                if k.arg == "byteorder":
                    order = k.value
                if k.arg == "signed":
                    signed = isinstance(k.value, ast.Constant) and bool(k.value.value) or unparse(k.value)
            return (unparse(order) if order is not None else None, signed)
        pe, pd = params(enc, 1), params(dec, 1)
        return pe == pd, "written with to_bytes(byteorder=%s, signed=%s) but read with from_bytes(byteorder=%s, signed=%s): negative (or large) integers " \
                         "change value on the way" % (pe[0], pe[1], pd[0], pd[1])
    raise AnalysisError("unrecognised msgpack ext codec pair: writer `%s` — the table of inverse pairs (struct, decimal text, to_bytes) must be extended by hand"
                        % unparse(enc))
