"""C16 — Daemon registry: an id reaches exactly its object, for as long as registered."""
import ast
from ..engine.model import AnalysisError, dotted
from ..engine.context import unparse, enclosing_stmt, stores_in, names_in, enclosing_loops
from ..engine.cfg import walk_no_nested, calls_in, facts_of
from .c03 import edge_has_fact

EXPLANATION = (
    "Decided: every mutation of Daemon.objectsById outside __init__ is behind a guard that compares the id with the daemon's "
    "own id and leaves when equal; in register() the registry store is reachable only with force or after the duplicate-id and "
    "already-registered refusals; only Daemon.__init__/register/unregister write the registry, DaemonObject.registered returns "
    "its keys, dispatch looks ids up through _unpack_weakref and raises for unknown ids; an object is auto-proxied only under a "
    "test that it is currently in its daemon's registry (or unregister clears the marks on every deleting path); the "
    "replacement hook is installed for every serializer and weak registration stores a weakref plus a finalizer; every registry "
    "value that is used as an object is unwrapped first; by-value serialisation neutralises the daemon mark by assignment."
    "Also decided: serialising a value never writes to it; the registry is per daemon; unknown ids can never reach a result reply; the auto-proxy hook is installed on both registration branches; a dead weak reference is recognised by identity with None; blob calls name the call's object id; a proxy refuses an object as exposing nothing only when it has neither methods nor attributes. "
    "Also decided (round 7): After the registry store nothing in register() can raise; the handshake's lookup treats exactly None as unknown. "
    'Also decided (round 8): No helper of the serializers module reached from the serialisation entry points writes into the state it is handed. '
    'Also decided (round 10): The default method-call error handler stores none of its arguments (an exception keeps the called object alive through its traceback: a weak registration would never end); the URI parser takes the object part verbatim (shared from C19). '
    'Also decided (round 9): A forced registration replaces the entry with one store (register removes nothing first). '
    "Also decided (round 11): The finalizer of a weak registration removes the entry only while it is still that object's reference; uriFor returns only a uri whose object part is the id it was asked for. "
    "Not decided: identity of the object reached through a proxy, GC timing."
)

REG = "objectsById"
DAEMON_NAME = "Pyro5.core.DAEMON_NAME"


def registry_expr(e):
    """X.objectsById"""
    return isinstance(e, ast.Attribute) and e.attr == REG


def run(ctx, R, tier):
    p = ctx.p
    R.rule("C16-R1", "the daemon's own entry is immutable: every registry store/delete outside __init__ is behind a guard on core.DAEMON_NAME", floor=2)
    R.rule("C16-R2", "register(): without force the store is reachable only after the duplicate-id and already-registered refusals", floor=2)
    R.rule("C16-R3", "only Daemon.__init__/register/unregister write the registry; registered() returns its keys; dispatch unwraps and raises for unknown ids", floor=3)
    R.rule("C16-R4", "an object is auto-proxied only while it is in its daemon's registry; registration marks are stored before the registry entry", floor=2)
    R.rule("C16-R5", "register installs the auto-proxy replacement for every serializer; weak registration stores a weakref and a finalizer that unregisters by id", floor=3)
    R.rule("C16-R6", "registry values are unwrapped (weak references) before they are used as objects", floor=5)

    reg = ctx.fn("Pyro5.server.Daemon.register")
    unreg = ctx.fn("Pyro5.server.Daemon.unregister")

    # ---------------------------------------------------------------- R1
    for f in (reg, unreg):
        cfg = ctx.cfg(f)
        muts = [(st, t, k) for st, t, k in stores_in(f.node) if isinstance(t, ast.Subscript) and registry_expr(t.value)]
        from ..engine.context import enclosing_stmt as _es
        for c, _ in ctx.cg.calls_of(f):
            if isinstance(c.func, ast.Attribute) and c.func.attr in ("pop", "popitem", "clear", "update", "setdefault", "__delitem__", "__setitem__") and registry_expr(c.func.value):
                muts.append((_es(c), c, "del" if c.func.attr in ("pop", "popitem", "clear", "__delitem__") else "assign"))
        if not muts:
            raise AnalysisError("%s: registry mutation vanished" % f.qualname)
        for st, t, k in muts:
            def not_daemon(atom, pol):
                if isinstance(atom, ast.Compare) and len(atom.ops) == 1:
                    sides = [atom.left, atom.comparators[0]]
                    if any(ctx.resolves_to_object(s, f, DAEMON_NAME) for s in sides if isinstance(s, (ast.Attribute, ast.Name))):
                        return (isinstance(atom.ops[0], ast.Eq) and pol is False) or (isinstance(atom.ops[0], ast.NotEq) and pol is True)
                return False
            ok = all(cfg.guarded(n, lambda e: edge_has_fact(e, not_daemon)) for n in cfg.nodes_for(st))
            R.check(ok, "C16-R1", "%s|%s-guarded" % (f.name, "delete" if k == "del" else "store"),
                    "registry %s happens only when the id is not core.DAEMON_NAME" % ("delete" if k == "del" else "store"), f.loc(st),
                    "`%s` can replace or remove the daemon's own object (id Pyro.Daemon)" % unparse(st))

    # ---------------------------------------------------------------- R2
    cfg = ctx.cfg(reg)
    store = [(st, t) for st, t, k in stores_in(reg.node) if isinstance(t, ast.Subscript) and registry_expr(t.value) and k == "assign"]
    st0 = store[0][0]
    objp = reg.params[1]
    idp = reg.params[2]

    def force_true(atom, pol):
        return pol is True and isinstance(atom, ast.Name) and atom.id == "force"

    def id_not_in(atom, pol):
        return pol is False and isinstance(atom, ast.Compare) and len(atom.ops) == 1 and isinstance(atom.ops[0], ast.In) and \
            isinstance(atom.left, ast.Name) and atom.left.id == idp and registry_expr(atom.comparators[0])
    from .c03 import edge_implies_any
    ok = all(cfg.guarded(n, lambda e: edge_implies_any(e, [force_true, id_not_in])) for n in cfg.nodes_for(st0))
    R.check(ok, "C16-R2", "register|duplicate-id-refused", "without force the store is reachable only if the id is not yet in the registry", reg.loc(st0),
            "a second registration under an id that is already taken silently replaces the first object")

    # a (forced) registration replaces the entry with ONE store: register() removes nothing first (no unregister call, no delete / pop on the registry) - otherwise the id
    # is unknown for a moment to calls, handshakes and registered(), although nobody unregistered it
    removes = [c for c in ctx.calls_to(reg, "Pyro5.server.Daemon.unregister")]
    removes += [st for st, t, k in stores_in(reg.node) if k == "del" and isinstance(t, ast.Subscript) and registry_expr(t.value)]
    removes += [c for c in walk_no_nested(reg.node) if isinstance(c, ast.Call) and isinstance(c.func, ast.Attribute) and c.func.attr in ("pop", "popitem", "clear") and registry_expr(c.func.value)]
    R.check(not removes, "C16-R2", "register|replacement-is-one-store", "register() replaces an entry by the single registry store; it removes nothing beforehand", reg.loc(removes[0]) if removes else reg.loc(),
            "`%s` in register(): between this removal and the store the id is not registered - a concurrent call, connect or registered() sees it vanish, and the old object's "
            "marks are cleared although it is being replaced, not unregistered" % (unparse(removes[0], 60) if removes else ""))
    # a registration either happens or fails, not both: once the object is in the registry nothing that can still raise runs before register() returns (building the
    # URI for an id that is not a valid object name raises: done after the store, the caller gets an exception AND a registered, reachable object)
    can_raise = ctx.exc_filter(reg)
    after = cfg.reachable(cfg.nodes_for(st0), edge_ok=lambda e: e.kind != "exc")
    late = [n for n in cfg.nodes if n.id in after and n not in cfg.nodes_for(st0) and any(e.kind == "exc" and can_raise(e) for e in n.succ)]
    R.check(not late, "C16-R2", "register|nothing-can-fail-after-the-store", "after the registry store no statement of register() can raise", reg.loc(late[0].ast) if late else reg.loc(st0),
            ("`%s` can raise after the object was stored in the registry: register() then fails although the object is registered, listed and reachable (e.g. an id that is not a valid "
             "URI object name)" % unparse(late[0].ast, 70)) if late else "")

    def same_object_false(atom, pol):
        if isinstance(atom, ast.Compare) and len(atom.ops) == 1 and objp in (unparse(atom.left), unparse(atom.comparators[0])):
            return (isinstance(atom.ops[0], ast.Is) and pol is False) or (isinstance(atom.ops[0], ast.IsNot) and pol is True)
        return False

    def no_id_attr(atom, pol):
        return pol is False and isinstance(atom, ast.Call) and isinstance(atom.func, ast.Name) and atom.func.id == "hasattr" and len(atom.args) == 2 and \
            unparse(atom.args[0]) == objp and isinstance(atom.args[1], ast.Constant) and atom.args[1].value == "_pyroId"
    from .c03 import edge_implies_any
    from ..engine.context import locals_assigned
    idvars = set(locals_assigned(reg, lambda v: isinstance(v, ast.Attribute) and v.attr == "_pyroId" and unparse(v.value) == objp))

    def no_id_value(atom, pol):
        # the object's current id is empty / falsy: it is not registered anywhere
        if pol is False and ((isinstance(atom, ast.Name) and atom.id in idvars) or unparse(atom) == "%s._pyroId" % objp):
            return True
        if isinstance(atom, ast.Compare) and len(atom.ops) == 1 and unparse(atom.left) == "%s._pyroId" % objp and \
                isinstance(atom.comparators[0], ast.Constant) and atom.comparators[0].value in ("", None):
            return (isinstance(atom.ops[0], (ast.NotEq, ast.IsNot)) and pol is False) or (isinstance(atom.ops[0], (ast.Eq, ast.Is)) and pol is True)
        return False
    ok = all(cfg.guarded(n, lambda e: edge_implies_any(e, [force_true, same_object_false, no_id_attr, no_id_value])) for n in cfg.nodes_for(st0))
    R.check(ok, "C16-R2", "register|same-object-refused", "without force an object that is already registered (its id maps to itself) is refused", reg.loc(st0),
            "an object that is already registered can be registered again without force")

    # ---------------------------------------------------------------- R3
    writers = {}
    for g in p.functions.values():
        for st, t, k in stores_in(g.node):
            base = t.value if isinstance(t, ast.Subscript) else t
            if registry_expr(base):
                writers.setdefault(g.qualname, g.loc(st))
        for c, _ in ctx.cg.calls_of(g):
            if isinstance(c.func, ast.Attribute) and c.func.attr in ("clear", "pop", "popitem", "update", "setdefault", "__setitem__", "__delitem__") and \
                    registry_expr(c.func.value):
                writers.setdefault(g.qualname, g.loc(c))
    allowed = {"Pyro5.server.Daemon.__init__", reg.qualname, unreg.qualname}
    for w, loc in sorted(writers.items()):
        R.check(w in allowed, "C16-R3", "writer|%s" % w, "allowed writer of the registry", loc,
                "%s modifies Daemon.objectsById behind the back of register/unregister (no duplicate, reserved-id or mark handling)" % w)
    if len(writers) < 3:
        raise AnalysisError("fewer registry writers than expected")
    rg = ctx.fn("Pyro5.server.DaemonObject.registered")
    rets = [n for n in walk_no_nested(rg.node) if isinstance(n, ast.Return)]
    ok = len(rets) == 1 and rets[0].value is not None
    if ok:
        v = rets[0].value
        inner = v.args[0] if isinstance(v, ast.Call) and isinstance(v.func, ast.Name) and v.func.id in ("list", "sorted", "tuple", "set") and v.args else v
        ok = (isinstance(inner, ast.Call) and isinstance(inner.func, ast.Attribute) and inner.func.attr == "keys" and registry_expr(inner.func.value)) \
            or registry_expr(inner)
    R.check(ok, "C16-R3", "registered|keys", "DaemonObject.registered returns exactly the registry's keys", rg.loc(),
            "registered() no longer returns the keys of objectsById: `%s`" % (unparse(rets[0].value) if rets else ""))
    h = ctx.fn("Pyro5.server.Daemon.handleRequest")
    hcfg = ctx.cfg(h)
    lookups = [st for st, t, k in stores_in(h.node) if k == "assign" and isinstance(t, ast.Name) and isinstance(st.value, ast.Call)
               and ctx.is_call_to(st.value, h, "Pyro5.server._unpack_weakref") and st.value.args and
               isinstance(st.value.args[0], ast.Call) and isinstance(st.value.args[0].func, ast.Attribute) and
               st.value.args[0].func.attr == "get" and registry_expr(st.value.args[0].func.value)]
    ok = len(lookups) == 1
    why = "the dispatch lookup `obj = _unpack_weakref(self.objectsById.get(objId))` vanished"
    if ok:
        var = lookups[0].targets[0].id

        def known(atom, pol):
            return isinstance(atom, ast.Compare) and len(atom.ops) == 1 and isinstance(atom.left, ast.Name) and atom.left.id == var and \
                isinstance(atom.comparators[0], ast.Constant) and atom.comparators[0].value is None and \
                ((isinstance(atom.ops[0], ast.IsNot) and pol is True) or (isinstance(atom.ops[0], ast.Is) and pol is False))
        disp = [n for n in hcfg.nodes for c in calls_in(n)
                if ctx.is_call_to(c, h, {"Pyro5.server._get_attribute", "Pyro5.server._get_exposed_property_value", "Pyro5.server._set_exposed_property_value",
                                         "Pyro5.server.Daemon._getInstance"})]
        ok = bool(disp) and all(hcfg.guarded(n, lambda e: edge_has_fact(e, known)) for n in disp)
        why = "dispatch can proceed for an id that is not in the registry"
    R.check(ok, "C16-R3", "handleRequest|lookup-unwrapped-and-checked", "dispatch uses the unwrapped registry value and only if it is not None", h.loc(), why)
    if len(lookups) == 1:
        results = [n for n in hcfg.nodes for c in calls_in(n) if ctx.is_call_to(c, h, "Pyro5.protocol.SendingMessage.__init__") and c.args
                   and ctx.resolves_to_object(c.args[0], h, "Pyro5.protocol.MSG_RESULT")]
        ok2 = bool(results) and all(hcfg.guarded(n, lambda e: edge_has_fact(e, known)) for n in results)
        R.check(ok2, "C16-R3", "handleRequest|unknown-id-never-answered-with-a-result", "a MSG_RESULT reply is built only for a known id (the unknown-id branch raises)", h.loc(),
                "for an id that is not registered the request can reach the normal result reply: the unknown-object error is lost")

    # ---------------------------------------------------------------- R4
    ap = ctx.fn("Pyro5.server._pyro_obj_to_auto_proxy")
    acfg = ctx.cfg(ap)
    pf = [c for c, _ in ctx.cg.calls_of(ap) if isinstance(c.func, ast.Attribute) and c.func.attr == "proxyFor"]
    if not pf:
        raise AnalysisError("_pyro_obj_to_auto_proxy: proxyFor call vanished")
    objn = ap.params[0]
    rd = ctx.rd(ap)

    def currently_registered(node):
        def pred(atom, pol):
            if pol is not True:
                return False
            for n in ast.walk(atom):
                if isinstance(n, ast.Compare) and len(n.ops) == 1:
                    l, r = n.left, n.comparators[0]
                    if isinstance(n.ops[0], ast.Is) and objn in (unparse(l), unparse(r)):
                        other = r if unparse(l) == objn else l
                        if isinstance(other, ast.Name):
                            defs = rd.reaching(node, other.id)
                            if any(d.value is not None and any(registry_expr(x) for x in ast.walk(d.value)) for d in defs if d.kind in ("assign", "walrus")):
                                return True
                        if any(registry_expr(x) for x in ast.walk(other)):
                            return True
            return False
        return pred
    alt2 = all(acfg.guarded(n, lambda e, n=n: edge_has_fact(e, currently_registered(n))) for c in pf for n in ctx.node_of(ap, c))
    ucfg = ctx.cfg(unreg)
    dels = [st for st, t, k in stores_in(unreg.node) if k == "del" and isinstance(t, ast.Subscript) and registry_expr(t.value)]
    clear_id = [n for st, t, k in stores_in(unreg.node) if k == "del" and isinstance(t, ast.Attribute) and t.attr == "_pyroId" for n in ucfg.nodes_for(st)]
    clear_dm = [n for st, t, k in stores_in(unreg.node) if k == "del" and isinstance(t, ast.Attribute) and t.attr == "_pyroDaemon" for n in ucfg.nodes_for(st)]
    dn = [n for st in dels for n in ucfg.nodes_for(st)]
    alt1 = bool(dn) and bool(clear_id) and bool(clear_dm) and \
        ucfg.all_paths_pass(dn, lambda n: n in clear_id, targets=[ucfg.exit]) and ucfg.all_paths_pass(dn, lambda n: n in clear_dm, targets=[ucfg.exit])
    R.check(alt1 or alt2, "C16-R4", "auto-proxy|only-while-registered",
            "proxyFor is reached only under an identity test of the object against its daemon's registry entry (or unregister always clears the marks)", ap.loc(pf[0]),
            "an object whose registration was removed by id keeps its _pyroDaemon mark and is still turned into a proxy (serialisation then fails "
            "with DaemonError) instead of travelling by value")
    marks = [n for st, t, k in stores_in(reg.node) if k == "assign" and isinstance(t, ast.Attribute) and t.attr in ("_pyroId", "_pyroDaemon")
             and unparse(t.value) == objp for n in cfg.nodes_for(st)]
    ids = {t.attr for st, t, k in stores_in(reg.node) if k == "assign" and isinstance(t, ast.Attribute) and t.attr in ("_pyroId", "_pyroDaemon") and unparse(t.value) == objp}
    ok = ids == {"_pyroId", "_pyroDaemon"} and all(any(cfg.dominates(m, n) for m in marks) for n in cfg.nodes_for(st0))
    R.check(ok, "C16-R4", "register|marks-before-entry", "_pyroId and _pyroDaemon are stored on the object before the registry entry appears", reg.loc(st0),
            "the registry entry can exist without the marks that auto-proxying relies on")

    c2d = ctx.fn("Pyro5.serializers.SerializerBase.class_to_dict")
    neutral = [st for st, t, k in stores_in(c2d.node) if isinstance(t, ast.Attribute) and t.attr == "_pyroDaemon"]
    okn = all(k_ == "assign" for st, t, k_ in stores_in(c2d.node) if isinstance(t, ast.Attribute) and t.attr == "_pyroDaemon")
    R.check(okn, "C16-R4", "class_to_dict|daemon-mark-never-deleted", "by-value serialisation never deletes the daemon mark from the instance (the mark may live on the registered class, where `del` on the instance fails)",
            c2d.loc(neutral[0]) if neutral else c2d.loc(),
            "class_to_dict deletes obj._pyroDaemon: for an instance of a class that was registered as a class the attribute lives on the class, the delete raises AttributeError and the object "
            "cannot travel by value after its class was unregistered by id")

    # ---------------------------------------------------------------- R5
    rt = [c for c, _ in ctx.cg.calls_of(reg) if isinstance(c.func, ast.Attribute) and c.func.attr == "register_type_replacement"]
    ok = bool(rt)
    why = "no register_type_replacement call"
    for c in rt:
        if not (len(c.args) == 2 and ctx.resolves_to_object(c.args[1], reg, "Pyro5.server._pyro_obj_to_auto_proxy")):
            ok = False
            why = "replacement function is not _pyro_obj_to_auto_proxy"
        loops = enclosing_loops(c, reg.node)
        if not loops or not any("serializers" in unparse(l.iter) for l in loops):
            ok = False
            why = "the replacement is not installed in a loop over all serializers"
    R.check(ok, "C16-R5", "register|replacement-for-every-serializer", "the auto-proxy hook is registered with every serializer", reg.loc(rt[0]) if rt else reg.loc(), why)
    # ... for the class itself when a class is registered and for the object's type otherwise: every pass through the loop body installs one
    rcfg_ = ctx.cfg(reg)
    rtn = [n for c in rt for n in ctx.node_of(reg, c)]
    loops_ = [l for c in rt for l in enclosing_loops(c, reg.node)]
    ok = bool(loops_)
    if ok:
        lp = loops_[0]
        heads = [n for n in rcfg_.nodes if n.kind == "for" and n.ast is lp]
        # from the loop head into the body and back to the head: must pass an installation
        ok = bool(heads) and rcfg_.all_paths_pass(heads, lambda n: n in rtn, edge_ok=lambda e: e.kind != "exc" and not (e.src in heads and e.polarity is False), targets=heads)
        objp_ = reg.params[1]
        forms = {unparse(c.args[0]) for c in rt if c.args}
        ok = ok and forms == {objp_, "type(%s)" % objp_}
    R.check(ok, "C16-R5", "register|replacement-on-every-branch", "each serializer gets the hook for the registered class, or for the type of the registered object",
            reg.loc(rt[0]) if rt else reg.loc(), "one of the two registration forms (class / instance) no longer installs the auto-proxy hook: such objects travel by value although registered")
    v = st0.value
    ok = isinstance(v, ast.IfExp) and any(isinstance(x, ast.Call) and dotted(x.func) == "weakref.ref" for x in (v.body, v.orelse))
    if ok:
        weak_branch_is_ref = (isinstance(v.orelse, ast.Call) and dotted(v.orelse.func) == "weakref.ref" and unparse(v.test) == "not weak") or \
                             (isinstance(v.body, ast.Call) and dotted(v.body.func) == "weakref.ref" and unparse(v.test) == "weak")
        ok = weak_branch_is_ref
    R.check(ok, "C16-R5", "register|weak-stores-weakref", "with weak=True the registry holds a weakref.ref, otherwise the object", reg.loc(st0),
            "the weak flag no longer selects a weak reference: `%s`" % unparse(v))
    fin = [c for c, _ in ctx.cg.calls_of(reg) if dotted(c.func) == "weakref.finalize"]
    ok = len(fin) == 1 and len(fin[0].args) >= 3 and isinstance(fin[0].args[1], ast.Attribute) and unparse(fin[0].args[1].value) == reg.self_name and unparse(fin[0].args[2]) == idp
    # the finalizer outlives the registration it was made for (unregister, forced re-registration): it removes the entry only if the entry is still THIS object's
    # reference - `self.unregister` itself as the callback removes whatever object was registered under the id in the meantime
    own_only, cb = False, None
    if ok:
        cbname = fin[0].args[1].attr
        cb = reg.cls.methods.get(cbname) or next((m for k_, m in reg.cls.methods.items() if k_.endswith(cbname)), None) if reg.cls is not None else None
        if cb is not None and cb.name != "unregister":
            ccfg = ctx.cfg(cb)
            unregs = [n for c in walk_no_nested(cb.node) if isinstance(c, ast.Call) and isinstance(c.func, ast.Attribute) and c.func.attr in ("unregister", "pop")
                      for n in ctx.node_of(cb, c)] + [n for st, t, k in stores_in(cb.node) if k == "del" and isinstance(t, ast.Subscript) and registry_expr(t.value) for n in ccfg.nodes_for(st)]

            def still_mine(atom, pol):
                if isinstance(atom, ast.Compare) and len(atom.ops) == 1 and isinstance(atom.ops[0], (ast.Is, ast.IsNot)):
                    sides = [atom.left, atom.comparators[0]]
                    raw = [x for x in sides if (isinstance(x, ast.Subscript) and registry_expr(x.value)) or
                           (isinstance(x, ast.Call) and isinstance(x.func, ast.Attribute) and x.func.attr == "get" and registry_expr(x.func.value))]
                    prm = [x for x in sides if isinstance(x, ast.Name) and x.id in cb.params]
                    return bool(raw) and bool(prm) and (pol is True) == isinstance(atom.ops[0], ast.Is)
                return False
            own_only = bool(unregs) and all(ccfg.guarded(n, lambda e: edge_has_fact(e, still_mine)) for n in unregs) and \
                len(fin[0].args) >= 4 and any((isinstance(a, ast.Subscript) and registry_expr(a.value)) or isinstance(a, ast.Name) for a in fin[0].args[3:])
    R.check(own_only, "C16-R5", "register|weak-finalizer-removes-only-its-own-entry", "the finalizer of a weak registration unregisters the id only while the entry is still that object's reference",
            (cb.loc() if cb is not None else reg.loc(fin[0])) if fin else reg.loc(),
            "the finalizer is `%s`: when the id was given to another object in the meantime (unregister + register, or register(.., force=True)), the collection of the FIRST object "
            "removes the second one's registration - calls to the id get 'unknown object' although that object is registered" % (unparse(fin[0].args[1]) if fin and len(fin[0].args) > 1 else "missing"))

    def weak_true(atom, pol):
        return pol is True and isinstance(atom, ast.Name) and atom.id == "weak"
    if ok:
        ok = all(cfg.guarded(n, lambda e: edge_has_fact(e, weak_true)) for n in ctx.node_of(reg, fin[0]))
    R.check(ok, "C16-R5", "register|weak-finalizer", "weak registration installs a finalizer that unregisters the id", reg.loc(fin[0]) if fin else reg.loc(),
            "a garbage-collected weakly registered object would stay in the registry as a dead reference")

    # a weak registration ends with the last reference to the object - so nothing in the daemon may keep references it was merely shown: the default handler for
    # errors in user code sees the exception of every failed call, and an exception holds its traceback, the frames, and in them `self` of the called method. A handler
    # that files the exception away (history, last-error attribute) keeps the object alive and its id registered for as long as the entry stays
    eh = ctx.fn("Pyro5.server._default_methodcall_error_handler")
    params = {a.arg for a in eh.node.args.args + eh.node.args.kwonlyargs}
    keeps = None
    for st, t, k in stores_in(eh.node):
        if isinstance(t, (ast.Attribute, ast.Subscript)) and getattr(st, "value", None) is not None and params & {n.id for n in ast.walk(st.value) if isinstance(n, ast.Name)}:
            keeps = keeps or st
    for c in walk_no_nested(eh.node):
        if not isinstance(c, ast.Call):
            continue
        fd = dotted(c.func) or ""
        if fd.split(".")[0] in ("log", "logging", "repr", "str", "type", "isinstance", "getattr", "hasattr", "print", "warnings", "traceback", "id", "format") or \
                (isinstance(c.func, ast.Attribute) and c.func.attr in ("format", "join") and isinstance(c.func.value, (ast.Constant, ast.JoinedStr))):
            continue
        handed = [a for a in list(c.args) + [kw.value for kw in c.keywords]
                  if params & {n.id for n in ast.walk(a) if isinstance(n, ast.Name) and not _only_described(a, n)}]
        if handed:
            keeps = keeps or c
    R.check(keeps is None, "C16-R5", "error-handler|keeps-no-reference-to-the-exception", "the default method-call error handler only describes its arguments (log text); it stores none of them",
            eh.loc(keeps) if keeps is not None else eh.loc(),
            ("`%s` keeps the exception (or the daemon/socket/method it was given): its traceback holds the frame of the failed method and with it the called object, so a weakly "
             "registered object is never collected and its id stays registered and callable after the application dropped it" % unparse(keeps, 90)) if keeps is not None else "")

    # ---------------------------------------------------------------- R6
    finalize_callbacks = {c.args[1].attr for g in p.functions.values() if g.module.name == "Pyro5.server" for c in walk_no_nested(g.node)
                          if isinstance(c, ast.Call) and dotted(c.func) == "weakref.finalize" and len(c.args) >= 2 and isinstance(c.args[1], ast.Attribute)}
    n_reads = 0
    for g in p.functions.values():
        if g.module.name not in ("Pyro5.server", "Pyro5.nameserver", "Pyro5.client", "Pyro5.core", "Pyro5.serializers"):
            continue
        for n in walk_no_nested(g.node):
            read = None
            if isinstance(n, ast.Subscript) and isinstance(n.ctx, ast.Load) and registry_expr(n.value):
                read, keyexpr = n, n.slice
            elif isinstance(n, ast.Call) and isinstance(n.func, ast.Attribute) and n.func.attr == "get" and registry_expr(n.func.value):
                read, keyexpr = n, (n.args[0] if n.args else None)
            if read is None:
                continue
            n_reads += 1
            key = "%s|%s" % (g.qualname.split(".", 2)[2], unparse(read, 60))
            parent = getattr(read, "_parent", None)
            if isinstance(parent, ast.Call) and ctx.is_call_to(parent, g, "Pyro5.server._unpack_weakref"):
                R.ok("C16-R6", key, "passed through _unpack_weakref", g.loc(read))
                continue
            if keyexpr is not None and isinstance(keyexpr, (ast.Attribute, ast.Name)) and ctx.resolves_to_object(keyexpr, g, DAEMON_NAME):
                R.ok("C16-R6", key, "the daemon's own entry (written only in __init__, strongly)", g.loc(read))
                continue
            if isinstance(parent, ast.Assign) and len(parent.targets) == 1 and isinstance(parent.targets[0], ast.Name):
                var = parent.targets[0].id
                unwrapped = any(isinstance(x, ast.Call) and isinstance(x.func, ast.Name) and x.func.id == "isinstance" and len(x.args) == 2 and
                                unparse(x.args[0]) == var and dotted(x.args[1]) == "weakref.ref" for x in walk_no_nested(g.node))
                if unwrapped:
                    R.ok("C16-R6", key, "assigned and unwrapped with isinstance(.., weakref.ref)", g.loc(read))
                    continue
            # the entry AS an entry: handed to a finalizer to be recognised later, and compared (identity) with such a remembered entry inside a finalizer callback
            if isinstance(parent, ast.Call) and dotted(parent.func) == "weakref.finalize" and read in parent.args[2:]:
                R.ok("C16-R6", key, "the raw entry is handed to the finalizer so that it can recognise its own registration", g.loc(read))
                continue
            if isinstance(parent, ast.Compare) and len(parent.ops) == 1 and isinstance(parent.ops[0], (ast.Is, ast.IsNot)) and g.name in finalize_callbacks and \
                    any(isinstance(x, ast.Name) and x.id in g.params for x in [parent.left, parent.comparators[0]] if x is not read):
                R.ok("C16-R6", key, "a finalizer callback compares the current entry with the entry it was made for (both raw)", g.loc(read))
                continue
            R.fail("C16-R6", key, "registry value is unwrapped before use", g.loc(read),
                   "`%s` uses the raw registry value: for a weakly registered object that is a weakref.ref, so identity tests fail and attribute "
                   "access reaches the reference instead of the object" % unparse(getattr(read, "_parent", read), 80))
    if n_reads < 5:
        raise AnalysisError("fewer registry value reads than expected (%d)" % n_reads)

    # ---------------------------------------------------------------- R7
    R.rule("C16-R7", "serialising a value never writes to it: the registration marks (_pyroId, _pyroDaemon) of a registered object survive being sent", floor=8)
    R.rule("C16-R8", "the registry is per daemon: created fresh in __init__", floor=1)
    R.rule("C16-R9", "a proxy (also the one Daemon.proxyFor builds for a returned object) rejects an object as exposing nothing only when it has neither methods nor attributes", floor=1)
    n7 = 0
    sermod = [g for g in p.functions.values() if g.module.name == "Pyro5.serializers" or g.qualname == "Pyro5.server._pyro_obj_to_auto_proxy"]
    roots7 = [g for g in sermod if g.name in ("class_to_dict", "default", "convert_obj_into_marshallable", "dumps", "dumpsCall", "_pyro_obj_to_auto_proxy") or g.name.startswith(("serpent_", "custom_"))]
    # ... and the helpers of the serializers module they hand (parts of) the value to: the state dict a helper receives may be the object's own __dict__
    reach7 = {g.qualname: g for g in roots7}
    work7 = list(roots7)
    while work7:
        g0 = work7.pop()
        for c0, tgs in ctx.cg.calls_of(g0):
            for t0 in tgs:
                if t0.kind == "fn" and t0.fn.module.name == "Pyro5.serializers" and t0.fn.qualname not in reach7 and not isinstance(t0.fn.node, ast.Lambda) \
                        and t0.fn.name not in ("__init__", "register_type_replacement", "register_class_to_dict", "register_dict_to_class", "unregister_class_to_dict", "unregister_dict_to_class"):
                    reach7[t0.fn.qualname] = t0.fn
                    work7.append(t0.fn)
    for g in sorted(reach7.values(), key=lambda g: g.qualname):
        nm = g.name
        subjects = set(g.params) - {g.self_name, "cls", "self"}
        bad = None
        for st, t, k in stores_in(g.node):
            base = t
            while isinstance(base, (ast.Attribute, ast.Subscript)):
                base = base.value
            if isinstance(t, (ast.Attribute, ast.Subscript)) and isinstance(base, ast.Name) and base.id in subjects:
                # a rebinding of the parameter to a fresh object first makes later stores harmless
                defs = [d for n in ctx.cfg(g).nodes_for(st) for d in ctx.rd(g).reaching(n, base.id)]
                if any(d.kind == "param" for d in defs):
                    bad = st
        for c in walk_no_nested(g.node):
            if isinstance(c, ast.Call) and isinstance(c.func, ast.Name) and c.func.id in ("setattr", "delattr") and c.args and isinstance(c.args[0], ast.Name) \
                    and c.args[0].id in subjects:
                bad = c
        n7 += 1
        R.check(bad is None, "C16-R7", "%s|read-only-on-its-argument" % g.qualname.split(".", 2)[2], "no attribute or item of the value being serialised is assigned or deleted", g.loc(),
                ("`%s` at %s modifies the object that is being serialised: a registered object sent once (by a serializer without auto-proxy hook) loses its registration mark and "
                 "travels by value to every client from then on" % (unparse(bad, 60), g.loc(bad))) if bad is not None else "")

    # ---------------------------------------------------------------- R8
    from .common import fresh_per_instance
    fresh_per_instance(ctx, R, "C16-R8", "Pyro5.server.Daemon", "objectsById", "all daemons of the process would share one registry: an id registered in one daemon is served by every other")

    # ---------------------------------------------------------------- R9
    pmeta = ctx.fn("Pyro5.client.Proxy.__processMetadata")
    pcfg = ctx.cfg(pmeta)
    raises = [n for n in pcfg.nodes if n.kind == "stmt" and isinstance(n.ast, ast.Raise)]
    if not raises:
        raise AnalysisError("Proxy.__processMetadata: the 'exposes nothing' refusal vanished")

    def empty(field):
        def pred(atom, pol):
            return isinstance(atom, ast.Attribute) and atom.attr == field and pol is False
        return pred
    for i, n in enumerate(raises):
        okm = pcfg.guarded(n, lambda e: edge_has_fact(e, empty("_pyroMethods")))
        oka = pcfg.guarded(n, lambda e: edge_has_fact(e, empty("_pyroAttrs")))
        R.check(okm and oka, "C16-R9", "__processMetadata|refusal#%d-needs-both-empty" % i, "raised only when the method set and the attribute set are both empty", pmeta.loc(n.ast),
                "the refusal is reached although %s may be non-empty: an object that exposes only %s cannot be connected to, and returning it from a method (auto-proxy) fails" % (
                    "_pyroAttrs" if okm else "_pyroMethods", "properties" if okm else "methods"))

    # a dead weak reference is recognised by identity with None (a live object that happens to be falsy is not dead)
    uw = ctx.fn("Pyro5.server._unpack_weakref")
    ucfg_ = ctx.cfg(uw)
    uraises = [n for n in ucfg_.nodes if n.kind == "stmt" and isinstance(n.ast, ast.Raise)]
    derefs = [st for st, t, k in stores_in(uw.node) if k == "assign" and isinstance(t, ast.Name) and isinstance(st.value, ast.Call) and not st.value.args
              and isinstance(st.value.func, ast.Name) and st.value.func.id == uw.params[0]]
    okd = len(derefs) == 1 and bool(uraises)
    if okd:
        rv = derefs[0].targets[0].id

        def is_none(atom, pol):
            return isinstance(atom, ast.Compare) and len(atom.ops) == 1 and unparse(atom.left) == rv and isinstance(atom.comparators[0], ast.Constant) and atom.comparators[0].value is None \
                and ((isinstance(atom.ops[0], ast.Is) and pol is True) or (isinstance(atom.ops[0], ast.IsNot) and pol is False))
        okd = all(ucfg_.guarded(n, lambda e: edge_has_fact(e, is_none)) for n in uraises)
    R.check(okd, "C16-R6", "_unpack_weakref|dead-means-None", "the 'deleted meanwhile' error is raised only when dereferencing returned None (identity test)", uw.loc(),
            "a live weakly registered object that is falsy (empty container, __bool__ False) is reported as deleted: its id is listed but unreachable")
    # blob calls: the annotation that tells the daemon which object the serialized blob is for names the object id the call is addressed to
    sb = ctx.fn("Pyro5.client.Proxy.__serializeBlobArgs")
    oid = "objectId" if "objectId" in sb.params else None
    blbi = [st for st, t, k in stores_in(sb.node) if isinstance(t, ast.Subscript) and isinstance(t.slice, ast.Constant) and t.slice.value == "BLBI"]
    okb = oid is not None and len(blbi) == 1 and oid in {n.id for n in ast.walk(blbi[0].value) if isinstance(n, ast.Name)} and \
        not any(isinstance(n, ast.Attribute) and n.attr == "object" for n in ast.walk(blbi[0].value))
    inv_ = ctx.fn("Pyro5.client.Proxy._pyroInvoke")
    call_sb = [c for c, _ in ctx.cg.calls_of(inv_) if isinstance(c.func, ast.Attribute) and c.func.attr.endswith("__serializeBlobArgs")]
    dcall = [c for c, _ in ctx.cg.calls_of(inv_) if isinstance(c.func, ast.Attribute) and c.func.attr == "dumpsCall"]
    same = bool(call_sb) and bool(dcall) and len(call_sb[0].args) >= 5 and dcall[0].args and unparse(call_sb[0].args[4]) == unparse(dcall[0].args[0])
    R.check(okb and same, "C16-R3", "blob-call|addressed-to-the-same-id", "a SerializedBlob call names, in its BLBI annotation, the object id an ordinary call would carry", sb.loc(),
            "the BLBI annotation does not carry the `objectId` of the call (e.g. the uri's object name instead): through a name-resolved proxy the blob reaches whatever is registered under that word")

    # a registered object is found whatever it looks like: every presence test on a value looked up in the registry is an identity test (shared with C08-R4:
    # get_metadata answers the connect handshake - `if obj:` would refuse the connection to a registered object that is empty / falsy)
    from ..report import Rules as _Rules
    from ..report import run_shared as _run_shared
    from . import c08 as _c08
    R8 = _Rules("C08")
    try:
        _run_shared(ctx, _c08, R8, tier)
    except AnalysisError as _shared_x:
        # the other property's own anchors are gone on this tree: its check reports that; what it produced before is still shared
        R.note("obligations shared from C08 are incomplete on this tree: %s" % _shared_x)
    shared = [o for o in R8.obs if o.key == "C08-R4|get_metadata|unknown-object-raises"]
    if not shared:
        R.note("the C08-R4 get_metadata instance was not produced on this tree (C08 reports why); nothing shared")
    for o in shared:
        R.add("C16-R3", "get_metadata|registered-means-not-None", "DaemonObject.get_metadata (the handshake's lookup) treats exactly `None` as unknown: a registered object that is "
              "falsy (an empty container-like object) is still connected to", o.ok, o.loc, o.detail)

    # ... and uriFor returns only a uri whose object part IS the id it was asked for: an id the uri syntax cannot carry (one containing '@': the parser cuts the object at
    # the first '@') is refused, instead of handing out a uri that addresses another id. register() validates its id through uriFor before anything is stored
    uf = ctx.fn("Pyro5.server.Daemon.uriFor")
    ucfg = ctx.cfg(uf)
    idv = uf.params[1]

    def names_the_id(atom, pol):
        if isinstance(atom, ast.Compare) and len(atom.ops) == 1 and isinstance(atom.ops[0], (ast.Eq, ast.NotEq)):
            sides = [unparse(atom.left), unparse(atom.comparators[0])]
            return idv in sides and any(x.endswith(".object") for x in sides) and (pol is True) == isinstance(atom.ops[0], ast.Eq)
        return False
    urets = [n for n in ucfg.nodes if n.kind == "stmt" and isinstance(n.ast, ast.Return)]
    if not urets:
        raise AnalysisError("uriFor: no return statement")
    oku = all(ucfg.guarded(n, lambda e: edge_has_fact(e, names_the_id)) for n in urets)
    R.check(oku, "C16-R3", "uriFor|returned-uri-names-the-id-it-was-asked-for", "uriFor returns only after comparing the parsed uri's object part with the id", uf.loc(urets[0].ast),
            "uriFor hands out whatever 'PYRO:<id>@<location>' parses to: for an id containing '@' that is a uri for ANOTHER id (the text before the first '@') at a mangled location - "
            "register() accepts the id, and the daemon's own uri, proxyFor and auto-proxies for the object address something else")
    # every uri the daemon hands out (register, uriFor, proxyFor, auto-proxies) is built from the raw id and parsed by core.URI: the id a proxy then asks for is the
    # registered one only if the parser takes the object part as it stands (shared with C19-R3)
    from . import c19 as _c19
    R19 = _Rules("C19")
    try:
        _run_shared(ctx, _c19, R19, tier)
    except AnalysisError as _shared_x:
        R.note("obligations shared from C19 are incomplete on this tree: %s" % _shared_x)
    for o in R19.obs:
        if o.key == "C19-R3|parser|object-part-taken-verbatim":
            R.add("C16-R3", "uri|names-the-registered-id", o.desc + " (an id such as 'job%41' is reached under that id, not under another one)", o.ok, o.loc, o.detail)


def _only_described(expr, name):
    """is this use of `name` inside `expr` one that only derives text or a plain attribute from it (repr(x), str(x), x.__qualname__, type(x).__name__)"""
    par = {}
    for n in ast.walk(expr):
        for ch in ast.iter_child_nodes(n):
            par[ch] = n
    up = par.get(name)
    if isinstance(up, ast.Call) and isinstance(up.func, ast.Name) and up.func.id in ("repr", "str", "type", "id") and name in up.args:
        return True
    if isinstance(up, ast.Attribute) and up.attr in ("__qualname__", "__name__", "__class__", "__module__"):
        return True
    return False
