"""C05 — No client input can stop the daemon or disturb other clients (DESIGN.md section 4, C05)."""
import ast
from ..engine.model import AnalysisError, dotted
from ..engine.context import unparse, enclosing_trys, enclosing_loops, enclosing_stmt, stores_in
from ..engine.cfg import handler_is_catch_all, facts_of, walk_no_nested, calls_in, no_exc
from ..engine.guards import reached_under, isinstance_atom, flag_test_atom, eval_test

EXPLANATION = (
    "Static exception-containment analysis of the server loops. Decided: no Exception class that a peer can cause "
    "(explicit raises, socket errors, third-party decoders, user code behind dispatch, user hooks) can leave an "
    "accept/event/worker loop root; loop handlers do not end the loop; a worker always returns to the pool; "
    "everything after the receive in Daemon.handleRequest is under a catch-all that replies under exactly the documented "
    "conditions (finite truth table over the exception-class lattice); unserialisable exceptions are replaced; every "
    "handshake call site is contained; the peer-controlled annotation walk terminates (unsigned lengths, positive advance, ordering "
    "test as loop condition)."
    'Also decided: definite assignment of every local in the modules of the request path (two named exceptions); housekeeping deletes only after a fresh look-up; accept() errors end the multiplex loop only for a destroyed server socket. '
    "Also decided (round 7): The worker's event is cleared before the job slot is read and not again before the next wait; a worker is handed back only by a thread that stays alive (not from a finally). Text built from an exception caught by a catch-all handler (str, repr, %-format, format, f-string) counts as user code that may raise. "
    'Also decided (round 9): Every socket.timeout handler of receive_data ends the read with TimeoutError (a stalled peer costs at most COMMTIMEOUT). '
    "Also decided (round 11): Nothing switches the accepted socket's blocking mode after the communication timeout was put on it; every name read in the request-path modules is bound somewhere. "
    "Also decided (round 10): A refused peer is neither read from nor waited for between the answer and the close (shared from C08); the pool's capacity is what its two sets say and a new worker is counted only once started (shared from C18). "
    "Also decided (round 12): The receiver's size refusal looks at data AND annotation length (shared from C06). "
    "Not decided: correctness of the replies to well-behaved clients, accounting values, "
    "liveness against a peer that stalls without disconnecting."
)

ROOTS = [
    "Pyro5.svr_threads.SocketServer_Threadpool.loop",
    "Pyro5.svr_multiplex.SocketServer_Multiplex.loop",
    "Pyro5.svr_threads.Worker.run",
]

# named exemptions: (class, origin) pairs that may leave a root, one reason each
EXEMPT = {
    ("Pyro5.svr_threads.PoolError", "raise@Pyro5.svr_threads.Pool.process"):
        "raised only when the pool was closed, i.e. during shutdown by the owner",
    ("Pyro5.errors.ConnectionClosedError", "raise@Pyro5.svr_multiplex.SocketServer_Multiplex._handleConnection"):
        "raised for EBADF/ENOTSOCK on the *server* socket: the loop is meant to end",
    ("builtins.AssertionError", "assert@Pyro5.svr_threads.SocketServer_Threadpool.events"):
        "`assert self.sock in eventsockets` checks the caller of events(), not anything a peer sends",
}


def run(ctx, R, tier):
    p = ctx.p
    es = ctx.escape
    R.rule("C05-R1", "no exception class a peer can trigger escapes a server loop root "
                     "(interprocedural may-raise analysis with handler subtraction; named exemptions only)", floor=3)
    R.rule("C05-R1b", "handlers inside a root loop do not end the loop (break/return only when the loop condition is already false)", floor=3)
    R.rule("C05-R2", "Worker.run: every path from the job call passes `pool.notify_done(self)` with the job slot cleared first", floor=2)
    R.rule("C05-R3", "Daemon.handleRequest: all code after the receive is under a catch-all; the error reply is sent exactly when "
                     "the request is not oneway, the error is not ConnectionClosedError and it is a SerializeError or not a "
                     "CommunicationError (truth table over the exception lattice)", floor=3)
    R.rule("C05-R4", "_sendExceptionResponse: serialisation of the exception is under a catch-all that substitutes a PyroError built from text", floor=2)
    R.rule("C05-R5", "every call site of Daemon._handshake is contained (lexically under a catch-all try)", floor=3)
    R.rule("C05-R8", "definite assignment: no function of the request path (server, transports, protocol, socket layer, serializers, core, call context, client) reads a local that some path leaves unassigned (an unexpected NameError on an error path "
                     "replaces the real error and, outside a catch-all, ends a loop)", floor=10)
    R.rule("C05-R6", "the peer-controlled annotation walk makes progress: chunk lengths are decoded unsigned and the cursor advances by a positive "
                     "constant plus the declared length (shared with C06-R3/R5)", floor=3)

    # ---------------------------------------------------------------- R1
    for root in ROOTS:
        f = ctx.fn(root)
        items = es.escapes(root)
        bad = 0
        for (cls, origin), chain in sorted(items.items()):
            if not es.is_exception(cls):
                continue
            key = "%s|%s|%s" % (root, cls, origin)
            if (cls, origin) in EXEMPT:
                R.ok("C05-R1", key, "exempt: " + EXEMPT[(cls, origin)], f.loc())
                continue
            bad += 1
            R.fail("C05-R1", key, "%s may escape loop root %s" % (cls, root), f.loc(),
                   "witness: " + " ; ".join(chain))
        R.check(True, "C05-R1", "%s|contained" % root,
                "escape set of root computed (%d item(s), %d not exempt)" % (len(items), bad), f.loc())

    # ---------------------------------------------------------------- R6 (termination of the peer-controlled annotation walk)
    from ..report import Rules
    from ..report import run_shared as _run_shared
    from . import c06
    R6 = Rules("C06")
    try:
        _run_shared(ctx, c06, R6, tier)
    except AnalysisError as _shared_x:
        # the other property's own anchors are gone on this tree: its check reports that; what it produced before is still shared
        R.note("obligations shared from C06 are incomplete on this tree: %s" % _shared_x)
    for o in R6.obs:
        if o.rule == "C06-R4" and o.key.split("|")[1] == "receiver":
            # an oversized message is refused on its 40 header bytes: the refusal looks at data AND annotation length - otherwise a hostile header makes the daemon buffer
            # gigabytes while it holds a worker or the multiplex loop
            R.add("C05-R6", "receiver|" + o.key.split("|", 2)[2], o.desc + " (a peer cannot make the daemon read an oversized body)", o.ok, o.loc, o.detail)
        if o.key == "C06-R3|decoder|chunk-length-unsigned":
            R.add("C05-R6", "decoder|chunk-length-unsigned", o.desc + " (a negative length would keep the cursor from advancing: the worker / the multiplex "
                  "thread would spin forever on one hostile message)", o.ok, o.loc, o.detail)
    # a peer that stalls in the middle of a message must cost no more than the communication timeout: every socket.timeout handler of the read loop ends the read with
    # TimeoutError (shared with C17-R2) - one that sleeps and goes on lets a client that sends a few bytes and then nothing hold its worker (or the multiplex loop) for ever
    from . import c17 as _c17
    R17_ = Rules("C17")
    try:
        _run_shared(ctx, _c17, R17_, tier)
    except AnalysisError as _shared_x:
        # the other property's own anchors are gone on this tree: its check reports that; what it produced before is still shared
        R.note("obligations shared from C17 are incomplete on this tree: %s" % _shared_x)
    for o in R17_.obs:
        if o.rule == "C17-R2" and o.key.split("|")[1] == "receive_data" and o.key.endswith(":TimeoutError"):
            R.add("C05-R1b", "receive_data|" + o.key.split("|", 2)[2], o.desc + " (a stalled peer is dropped after COMMTIMEOUT instead of holding a worker or the event loop)", o.ok, o.loc, o.detail)
    # a refused peer costs the daemon nothing after the refusal: nothing reads from it or waits for it between the answer and the close (shared with C08-R2) - on the
    # multiplex server and on the thread pool's accept thread a blocking read there stops the daemon for everybody
    from . import c08 as _c08
    R08_ = Rules("C08")
    try:
        _run_shared(ctx, _c08, R08_, tier)
    except AnalysisError as _shared_x:
        R.note("obligations shared from C08 are incomplete on this tree: %s" % _shared_x)
    for o in R08_.obs:
        if o.key in ("C08-R2|handleConnection|refusal-closes-without-waiting", "C08-R2|_handshake|returns-once-the-answer-is-sent"):
            R.add("C05-R1b", o.key.split("|", 1)[1], o.desc + " (a refused client cannot hold a worker, the accept thread or the multiplex loop)", o.ok, o.loc, o.detail)
    # the pool's capacity is what its two sets say: a worker that ends is in neither, so capacity cannot leak whichever way connections end (shared with C18-R3/R4).
    # A separate counter that one retirement path forgets leaves a pool that refuses clients although its workers are idle - the daemon no longer accepts connections
    from . import c18 as _c18
    R18_ = Rules("C18")
    try:
        _run_shared(ctx, _c18, R18_, tier)
    except AnalysisError as _shared_x:
        R.note("obligations shared from C18 are incomplete on this tree: %s" % _shared_x)
    for o in R18_.obs:
        if o.key in ("C18-R3|Pool.num_workers|counts-both-sets", "C18-R3|Pool.process|new-worker-under-bound", "C18-R4|Pool.notify_done|leaves-busy",
                     "C18-R4|Pool.notify_done|idle-or-retired", "C18-R3|Pool.process|new-worker-counted-only-once-started"):
            R.add("C05-R1b", o.key.split("|", 1)[1], o.desc + " (no sequence of connections, however they end, uses up the pool's capacity)", o.ok, o.loc, o.detail)
    ap = ctx.fn("Pyro5.protocol.ReceivingMessage.add_payload")
    apcfg = ctx.cfg(ap)
    aprd = ctx.rd(ap)
    wl = [n for n in walk_no_nested(ap.node) if isinstance(n, ast.While)]
    if len(wl) != 1 or not isinstance(wl[0].test, ast.Compare):
        raise AnalysisError("add_payload: annotation walk loop vanished")
    cur = unparse(wl[0].test.left)
    incs = [n for n in walk_no_nested(wl[0]) if isinstance(n, ast.AugAssign) and unparse(n.target) == cur]
    ok = len(incs) >= 1
    why = "the loop never advances its cursor"
    for inc in incs:
        v = inc.value
        parts = [v.left, v.right] if isinstance(v, ast.BinOp) and isinstance(v.op, ast.Add) else [v]
        pos_const = any(isinstance(x, ast.Constant) and isinstance(x.value, int) and x.value > 0 for x in parts)
        rest_ok = True
        for x in parts:
            if isinstance(x, ast.Constant):
                continue
            nonneg = isinstance(x, ast.Call) and unparse(x.func) == "len"
            if isinstance(x, ast.Name):
                defs = aprd.reaching(apcfg.nodes_for(inc)[0], x.id)
                nonneg = bool(defs) and all(d.value is not None and isinstance(d.value, ast.Call) and
                                            (unparse(d.value.func) in ("len", "int.from_bytes") or dotted(d.value.func) in ("struct.unpack", "struct.unpack_from"))
                                            for d in defs)
            rest_ok = rest_ok and nonneg
        if not (isinstance(inc.op, ast.Add) and pos_const and rest_ok):
            ok = False
            why = "`%s` does not advance the cursor by a positive constant plus a non-negative amount" % unparse(inc)
    if ok:
        ln = [n for n in apcfg.nodes if n.kind == "test" and n.ast is wl[0]]
        inn = [n for i in incs for n in apcfg.nodes_for(i)]
        body_first = [e.dst for n in ln for e in n.succ if e.kind == "true"]
        ok = apcfg.all_paths_pass(ln, lambda n: n in inn, edge_ok=lambda e: e.kind != "exc" and not (e.src in ln and e.kind == "false"), targets=ln)
        why = "an iteration of the annotation walk can return to the loop test without advancing the cursor"
    okt = isinstance(wl[0].test, ast.Compare) and len(wl[0].test.ops) == 1 and isinstance(wl[0].test.ops[0], (ast.Lt, ast.LtE))
    R.check(okt, "C05-R6", "add_payload|loop-bounded-by-order", "the walk runs while cursor < bound (it ends as soon as the cursor reaches OR passes the bound)", ap.loc(wl[0]),
            "the loop condition `%s` is not an ordering test: a chunk whose declared length overshoots the annotations region makes the cursor jump past the bound and the loop never ends" % unparse(wl[0].test))
    R.check(ok, "C05-R6", "add_payload|cursor-always-advances", "every iteration advances the cursor by a positive constant plus a non-negative amount", ap.loc(wl[0]), why)

    # ---------------------------------------------------------------- R1b
    for root in ROOTS:
        f = ctx.fn(root)
        cfg = ctx.cfg(f)
        loops = [n for n in walk_no_nested(f.node) if isinstance(n, ast.While)]
        if not loops:
            raise AnalysisError("root %s has no while loop" % root)
        loop = loops[0]
        handlers = []
        for n in walk_no_nested(loop):
            if isinstance(n, ast.Try):
                handlers += n.handlers
        if not handlers:
            raise AnalysisError("root %s: no exception handler inside the loop" % root)
        for h in handlers:
            classes = [dotted(t) for t in (h.type.elts if isinstance(h.type, ast.Tuple) else [h.type])] if h.type is not None else ["<bare>"]
            if classes == ["KeyboardInterrupt"]:
                continue
            key = "%s|except %s" % (root, ",".join(str(c) for c in classes))
            enders = []
            for st in h.body:
                for n in walk_no_nested(st):
                    if isinstance(n, (ast.Break, ast.Return, ast.Raise)):
                        # a break belonging to a loop nested inside the handler does not end the root loop
                        inner = [l for l in enclosing_loops(n, f.node) if l is not loop and _inside(l, h)]
                        if isinstance(n, ast.Break) and inner:
                            continue
                        enders.append(n)
            ok = True
            why = ""
            for e in enders:
                def is_fact(edge):
                    if edge.test is None:
                        return False
                    for t_ in edge.tests():
                        for atom, pol in facts_of(t_, edge.polarity):
                            if pol is False and isinstance(atom, ast.Call) and unparse(atom.func) == "loopCondition":
                                return True
                    return False
                for node in cfg.nodes_for(e):
                    if not cfg.guarded(node, is_fact):
                        ok = False
                        why = "%s at %s ends the loop while the loop condition may still hold" % (type(e).__name__.lower(), f.loc(e))
            R.check(ok, "C05-R1b", key, "handler keeps the loop running", f.loc(h), why)

    worker_loop_rules(ctx, R, "C05-R2")

    # ---------------------------------------------------------------- R3
    f = ctx.fn("Pyro5.server.Daemon.handleRequest")
    body = f.node.body
    recv_calls = ctx.calls_to(f, "Pyro5.protocol.recv_stub")
    if len(recv_calls) != 1:
        raise AnalysisError("handleRequest: expected exactly one recv_stub call")
    recv_top = recv_calls[0]
    while getattr(recv_top, "_parent", None) is not f.node:
        recv_top = recv_top._parent
    idx = body.index(recv_top)
    after = body[idx + 1:]
    catch = None
    ok = True
    why = ""
    for st in after:
        if isinstance(st, ast.Try) and any(handler_is_catch_all(h) for h in st.handlers):
            catch = st
            continue
        # anything else after the receive must not be able to raise
        if any(isinstance(n, ast.Call) for n in walk_no_nested(st)) or isinstance(st, (ast.Raise, ast.Assert)):
            ok = False
            why = "statement at %s after the receive is outside the catch-all try" % f.loc(st)
    if catch is None:
        ok = False
        why = why or "no try with a catch-all handler follows the receive"
    R.check(ok, "C05-R3", "handleRequest|catch-all-covers", "everything after the receive lies in a try with `except Exception`",
            f.loc(catch) if catch is not None else f.loc(), why)
    if catch is not None:
        H = [h for h in catch.handlers if handler_is_catch_all(h)][0]
        xv = H.name
        from ..engine.context import locals_assigned
        flagvars = set(locals_assigned(f, lambda v: isinstance(v, ast.Attribute) and v.attr == "flags"))
        cbvars = set(locals_assigned(f, lambda v: isinstance(v, ast.Call) and isinstance(v.func, ast.Name) and v.func.id == "getattr" and len(v.args) >= 2
                                     and isinstance(v.args[1], ast.Constant) and v.args[1].value == "_pyroCallback"))
        if not flagvars or not cbvars:
            raise AnalysisError("handleRequest: locals holding the request flags / the callback mark vanished")
        sends = [c for c in ctx.calls_to(f, "Pyro5.server.Daemon._sendExceptionResponse") if _inside(c, H)]
        raises = [n for st in H.body for n in walk_no_nested(st) if isinstance(n, ast.Raise)]
        if not sends:
            R.fail("C05-R3", "handleRequest|error-reply-table", "error reply is sent from the catch-all handler", f.loc(H),
                   "no call of _sendExceptionResponse in the catch-all handler")
        else:
            cases = ["Pyro5.errors.ConnectionClosedError", "Pyro5.errors.TimeoutError", "Pyro5.errors.ProtocolError",
                     "Pyro5.errors.SerializeError", "Pyro5.errors.MessageTooLargeError", "Pyro5.errors.CommunicationError",
                     "Pyro5.errors.SecurityError", "Pyro5.errors.DaemonError", "Pyro5.errors.NamingError", "Pyro5.errors.PyroError",
                     "builtins.ValueError", "builtins.Exception", "builtins.AttributeError"]
            for c in cases:
                if c.startswith("Pyro5.") and c not in p.classes:
                    raise AnalysisError("anchor class vanished: %s" % c)
            mism = []
            unknown = []
            n_cases = 0
            for cls in cases:
                for oneway in (False, True):
                    for cb in (False, True):
                        def atom(test, cls=cls, oneway=oneway, cb=cb):
                            ia = isinstance_atom(test)
                            if ia and ia[0] == xv:
                                cs = [es.class_of_expr(e, f) for e in ia[1]]
                                if any(x is None for x in cs):
                                    return None
                                return any(es.is_sub(cls, x) for x in cs)
                            fa = flag_test_atom(test)
                            if fa and unparse(fa[0]) in flagvars and ctx.resolves_to_object(fa[1], f, "Pyro5.protocol.FLAGS_ONEWAY"):
                                return oneway
                            if isinstance(test, ast.Name) and test.id in cbvars:
                                return cb
                            return None
                        n_cases += 1
                        sent = [reached_under(s, H, atom) for s in sends]
                        if any(v is None for v in sent):
                            unknown.append(cls)
                            continue
                        got = any(sent)
                        want = (not oneway) and not es.is_sub(cls, "Pyro5.errors.ConnectionClosedError") and \
                            (es.is_sub(cls, "Pyro5.errors.SerializeError") or not es.is_sub(cls, "Pyro5.errors.CommunicationError"))
                        if got != want:
                            mism.append("%s oneway=%s: reply %s, documented %s" % (cls.split(".")[-1], oneway,
                                                                                   "sent" if got else "not sent", "sent" if want else "not sent"))
            R.check(not mism and not unknown, "C05-R3", "handleRequest|error-reply-table",
                    "error reply condition equals the documented one on %d abstract cases" % n_cases, f.loc(sends[0]),
                    "; ".join(sorted(set(mism))[:6]) or "reply is conditional on a test the rule cannot evaluate: %s" % sorted(set(unknown))[:3])
        # the reply uses the caught exception and a traceback
        ok = False
        for s in sends:
            args = [unparse(a) for a in s.args]
            if xv in args:
                ok = True
        R.check(ok, "C05-R3", "handleRequest|reply-carries-exception", "the error reply is built from the caught exception",
                f.loc(H), "no _sendExceptionResponse call passes the caught exception object")

    # ---------------------------------------------------------------- R4
    f = ctx.fn("Pyro5.server.Daemon._sendExceptionResponse")
    dumps_calls = [c for c, tgs in ctx.cg.calls_of(f) if any(t.kind == "fn" and t.fn.name == "dumps" for t in tgs)]
    dumps_calls.sort(key=lambda c: (c.lineno, c.col_offset))
    if not dumps_calls:
        raise AnalysisError("_sendExceptionResponse: no serializer dumps call")
    first = dumps_calls[0]
    trys = [t for t, part in enclosing_trys(first, f.node) if part == "body" and any(handler_is_catch_all(h) for h in t.handlers)]
    R.check(bool(trys), "C05-R4", "_sendExceptionResponse|first-dumps-guarded", "the first dumps of the exception is inside a try with a catch-all",
            f.loc(first), "serialising the exception object is not protected by a catch-all handler")
    ok = False
    why = "no fallback"
    if trys:
        H = [h for h in trys[0].handlers if handler_is_catch_all(h)][0]
        fallback = [c for c in dumps_calls if _inside(c, H)]
        why = "the catch-all handler does not serialise a replacement"
        for c in fallback:
            if c.args and isinstance(c.args[0], ast.Name):
                nm = c.args[0].id
                for st in H.body:
                    for n in walk_no_nested(st):
                        if isinstance(n, ast.Assign) and any(isinstance(t, ast.Name) and t.id == nm for t in n.targets) and isinstance(n.value, ast.Call):
                            cls = es.class_of_expr(n.value.func, f)
                            if cls and es.is_sub(cls, "Pyro5.errors.PyroError") and not es.is_sub(cls, "Pyro5.errors.CommunicationError"):
                                ok = True
                            else:
                                why = "replacement exception is %s, not a plain PyroError" % cls
    R.check(ok, "C05-R4", "_sendExceptionResponse|fallback-pyroerror", "the handler serialises a PyroError built from strings instead", f.loc(first), why)

    # ---------------------------------------------------------------- R5
    sites = ctx.cg.callers_of("Pyro5.server.Daemon._handshake")
    if tier == "thorough":
        seen = {id(c) for _, c in sites}
        for g, c in ctx.cg.callers_by_name("_handshake"):
            if id(c) not in seen:
                sites.append((g, c))
    for g, c in sites:
        trys = [t for t, part in enclosing_trys(c, g.node) if part == "body" and any(handler_is_catch_all(h) for h in t.handlers)]
        R.check(bool(trys), "C05-R5", "%s|_handshake" % g.qualname, "handshake call is under a catch-all try", g.loc(c),
                "an exception of Daemon._handshake (send failure, annotation/serialisation error) leaves %s" % g.qualname)

    # housekeeping runs inside the multiplex request loop (unguarded) and in the housekeeper thread: it must not be able to raise
    from .common import housekeeping_relookup
    housekeeping_relookup(ctx, R, "C05-R1b")
    # the one exemption of R1 that depends on a condition: the accept error that ends the loop is raised only for a destroyed server socket
    hc = ctx.fn("Pyro5.svr_multiplex.SocketServer_Multiplex._handleConnection")
    hccfg = ctx.cfg(hc)
    hraises = [n for n in hccfg.nodes if n.kind == "stmt" and isinstance(n.ast, ast.Raise) and n.ast.exc is not None]

    def destroyed(atom, pol):
        if pol is True and isinstance(atom, ast.Compare) and len(atom.ops) == 1 and isinstance(atom.ops[0], ast.In) and unparse(atom.comparators[0]).endswith(("ERRNO_BADF", "ERRNO_ENOTSOCK")):
            return True
        return False
    from .c03 import edge_implies_any
    okh = bool(hraises) and all(hccfg.guarded(n, lambda e: edge_implies_any(e, [destroyed])) for n in hraises)
    R.check(okh, "C05-R1b", "_handleConnection|loop-ending-error-only-for-destroyed-server-socket", "accept() errors end the multiplex loop only for EBADF/ENOTSOCK (the server socket itself is gone)",
            hc.loc(hraises[0].ast) if hraises else hc.loc(),
            "an accept() failure that a client can provoke (TLS garbage, descriptor exhaustion) raises out of the request loop: the daemon stops serving everybody")
    # the configured communication timeout is put on the accepted connection (not on the listening socket): without it a peer that stops mid-message strands its worker
    for fq in ("Pyro5.svr_threads.SocketServer_Threadpool.events", "Pyro5.svr_multiplex.SocketServer_Multiplex._handleConnection"):
        g = ctx.fn(fq)
        acc = [st for st, t, k in stores_in(g.node) if isinstance(st.value, ast.Call) and isinstance(st.value.func, ast.Attribute) and st.value.func.attr == "accept"]
        accepted = None
        if acc:
            tg = acc[0].targets[0]
            accepted = tg.elts[0].id if isinstance(tg, ast.Tuple) and isinstance(tg.elts[0], ast.Name) else (tg.id if isinstance(tg, ast.Name) else None)
        sts = [c for c in walk_no_nested(g.node) if isinstance(c, ast.Call) and isinstance(c.func, ast.Attribute) and c.func.attr == "settimeout"]
        ok = accepted is not None and len(sts) >= 1 and all(unparse(c.func.value) == accepted and c.args and unparse(c.args[0]).endswith("COMMTIMEOUT") for c in sts)
        # ... and stays on it: setblocking(True) IS settimeout(None), setblocking(False) is settimeout(0.0) - either one after the settimeout replaces the configured timeout
        undone = [c for c in walk_no_nested(g.node) if isinstance(c, ast.Call) and isinstance(c.func, ast.Attribute) and c.func.attr == "setblocking" and unparse(c.func.value) == accepted]
        R.check(not undone, "C05-R1b", "%s|timeout-not-replaced-by-setblocking" % g.name, "nothing switches the accepted socket's blocking mode after the timeout was put on it", g.loc(undone[0]) if undone else g.loc(),
                "`%s` on the accepted connection replaces the timeout that settimeout(config.COMMTIMEOUT) had set (setblocking(True) is settimeout(None)): a client that stalls in the "
                "middle of a message holds its worker for as long as it likes" % (unparse(undone[0], 50) if undone else ""))
        R.check(ok, "C05-R1b", "%s|timeout-on-the-accepted-socket" % g.name, "config.COMMTIMEOUT is set on the socket that accept() returned", g.loc(sts[0]) if sts else g.loc(),
                "settimeout is applied to `%s`, not to the accepted connection `%s`: with COMMTIMEOUT configured a client that stops in the middle of a message holds its worker "
                "(or the refusing accept loop) for ever" % (unparse(sts[0].func.value) if sts else "?", accepted))
    # ---------------------------------------------------------------- R8
    from ..engine.dataflow import possibly_undefined
    # named exceptions, confirmed by reading; the variable is identified by how it is defined / where it is read, not by its name
    def excused(g, nm, x):
        par = getattr(x, "_parent", None)
        if g.qualname == "Pyro5.server.Daemon.handleRequest" and isinstance(par, ast.Call) and isinstance(par.func, ast.Attribute) and par.func.attr == "dumps":
            # the result variable: only the oneway-thread branch leaves it unset, and that branch is followed by `if request_flags & FLAGS_ONEWAY: return`
            return True
        if g.qualname == "Pyro5.svr_threads.SocketServer_Threadpool.close":
            # the variable assigned from self.sock.getsockname(): read inside `with contextlib.suppress(Exception)` after the close; unset only if getsockname() failed
            defs = [st for st, t, k in stores_in(g.node) if isinstance(t, ast.Name) and t.id == nm]
            return bool(defs) and all("getsockname(" in unparse(st.value) for st in defs)
        return False
    by_mod = {}
    for g in p.functions.values():
        mn = g.module.name
        # scope: the modules a request passes through on its way from the socket to the user's method and back (and the client half, whose obligations C07
        # shares); tools, the name server application, configuration and the compatibility layer are not on that path, and a path-insensitive
        # definite-assignment rule must not be armed where the property does not need it
        if mn not in R8_MODULES or isinstance(g.node, ast.Lambda):
            continue
        hits = [(nm, x) for nm, node, x in possibly_undefined(ctx.cfg(g), g.node, g.params) if not excused(g, nm, x)]
        by_mod.setdefault(mn, []).append((g, hits))
    for mn in sorted(by_mod):
        bad = [(g, h) for g, hs in by_mod[mn] for h in hs]
        R.check(not bad, "C05-R8", "module|%s" % mn, "every local read in the %d functions of this module is assigned on all paths leading to the read" % len(by_mod[mn]), mn.replace(".", "/") + ".py",
                ("`%s` can be read at %s before it is assigned on some path through %s (NameError at run time)" % (bad[0][1][0], bad[0][0].loc(bad[0][1][1]), bad[0][0].qualname)) if bad else "")

    from .common import names_bound
    names_bound(ctx, R, "C05-R8", R8_MODULES, "in a containing handler or on an error path of the request loop that is an exception of a class nothing expects")

R8_MODULES = frozenset("Pyro5." + m for m in ("server", "svr_threads", "svr_multiplex", "svr_existingconn", "protocol", "socketutil", "serializers", "core",
                                                "callcontext", "client"))


def worker_loop_rules(ctx, R, rid):
    """shared by C05-R2 and C18-R4: every path from the job call passes notify_done; the slot is cleared first"""
    es = ctx.escape
    f = ctx.fn("Pyro5.svr_threads.Worker.run")
    cfg = ctx.cfg(f)
    job_calls = [c for c in [n for n in walk_no_nested(f.node) if isinstance(n, ast.Call)] if unparse(c.func) == "self.job"]
    nd_calls = ctx.calls_to(f, "Pyro5.svr_threads.Pool.notify_done")
    if len(job_calls) != 1 or not nd_calls:
        raise AnalysisError("Worker.run: expected one `self.job()` call and a notify_done call")
    job_nodes = ctx.node_of(f, job_calls[0])
    nd_stmts = {id(enclosing_stmt(c)) for c in nd_calls}
    wait_nodes = [n for n in cfg.nodes if n.kind == "stmt" and any(unparse(c.func).endswith("job_available.wait") for c in calls_in(n))]

    can_raise = ctx.exc_filter(f)
    ok = cfg.all_paths_pass(job_nodes, lambda n: id(n.ast) in nd_stmts, edge_ok=can_raise,
                            targets=[cfg.exit, cfg.raise_exit] + wait_nodes)
    R.check(ok, rid, "Worker.run|job->notify_done", "every path from self.job() reaches pool.notify_done(self) before the next wait / exit",
            f.loc(job_calls[0]), "a path from the job call reaches the next wait or the function exit without notify_done")
    # job slot cleared before notify_done
    clear = [n for n in cfg.nodes if n.kind == "stmt" and isinstance(n.ast, ast.Assign) and any(unparse(t) == "self.job" for t in n.ast.targets)
             and isinstance(n.ast.value, ast.Constant) and n.ast.value.value is None]
    ndn = [n for n in cfg.nodes if id(n.ast) in nd_stmts]
    ok = bool(clear) and all(cfg.all_paths_pass(job_nodes, lambda n: n in clear, edge_ok=can_raise, targets=[x]) for x in ndn)
    R.check(ok, rid, "Worker.run|slot-cleared", "`self.job = None` lies on every path from the job call to notify_done", f.loc(),
            "notify_done can be reached from the job call without clearing the job slot")
    # the signal protocol between pool and worker: each round waits for the event and clears it BEFORE the job slot is read - a clear() that comes later (after
    # notify_done, where the pool may already have re-signalled the worker with its next job or with the None that retires it) wipes that signal and the thread
    # waits for ever, alive but in neither set
    from ..engine.cfg import stmt_exprs as _stmt_exprs
    waits = [n for c in walk_no_nested(f.node) if isinstance(c, ast.Call) and unparse(c.func) == "self.job_available.wait" for n in ctx.node_of(f, c)]
    clears = [n for c in walk_no_nested(f.node) if isinstance(c, ast.Call) and unparse(c.func) == "self.job_available.clear" for n in ctx.node_of(f, c)]
    reads = [n for n in cfg.nodes if n.kind in ("test", "stmt") and any(unparse(x) == "self.job" and isinstance(x.ctx, ast.Load) for e_ in _stmt_exprs(n) for x in ast.walk(e_) if isinstance(x, ast.Attribute))]
    ok_ev = bool(waits) and bool(clears) and bool(reads) and all(any(cfg.dominates(w, c_) for w in waits) for c_ in clears) and \
        all(any(cfg.dominates(c_, r) for c_ in clears) for r in reads) and \
        all(cfg.all_paths_pass([r], lambda n: n in waits, edge_ok=no_exc, targets=[r]) for r in reads[:1])
    # ... and nothing clears the event between handing the worker back (notify_done) and the next wait
    late = [c_ for c_ in clears if any(cfg.path_exists([x], lambda n, c_=c_: n is c_, edge_ok=no_exc, node_blocked=lambda n: n in waits) for x in ndn)]
    R.check(ok_ev and not late, rid, "Worker.run|event-waited-and-cleared", "each round of the worker loop waits for the event and clears it before it reads the job slot, and not again before the next wait", f.loc(),
            "the worker reads its job slot without a fresh wait()/clear() of the event, or clears the event after notify_done: a signal the pool sent in between (next job, or the "
            "None that retires a surplus worker) is wiped and the thread waits for ever while the pool no longer lists it")
    # the worker goes back to the pool only on paths on which its thread goes on to wait for the next job: not from a `finally` (which also runs while
    # SystemExit / KeyboardInterrupt from the job is ending the thread) and not from a handler of more than Exception - an idle worker whose thread is dead
    # accepts the next connection and never serves or refuses it
    bad = None
    for c in nd_calls:
        n, child = getattr(c, "_parent", None), c
        while n is not None and n is not f.node:
            if isinstance(n, ast.Try) and any(child is x for x in n.finalbody):
                bad = "in a `finally`"
            if isinstance(n, ast.ExceptHandler):
                cls = [None] if n.type is None else [es.class_of_expr(t, f) for t in (n.type.elts if isinstance(n.type, ast.Tuple) else [n.type])]
                if any(k is None or k in ("builtins.BaseException", "builtins.SystemExit", "builtins.KeyboardInterrupt", "builtins.GeneratorExit") for k in cls):
                    bad = "in a handler that also catches thread-ending exceptions"
            child, n = n, getattr(n, "_parent", None)
    R.check(bad is None, rid, "Worker.run|returned-only-while-alive", "notify_done is reached only by normal control flow (not from a finally / BaseException handler)", f.loc(nd_calls[0]),
            "pool.notify_done(self) sits %s: when the job ends in SystemExit the dying thread still puts its worker back into the idle set, and the next connection handed "
            "to it is neither served nor refused" % bad)



def _inside(node, container):
    n = node
    while n is not None:
        if n is container:
            return True
        n = getattr(n, "_parent", None)
    return False
