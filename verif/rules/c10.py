"""C10 — A remote iterator delivers exactly the server's items, once, in order (bookkeeping structure of the stream table)."""
import ast
from ..engine.model import AnalysisError, dotted
from ..engine.context import unparse, enclosing_stmt, stores_in, names_in, enclosing_loops, enclosing_trys, in_lock_region
from ..engine.cfg import walk_no_nested, calls_in, facts_of, no_exc, handler_is_catch_all
from .c03 import edge_has_fact, edge_implies_any, flag_fact

EXPLANATION = (
    "Thin by nature (stated as such): only the bookkeeping of Daemon.streaming_responses is decided. Decided: an unknown stream "
    "id raises before anything else; next(stream) runs under a handler that catches every Exception, deletes the entry and "
    "re-raises; only the eight known functions write the table; ids come from uuid4 in the same activation; every entry is a "
    "4-tuple (owner, created, linger-start, iterator) whose linger-start is 0 exactly when an owner is attached and a clock "
    "value exactly when the owner is None; disconnect handling touches only entries whose owner *is* the ended connection; "
    "every housekeeping delete is guarded by a comparison of a measured period with the configured lifetime / linger (directly or "
    "through a flag), both expiries exist, the lifetime test does not depend on the linger state, all under the housekeeper lock, and every server loop drives housekeeping; the client iterator drops its proxy on exhaustion and sends close_stream only while connected. "
    "Also decided: removal in the error handler cannot raise; single results pass _streamResponse; the client tests the stream flag before the accompanying exception; housekeeping deletes only after a fresh look-up; the out-of-sync close uses a copy of the stream's proxy; the stream table is per daemon. "
    "virtual time."
    'Also decided (round 8): PYRO_* environment settings (ITER_STREAM_LINGER=0, ITER_STREAMING=off) are stored as converted, not through a truthiness fallback. '
    "Also decided (round 10): get_next_stream_item returns only what this call's next() produced and refuses only ids that are not in the table; a Daemon that was constructed is not in the shutting-down state. "
    'Also decided (round 9): One __next__ sends one item fetch and communication errors are not retried; nothing in the housekeeping pass can raise (no calls into user iterators). '
    'Also decided (round 11): Only iterators and generators become streams (the entry and every `True, ...` answer of _streamResponse lie on the true edge of that test); with a connected proxy every path through _StreamResultIterator.close sends close_stream; Proxy.__iter__ yields the remote stream outside the handler that selects the index fall-back. '
    "Not decided (most of the property): item order, no loss/duplication, interleavings of next/close/reconnect/housekeeping, "
)

TBL = "streaming_responses"


def tbl_expr(e):
    return isinstance(e, ast.Attribute) and e.attr == TBL


def run(ctx, R, tier):
    p = ctx.p
    es = ctx.escape
    R.rule("C10-R1", "get_next_stream_item: unknown id raises first; next(stream) under a catch-all that deletes the entry and re-raises", floor=3)
    R.rule("C10-R2", "only the known functions write Daemon.streaming_responses", floor=6)
    R.rule("C10-R3", "stream ids are fresh: derived from uuid.uuid4() in the same activation", floor=1)
    R.rule("C10-R4", "entry layout: 4-tuples; linger-start is 0 iff an owner is attached; disconnect handling selects entries by identity of the owning connection", floor=5)
    R.rule("C10-R5", "housekeeping deletes only under a lifetime / linger comparison (directly or through a flag whose every definition is one), under the housekeeper lock; both expiries exist; the lifetime test does not depend on the linger state", floor=3)
    R.rule("C10-R6", "client iterator drops its proxy on StopIteration/GeneratorExit; close sends close_stream only while connected", floor=2)

    R.rule("C10-R7", "the stream table is per daemon: created fresh in __init__", floor=1)
    g = ctx.fn("Pyro5.server.DaemonObject.get_next_stream_item")
    gcfg = ctx.cfg(g)
    sid = g.params[1]

    # ---------------------------------------------------------------- R1
    def known(atom, pol):
        if isinstance(atom, ast.Compare) and len(atom.ops) == 1 and unparse(atom.left) == sid and tbl_expr(atom.comparators[0]):
            return (isinstance(atom.ops[0], ast.NotIn) and pol is False) or (isinstance(atom.ops[0], ast.In) and pol is True)
        return False
    nexts = [c for c, tgs in ctx.cg.calls_of(g) if isinstance(c.func, ast.Name) and c.func.id == "next"]
    if len(nexts) != 1:
        raise AnalysisError("get_next_stream_item: next(stream) vanished")
    nn = ctx.node_of(g, nexts[0])
    reads = [n for n in gcfg.nodes if n.kind == "stmt" and any(isinstance(x, ast.Subscript) and tbl_expr(x.value) for x in ast.walk(n.ast))]
    ok = all(gcfg.guarded(n, lambda e: edge_has_fact(e, known)) for n in nn + reads)
    R.check(ok, "C10-R1", "get_next_stream_item|unknown-id-raises-first", "the table is touched and the iterator advanced only for a known stream id", g.loc(),
            "an unknown (forgotten) stream id is not refused before the table / iterator is used")
    # every value this method hands out is what next(stream) produced in THIS call - one step of the server's iterator per item delivered (no item is sent again,
    # none is made up) - and the only request it refuses is one for an unknown id (a client that reconnected within the linger period just continues)
    rets_ = [n for n in walk_no_nested(g.node) if isinstance(n, ast.Return)]
    bad_ret = [r for r in rets_ if not (r.value is nexts[0])]
    R.check(bool(rets_) and not bad_ret, "C10-R1", "get_next_stream_item|returns-only-what-next-produced", "every return hands out the value of this call's next(stream)", g.loc(bad_ret[0]) if bad_ret else g.loc(),
            "`%s` returns something other than the result of next(stream): the client receives an item the server's iterator did not just produce (a repeated or invented element)"
            % (unparse(bad_ret[0], 60) if bad_ret else ""))
    early = [n for n in walk_no_nested(g.node) if isinstance(n, ast.Raise) and n.exc is not None and not any(tt is n or any(x is n for x in ast.walk(tt)) for tt in
             [t for t, part in enclosing_trys(nexts[0], g.node)])]

    def unknown(atom, pol):
        if isinstance(atom, ast.Compare) and len(atom.ops) == 1 and unparse(atom.left) == sid and tbl_expr(atom.comparators[0]):
            return (isinstance(atom.ops[0], ast.NotIn) and pol is True) or (isinstance(atom.ops[0], ast.In) and pol is False)
        return False
    bad_raise = [r for r in early if not all(gcfg.guarded(n, lambda e: edge_has_fact(e, unknown)) for n in gcfg.nodes_for(r))]
    R.check(not bad_raise, "C10-R1", "get_next_stream_item|refuses-only-unknown-ids", "outside the failure path of next(stream) the method raises only for an unknown stream id", g.loc(bad_raise[0]) if bad_raise else g.loc(),
            "`%s` refuses a request for a stream the daemon still knows: a client that comes back within the linger period (or is served before the old connection's "
            "disconnect was processed) gets an error instead of its next item" % (unparse(bad_raise[0], 60) if bad_raise else ""))
    # a stream whose connection ended is adopted by the connection that asks for its next item (owner None -> this client, linger clock back to 0) - and only such a
    # stream: without the adoption the housekeeper removes a stream that IS being read once the linger period is over; adopting unconditionally takes a live
    # stream away from the connection whose end is supposed to start its linger period
    adopt = [st for st, t, k in stores_in(g.node) if k == "assign" and isinstance(t, ast.Subscript) and tbl_expr(t.value) and unparse(t.slice) == sid]
    owner_vars = set()
    for st, t, k in stores_in(g.node):
        if k == "assign" and isinstance(st, ast.Assign) and isinstance(st.targets[0], ast.Tuple) and isinstance(st.value, ast.Subscript) and tbl_expr(st.value.value) \
                and st.targets[0].elts and isinstance(st.targets[0].elts[0], ast.Name):
            owner_vars.add(st.targets[0].elts[0].id)

    def orphaned(atom, pol):
        if isinstance(atom, ast.Compare) and len(atom.ops) == 1 and isinstance(atom.left, ast.Name) and atom.left.id in owner_vars and \
                isinstance(atom.comparators[0], ast.Constant) and atom.comparators[0].value is None:
            return (isinstance(atom.ops[0], ast.Is) and pol is True) or (isinstance(atom.ops[0], ast.IsNot) and pol is False)
        return False
    oka = len(adopt) == 1 and isinstance(adopt[0].value, ast.Tuple) and len(adopt[0].value.elts) == 4 and "current_context.client" in unparse(adopt[0].value.elts[0]) and \
        isinstance(adopt[0].value.elts[2], ast.Constant) and adopt[0].value.elts[2].value == 0 and \
        all(gcfg.guarded(n, lambda e: edge_has_fact(e, orphaned)) for n in gcfg.nodes_for(adopt[0])) and \
        all(gcfg.all_paths_pass([gcfg.entry], lambda n: n in gcfg.nodes_for(adopt[0]), edge_ok=lambda e: e.kind != "exc" and not edge_has_fact(e, lambda a, p_: orphaned(a, not p_)), targets=[x])
            for x in nn)
    R.check(oka, "C10-R4", "get_next_stream_item|orphaned-stream-adopted-by-the-asking-connection", "exactly a stream without an owner is re-associated with the asking connection (linger clock reset) before its next item is taken",
            g.loc(adopt[0]) if adopt else g.loc(),
            "the re-association `%s` is no longer tied to `owner is None`: a client that reconnected within the linger period loses its stream when that period ends although it "
            "is reading it (or: every fetch moves a live stream to the asking connection)" % (unparse(adopt[0], 80) if adopt else "vanished"))
    trys = [t for t, part in enclosing_trys(nexts[0], g.node) if part == "body"]
    ok = bool(trys)
    why = "next(stream) is not inside a try"
    if ok:
        T = trys[0]
        covering = [h for h in T.handlers if handler_is_catch_all(h)]
        ok = bool(covering)
        why = "the handler around next(stream) catches only %s: when the source iterator raises anything else the stream stays in the table and a client " \
              "that asks again keeps receiving items from a failed stream" % [unparse(h.type) if h.type is not None else "<bare>" for h in T.handlers]
        if ok:
            H = covering[0]
            hstmts = [x for st in H.body for x in walk_no_nested(st) if isinstance(x, ast.stmt)] + [st for st in H.body]
            dels = [st for st in hstmts if isinstance(st, ast.Delete) and any(isinstance(t, ast.Subscript) and tbl_expr(t.value) and unparse(t.slice) == sid for t in st.targets)]
            pops = [st for st in hstmts if isinstance(st, ast.Expr) and isinstance(st.value, ast.Call) and isinstance(st.value.func, ast.Attribute)
                    and st.value.func.attr == "pop" and tbl_expr(st.value.func.value) and st.value.args and unparse(st.value.args[0]) == sid]
            rer = [st for st in H.body if isinstance(st, ast.Raise) and st.exc is None]
            ok = bool(dels or pops) and bool(rer) and isinstance(H.body[-1], ast.Raise)
            why = "the handler does not delete the stream entry and re-raise"
            def keyerror_contained(st):
                for t, part in enclosing_trys(st, g.node):
                    if part == "body" and t is not T and any(handler_is_catch_all(h) or (h.type is not None and any(
                            x in unparse(h.type) for x in ("KeyError", "LookupError"))) for h in t.handlers):
                        return True
                return False
            removal_safe = all(keyerror_contained(st) for st in dels) and all(len(st.value.args) == 2 or keyerror_contained(st) for st in pops)
    R.check(ok, "C10-R1", "get_next_stream_item|remove-on-any-failure", "any exception of next(stream) (also StopIteration) removes the stream and is re-raised", g.loc(nexts[0]), why)
    if ok:
        R.check(removal_safe, "C10-R1", "get_next_stream_item|removal-cannot-raise",
                "the removal in the handler cannot itself raise (pop with a default): housekeeping may have dropped the entry while next() ran", g.loc(H),
                "the handler removes the entry with a plain `del` / `pop` without default: when housekeeping (lifetime or linger expiry) removed it while next(stream) "
                "was running, KeyError replaces the StopIteration or the generator's own exception")
    cs = ctx.fn("Pyro5.server.DaemonObject.close_stream")
    dels = [st for st, t, k in stores_in(cs.node) if k == "del" and isinstance(t, ast.Subscript) and tbl_expr(t.value)]
    R.check(len(dels) == 1, "C10-R1", "close_stream|deletes-entry", "an explicit close forgets the stream", cs.loc(), "close_stream no longer deletes the entry")

    # ---------------------------------------------------------------- R2
    writers = {}
    for f in p.functions.values():
        for st, t, k in stores_in(f.node):
            base = t.value if isinstance(t, ast.Subscript) else t
            if tbl_expr(base):
                writers.setdefault(f.qualname, f.loc(st))
        for c, _ in ctx.cg.calls_of(f):
            if isinstance(c.func, ast.Attribute) and c.func.attr in ("clear", "pop", "popitem", "update", "setdefault", "__setitem__", "__delitem__") and tbl_expr(c.func.value):
                writers.setdefault(f.qualname, f.loc(c))
    allowed = {"Pyro5.server.Daemon.__init__", "Pyro5.server.Daemon.shutdown", "Pyro5.server.Daemon.close", "Pyro5.server.Daemon._streamResponse",
               "Pyro5.server.Daemon._clientDisconnect", "Pyro5.server.Daemon._housekeeping", g.qualname, cs.qualname}
    for w, loc in sorted(writers.items()):
        R.check(w in allowed, "C10-R2", "writer|%s" % w.split(".", 2)[2], "allowed writer of the stream table", loc,
                "%s modifies Daemon.streaming_responses outside the stream life-cycle functions" % w)
    if len(writers) < 6:
        raise AnalysisError("fewer writers of streaming_responses than expected (%d)" % len(writers))

    # ---------------------------------------------------------------- R3 + tuple layout
    sr = ctx.fn("Pyro5.server.Daemon._streamResponse")
    srd = ctx.rd(sr)
    scfg = ctx.cfg(sr)
    st_store = [(st, t) for st, t, k in stores_in(sr.node) if k == "assign" and isinstance(t, ast.Subscript) and tbl_expr(t.value)]
    if len(st_store) != 1:
        raise AnalysisError("_streamResponse: table store vanished")
    keyx = st_store[0][1].slice
    ok = False
    if isinstance(keyx, ast.Name):
        defs = [d for n in scfg.nodes_for(st_store[0][0]) for d in srd.reaching(n, keyx.id)]
        def only_uuid4(v):
            """built from uuid.uuid4() and nothing that comes from the request / the context (str(), .hex and the like may wrap it)"""
            if not any(isinstance(x, ast.Call) and dotted(x.func) == "uuid.uuid4" for x in ast.walk(v)):
                return False
            for x in ast.walk(v):
                if isinstance(x, ast.Name) and x.id not in ("uuid", "str") and isinstance(x.ctx, ast.Load):
                    return False
            return True
        ok = bool(defs) and all(d.kind == "assign" and d.value is not None and only_uuid4(d.value) for d in defs)
    # a result becomes a stream only if it IS an iterator or generator: the table entry (and the "it is a stream" answer) lie on the true edge of that type test - on any
    # other edge an ordinary result (a list, a number) would be filed as a stream and the caller handed a stream id instead of its value
    datap = sr.params[1]

    def is_iterator(atom, pol):
        if pol is not True or not isinstance(atom, ast.Call):
            return False
        fn_ = dotted(atom.func) or ""
        if fn_ == "isinstance" and len(atom.args) == 2 and unparse(atom.args[0]) == datap and "Iterator" in unparse(atom.args[1]):
            return True
        return fn_ in ("inspect.isgenerator",) and atom.args and unparse(atom.args[0]) == datap
    true_rets = [n for n in scfg.nodes if n.kind == "stmt" and isinstance(n.ast, ast.Return) and isinstance(n.ast.value, ast.Tuple) and n.ast.value.elts and
                 isinstance(n.ast.value.elts[0], ast.Constant) and n.ast.value.elts[0].value is True]
    oks = all(scfg.guarded(n, lambda e: edge_implies_any(e, [is_iterator])) for n in list(scfg.nodes_for(st_store[0][0])) + true_rets) and bool(true_rets)
    R.check(oks, "C10-R3", "_streamResponse|only-iterators-become-streams", "the stream entry and every `True, ...` answer lie on the true edge of the iterator / generator test", sr.loc(st_store[0][0]),
            "a result that is not an iterator or generator can be turned into a stream: the caller receives a stream id (or nothing) instead of the value the method returned")
    R.check(ok, "C10-R3", "_streamResponse|fresh-id", "the stream id is derived from uuid.uuid4() in this activation", sr.loc(st_store[0][0]),
            "stream ids are not fresh random ids: two streams could share an id / ids could be guessed")

    # ---------------------------------------------------------------- R4
    cd = ctx.fn("Pyro5.server.Daemon._clientDisconnect")
    entries = []
    for f in (sr, g, cd):
        for st, t, k in stores_in(f.node):
            if k == "assign" and isinstance(t, ast.Subscript) and tbl_expr(t.value):
                entries.append((f, st))
    if len(entries) < 3:
        raise AnalysisError("fewer stream-table entry stores than expected")
    for f, st in entries:
        v = st.value
        key = "entry|%s" % f.name
        ok = isinstance(v, ast.Tuple) and len(v.elts) == 4
        why = "entry is not a 4-tuple: `%s`" % unparse(v)
        if ok:
            owner, created, linger, it = v.elts
            owner_none = isinstance(owner, ast.Constant) and owner.value is None
            linger_zero = isinstance(linger, ast.Constant) and linger.value == 0
            linger_clock = isinstance(linger, ast.Call) and dotted(linger.func) == "time.time"
            if owner_none:
                ok = linger_clock
                why = "an entry without owner must start its linger clock now (time.time()), found `%s`" % unparse(linger)
            else:
                ok = linger_zero
                why = "an entry with an owner attached must have linger-start 0, found `%s`: housekeeping keeps measuring the old linger period and " \
                      "deletes the stream of a client that has reconnected" % unparse(linger)
        R.check(ok, "C10-R4", key, "(owner, created, linger-start, iterator) with linger-start 0 iff an owner is attached", f.loc(st), why)
    dcfg = ctx.cfg(cd)
    connp = cd.params[1]

    def own(atom, pol):
        for n in ast.walk(atom):
            if isinstance(n, ast.Compare) and len(n.ops) == 1 and connp in (unparse(n.left), unparse(n.comparators[0])):
                if n is atom:
                    if (isinstance(n.ops[0], ast.Is) and pol is True) or (isinstance(n.ops[0], ast.IsNot) and pol is False):
                        return True
                elif isinstance(n.ops[0], ast.Is) and pol is True and isinstance(atom, ast.BoolOp) and isinstance(atom.op, ast.And):
                    return True
        return False
    muts = [(st, k) for st, t, k in stores_in(cd.node) if isinstance(t, ast.Subscript) and tbl_expr(t.value)]
    # removal spelled as table.pop(key[, default])
    muts += [(enclosing_stmt(c), "del") for c in walk_no_nested(cd.node) if isinstance(c, ast.Call) and isinstance(c.func, ast.Attribute) and c.func.attr == "pop" and tbl_expr(c.func.value)]
    if len(muts) < 2:
        raise AnalysisError("_clientDisconnect: table mutations vanished")
    for i, (st, k) in enumerate(muts):
        ok = all(dcfg.guarded(n, lambda e: edge_has_fact(e, own)) for n in dcfg.nodes_for(st))
        R.check(ok, "C10-R4", "_clientDisconnect|own-streams-only#%d" % i, "the entry is %s only if its owner *is* the connection that ended" % ("deleted" if k == "del" else "rewritten"),
                cd.loc(st), "streams of other connections (or entries selected by equality instead of identity) are affected by this connection's end")

    # ---------------------------------------------------------------- R5
    hk = ctx.fn("Pyro5.server.Daemon._housekeeping")
    hcfg = ctx.cfg(hk)
    hd = [st for st, t, k in stores_in(hk.node) if k == "del" and isinstance(t, ast.Subscript) and tbl_expr(t.value)]
    # removal spelled as table.pop(key[, default])
    hd += [enclosing_stmt(c) for c in walk_no_nested(hk.node) if isinstance(c, ast.Call) and isinstance(c.func, ast.Attribute) and c.func.attr == "pop" and tbl_expr(c.func.value)]
    if not hd:
        raise AnalysisError("_housekeeping: no expiry delete left")
    hrd = ctx.rd(hk)

    def is_period(expr, node):
        """time.time() - x, `now - x` with now = time.time(), or a local holding such a difference"""
        if isinstance(expr, ast.BinOp) and isinstance(expr.op, ast.Sub):
            l = expr.left
            if isinstance(l, ast.Call) and dotted(l.func) == "time.time":
                return True
            if isinstance(l, ast.Name):
                return any(d.value is not None and isinstance(d.value, ast.Call) and dotted(d.value.func) == "time.time" for d in hrd.reaching(node, l.id))
        if isinstance(expr, ast.Name):
            return any(d.value is not None and d.kind == "assign" and is_period(d.value, d.node) for d in hrd.reaching(node, expr.id))
        return False

    def expiry_compare(expr, node, cfgname):
        return isinstance(expr, ast.Compare) and any(unparse(x) == "config.%s" % cfgname for x in [expr.left] + expr.comparators) and \
            any(isinstance(o, (ast.Lt, ast.Gt, ast.LtE, ast.GtE)) for o in expr.ops) and any(is_period(x, node) for x in [expr.left] + expr.comparators)

    def expiry_fact(cfgname, test_node_of):
        def pred(atom, pol):
            if pol is not True:
                return False
            node = test_node_of.get(id(atom))
            if node is None:
                return False
            if expiry_compare(atom, node, cfgname):
                return True
            if isinstance(atom, ast.Name):      # a flag variable: all its definitions are expiry comparisons
                defs = hrd.reaching(node, atom.id)
                return bool(defs) and all(d.kind == "assign" and d.value is not None and any(expiry_compare(d.value, d.node, c2) for c2 in ("ITER_STREAM_LIFETIME", "ITER_STREAM_LINGER"))
                                          for d in defs) and any(expiry_compare(d.value, d.node, cfgname) for d in defs)
            return False
        return pred
    test_node_of = {}
    for n in hcfg.nodes:
        if n.kind == "test":
            for x in ast.walk(n.ast.test):
                test_node_of[id(x)] = n
    covered = set()
    for i, st in enumerate(hd):
        which = [nm for nm in ("ITER_STREAM_LIFETIME", "ITER_STREAM_LINGER")
                 if all(hcfg.guarded(n, lambda e, nm=nm: edge_has_fact(e, expiry_fact(nm, test_node_of))) for n in hcfg.nodes_for(st))]
        covered |= set(which)
        locked = in_lock_region(st, "self.housekeeper_lock") is not None
        R.check(bool(which) and locked, "C10-R5", "_housekeeping|delete#%d" % i,
                "the delete happens only when a measured period exceeds the configured %s, under the housekeeper lock" % ("/".join(which) or "limit"), hk.loc(st),
                "a stream can be dropped by housekeeping without its lifetime/linger period having passed (or outside the lock)")
    # the expiry pass runs in the housekeeper thread (thread server) / in the event loop (multiplex): nothing in it may raise - in particular it does not call into the
    # user's iterators (closing a generator that is executing in a worker at that moment raises ValueError) - or no stream is ever forgotten again
    hk_esc = ctx.escape.escapes(hk.qualname)
    R.check(not hk_esc, "C10-R5", "_housekeeping|cannot-fail", "nothing that can raise runs in the expiry pass (no call into user iterators)", hk.loc(),
            "; ".join("%s via %s" % (k[0].split(".")[-1], " -> ".join(w)[-160:]) for k, w in list(hk_esc.items())[:2]) +
            ": an exception ends the housekeeper thread (or the multiplex loop) - expired and abandoned streams are then kept for ever and a client coming back late still gets items")
    # _housekeeping does nothing while the daemon counts as shutting down: a daemon that was constructed is not (it may be driven through events() or a combined
    # loop and never enter its own requestLoop) - the last thing __init__ does with the flag is clear it
    dinit = ctx.fn("Pyro5.server.Daemon.__init__")
    skip_tests = [n for n in hcfg.nodes if n.kind == "test" and "_shutting_down" in unparse(n.ast.test)]
    flag_ops = [c for c in walk_no_nested(dinit.node) if isinstance(c, ast.Call) and isinstance(c.func, ast.Attribute) and c.func.attr in ("set", "clear")
                and isinstance(c.func.value, ast.Attribute) and c.func.value.attr.endswith("__mustshutdown")]
    if skip_tests:
        icfg_ = ctx.cfg(dinit)
        sets_ = [n for c in flag_ops if c.func.attr == "set" for n in ctx.node_of(dinit, c)]
        clears_ = [n for c in flag_ops if c.func.attr == "clear" for n in ctx.node_of(dinit, c)]
        okf = bool(clears_) and (not sets_ or icfg_.all_paths_pass(sets_, lambda n: n in clears_, edge_ok=lambda e: e.kind != "exc", targets=[icfg_.exit]))
        R.check(okf, "C10-R5", "Daemon.__init__|constructed-means-not-shutting-down", "after construction the shutting-down flag is clear (housekeeping runs for every way of driving the daemon)", dinit.loc(),
                "Daemon.__init__ leaves the shutting-down flag set: _housekeeping returns at once for a daemon that is driven through events() / a combined loop and never calls "
                "its own requestLoop(), so its streams never expire")
    from .common import config_env_value_stored_as_converted
    config_env_value_stored_as_converted(ctx, R, "C10-R5", "ITER_STREAM_LINGER=0 (drop streams with their connection) and ITER_STREAMING=off are settings of this kind")
    R.check(covered == {"ITER_STREAM_LIFETIME", "ITER_STREAM_LINGER"}, "C10-R5", "_housekeeping|both-expiries", "both the lifetime and the linger expiry are applied", hk.loc(),
            "expiry kinds applied: %s" % sorted(covered))
    # the lifetime comparison is evaluated for every stream, whatever its linger state
    life_nodes = [n for n in hcfg.nodes if n.kind in ("stmt", "test") and any(isinstance(x, ast.Compare) and expiry_compare(x, n, "ITER_STREAM_LIFETIME")
                                                                         for e_ in __import__("verif.engine.cfg", fromlist=["stmt_exprs"]).stmt_exprs(n) for x in ast.walk(e_))]

    def linger_state(atom, pol):
        return any(isinstance(x, ast.Subscript) and isinstance(x.slice, ast.Constant) and x.slice.value == 2 for x in ast.walk(atom))
    ok = bool(life_nodes) and not any(hcfg.guarded(n, lambda e: edge_has_fact(e, linger_state)) for n in life_nodes)
    R.check(ok, "C10-R5", "_housekeeping|lifetime-independent-of-linger", "the lifetime test is applied to every stream, lingering or not", hk.loc(life_nodes[0].ast) if life_nodes else hk.loc(),
            "the lifetime comparison is evaluated only for streams in a particular linger state: a stream whose client went away outlives its configured lifetime")

    # ---------------------------------------------------------------- R6
    dob = p.cls("Pyro5.server.DaemonObject")
    used = {}
    for fn in (ctx.fn("Pyro5.client._StreamResultIterator.__next__"), ctx.fn("Pyro5.client._StreamResultIterator.close")):
        for c, _ in ctx.cg.calls_of(fn):
            if isinstance(c.func, ast.Attribute) and c.func.attr == "_pyroInvoke" and c.args and isinstance(c.args[0], ast.Constant):
                tgt = [k.value for k in c.keywords if k.arg == "objectId"]
                used[c.args[0].value] = (fn, c, tgt and ctx.resolves_to_object(tgt[0], fn, "Pyro5.core.DAEMON_NAME"),
                                         len(c.args) > 1 and unparse(c.args[1]) == "[self.streamId]")
    exposed_cls = any((dotted(d) or "") == "expose" for d in dob.node.decorator_list)
    ok = set(used) == {"get_next_stream_item", "close_stream"} and all(m in dob.methods for m in used) and exposed_cls and all(v[2] and v[3] for v in used.values())
    R.check(ok, "C10-R6", "client|stream-method-names", "the client fetches/closes streams through DaemonObject methods that exist, on the daemon object, with its own stream id", dob.module.relpath,
            "client uses %s; DaemonObject defines %s" % (sorted(used), sorted(m for m in dob.methods if "stream" in m)))
    nx = ctx.fn("Pyro5.client._StreamResultIterator.__next__")
    hs = [h for t in walk_no_nested(nx.node) if isinstance(t, ast.Try) for h in t.handlers]
    ok = False
    for h in hs:
        classes = {dotted(t) for t in (h.type.elts if isinstance(h.type, ast.Tuple) else [h.type])} if h.type is not None else set()
        if "StopIteration" in classes or any(isinstance(st, ast.Assign) and unparse(st.targets[0]) == "self.proxy" for st in h.body):
            if not classes <= {"StopIteration", "GeneratorExit"}:
                ok = False
                break
            drops = any(isinstance(st, ast.Assign) and unparse(st.targets[0]) == "self.proxy" and isinstance(st.value, ast.Constant) and st.value.value is None for st in h.body)
            ok = drops and isinstance(h.body[-1], ast.Raise)
    R.check(ok, "C10-R6", "__next__|drops-proxy-on-exhaustion", "only exhaustion (StopIteration/GeneratorExit) detaches the iterator from its proxy, and it re-raises", nx.loc(),
            "the client iterator detaches on other errors too (a transient communication error then ends the stream silently: the next fetch raises StopIteration), "
            "or keeps its proxy after exhaustion")
    # fetching an item is not idempotent (the server's iterator has moved on): one __next__ sends one get_next_stream_item and a lost reply surfaces as the error it is -
    # no retry loop around the fetch, no handler of connection errors that tries again
    fetches = [c for c in walk_no_nested(nx.node) if isinstance(c, ast.Call) and any(isinstance(a, ast.Constant) and a.value == "get_next_stream_item" for a in c.args)]
    in_loop = [c for c in fetches if enclosing_loops(c, nx.node)]
    retry_h = []
    for c in fetches:
        for t, part in enclosing_trys(c, nx.node):
            if part != "body":
                continue
            for h in t.handlers:
                classes = [ctx.escape.class_of_expr(x, nx) for x in (h.type.elts if isinstance(h.type, ast.Tuple) else [h.type])] if h.type is not None else ["builtins.BaseException"]
                catches_comm = any(cl and (ctx.escape.is_sub(cl, "Pyro5.errors.CommunicationError") or ctx.escape.is_sub("Pyro5.errors.CommunicationError", cl)) for cl in classes)
                if catches_comm and not isinstance(h.body[-1], ast.Raise):
                    retry_h.append(h)
    R.check(len(fetches) == 1 and not in_loop and not retry_h, "C10-R6", "__next__|one-fetch-per-item", "one __next__ sends exactly one get_next_stream_item; a communication error is not retried",
            nx.loc(fetches[0]) if fetches else nx.loc(),
            "the item fetch is %s: when a reply is lost after the server advanced its iterator, the retry returns the FOLLOWING item and one item silently disappears from the stream"
            % ("inside a loop" if in_loop else ("under a handler that swallows communication errors" if retry_h else "sent %d times" % len(fetches))))
    # `for x in proxy`: the remote __iter__ stream is iterated OUTSIDE the handler that selects the index-based fall-back. That handler (AttributeError: "the remote object
    # has no __iter__") around the iteration itself swallows an AttributeError the remote generator raises midway and restarts from index 0 - items repeated, the
    # generator's exception lost
    pit = ctx.fn("Pyro5.client.Proxy.__iter__")
    yfs = [n for n in walk_no_nested(pit.node) if isinstance(n, ast.YieldFrom)]
    remote_names = {t.id for st, t, k in stores_in(pit.node) if k == "assign" and isinstance(t, ast.Name) and "'__iter__'" in unparse(st.value, 200)}
    remote_yf = [y for y in yfs if "'__iter__'" in unparse(y.value, 200) or (isinstance(y.value, ast.Name) and y.value.id in remote_names)]
    if not remote_yf:
        raise AnalysisError("Proxy.__iter__: the delegation to the remote __iter__ stream vanished")
    covered = []
    for y in remote_yf:
        for t, part in enclosing_trys(y, pit.node):
            if part == "body" and any(h.type is None or any(x in unparse(h.type) for x in ("AttributeError", "Exception", "BaseException")) for h in t.handlers):
                covered.append(y)
    R.check(not covered, "C10-R6", "Proxy.__iter__|remote-stream-iterated-outside-the-fallback-handler", "the items of the remote __iter__ stream are yielded outside the try that selects the index-based fall-back",
            pit.loc(covered[0]) if covered else pit.loc(),
            "`%s` runs inside `try ... except AttributeError`: an AttributeError raised by the remote generator after some items is taken for 'no remote __iter__' - the loop "
            "silently starts over with proxy[0], proxy[1], ...: items are delivered twice and the generator's exception never reaches the caller" % (unparse(covered[0], 70) if covered else ""))
    hk_sites = {g.qualname for g, c in ctx.cg.callers_of("Pyro5.server.Daemon._housekeeping")}
    need = {"Pyro5.svr_threads.Housekeeper.run", "Pyro5.svr_multiplex.SocketServer_Multiplex.events", "Pyro5.svr_multiplex.SocketServer_Multiplex.loop",
            "Pyro5.svr_existingconn.SocketServer_ExistingConnection.loop"}
    R.check(need <= hk_sites, "C10-R5", "_housekeeping|driven-by-every-server-loop", "every server loop drives housekeeping, busy or idle", hk.loc(),
            "housekeeping is no longer called from %s: under that server (or while it is busy) streams never expire" % sorted(need - hk_sites))
    cl = ctx.fn("Pyro5.client._StreamResultIterator.close")
    ccfg = ctx.cfg(cl)
    sends = [c for c, _ in ctx.cg.calls_of(cl) if isinstance(c.func, ast.Attribute) and c.func.attr == "_pyroInvoke" and c.args and
             isinstance(c.args[0], ast.Constant) and c.args[0].value == "close_stream"]

    def connected(atom, pol):
        if isinstance(atom, ast.Compare) and len(atom.ops) == 1 and unparse(atom.left) == "self.proxy._pyroConnection" and \
                isinstance(atom.comparators[0], ast.Constant) and atom.comparators[0].value is None:
            return (isinstance(atom.ops[0], ast.IsNot) and pol is True) or (isinstance(atom.ops[0], ast.Is) and pol is False)
        return False
    ok = bool(sends) and all(ccfg.guarded(n, lambda e: edge_has_fact(e, connected)) for c in sends for n in ctx.node_of(cl, c))
    R.check(ok, "C10-R6", "close|only-while-connected", "close_stream is sent only while the proxy is connected", cl.loc(),
            "closing a stream of a disconnected proxy would reconnect / raise")

    # ... and it IS sent whenever the proxy is connected: close() of a live stream tells the server on every path (in sync: through the proxy itself, otherwise through
    # a copy) - a branch that just forgets the stream locally leaves the server's generator and whatever it holds alive until the lifetime/linger clock runs out, or for ever
    gate = [n for n in walk_no_nested(cl.node) if isinstance(n, ast.If) and "_pyroConnection" in unparse(n.test)]
    send_nodes = [n for c in sends for n in ctx.node_of(cl, c)]
    told = False
    if len(gate) == 1:
        send_calls = {id(c) for c in sends}
        side = gate[0].body if any(id(x) in send_calls for b in gate[0].body for x in ast.walk(b)) else gate[0].orelse
        first = ccfg.nodes_for(side[0]) if side else []
        told = bool(first) and (all(n in send_nodes for n in first) or ccfg.all_paths_pass(first, lambda n: n in send_nodes, edge_ok=no_exc, targets=[ccfg.exit]))
    R.check(told, "C10-R6", "close|connected-stream-is-closed-at-the-server", "with a connected proxy every path through close() sends close_stream (%d send site(s))" % len(sends), cl.loc(),
            "close() can return for a connected proxy without having sent close_stream: the server keeps the stream (and the generator's resources) although the client closed it")

    # server: the result of a single (non-batch) call or attribute read goes through _streamResponse before it is serialised into the reply
    hr = ctx.fn("Pyro5.server.Daemon.handleRequest")
    hcfg = ctx.cfg(hr)
    sr_nodes = [n for c in ctx.calls_to(hr, "Pyro5.server.Daemon._streamResponse") for n in ctx.node_of(hr, c)]
    reply_dumps = [n for c, _ in ctx.cg.calls_of(hr) if isinstance(c.func, ast.Attribute) and c.func.attr == "dumps" for n in ctx.node_of(hr, c)]
    producers = []
    for st, t, k in stores_in(hr.node):
        if k == "assign" and isinstance(t, ast.Name) and isinstance(st.value, ast.Call) and not enclosing_loops(st, hr.node):
            if ctx.is_call_to(st.value, hr, "Pyro5.server._get_exposed_property_value") or (isinstance(st.value.func, ast.Name) and ctx.cg.is_local(hr, st.value.func.id) and any(isinstance(a, ast.Starred) for a in st.value.args)):
                producers.append(st)
    if len(producers) < 2 or not reply_dumps:
        raise AnalysisError("handleRequest: result producers / reply serialisation vanished (%d, %d)" % (len(producers), len(reply_dumps)))
    for i_, st in enumerate(producers):
        # oneway requests get no reply at all: paths along an edge that establishes the ONEWAY flag are not reply paths
        def oneway(atom, pol):
            return pol is True and flag_fact(ctx, hr, atom, "Pyro5.protocol.FLAGS_ONEWAY")
        ok = bool(sr_nodes) and hcfg.all_paths_pass(hcfg.nodes_for(st), lambda n: n in sr_nodes, edge_ok=lambda e: e.kind != "exc" and not edge_has_fact(e, oneway), targets=reply_dumps)
        R.check(ok, "C10-R3", "handleRequest|result#%d-passes-_streamResponse" % i_, "`%s` reaches the reply only through _streamResponse (iterators become streams)" % unparse(st, 50), hr.loc(st),
                "the result of `%s` can be serialised into the reply without passing _streamResponse: a returned iterator is not turned into a stream" % unparse(st, 50))

    # client: a streamed result is recognised by its flag before the (compatibility) exception that accompanies it is raised
    inv = ctx.fn("Pyro5.client.Proxy._pyroInvoke")
    icfg = ctx.cfg(inv)

    def streamed(want):
        def pred(atom, pol):
            return pol is want and flag_fact(ctx, inv, atom, "Pyro5.protocol.FLAGS_ITEMSTREAMRESULT")
        return pred
    its = [n for c, _ in ctx.cg.calls_of(inv) if unparse(c.func).endswith("_StreamResultIterator") for n in ctx.node_of(inv, c)]
    exc_raises = [n for n in icfg.nodes if n.kind == "stmt" and isinstance(n.ast, ast.Raise) and isinstance(n.ast.exc, ast.Name)
                  and any(unparse(c.func).endswith(".loads") for d in ctx.rd(inv).reaching(n, n.ast.exc.id) if d.value is not None for c in ast.walk(d.value) if isinstance(c, ast.Call))]
    ok = bool(its) and all(icfg.guarded(n, lambda e: edge_has_fact(e, streamed(True))) for n in its) and \
        bool(exc_raises) and all(icfg.guarded(n, lambda e: edge_has_fact(e, streamed(False))) for n in exc_raises)
    R.check(ok, "C10-R6", "_pyroInvoke|stream-flag-before-exception", "a reply flagged ITEMSTREAMRESULT yields the stream iterator; the decoded exception is raised only for unflagged replies",
            inv.loc(), "the reply's stream flag is not honoured before the accompanying exception is raised: the caller gets 'result of call is an iterator' instead of the items")

    from .common import housekeeping_relookup
    housekeeping_relookup(ctx, R, "C10-R5")
    # client: the helper connection that tells the server to forget a stream is a copy of the stream's own proxy (same handshake data, serializer, timeout)
    clo = ctx.fn("Pyro5.client._StreamResultIterator.close")
    made = [c for c in walk_no_nested(clo.node) if isinstance(c, ast.Call) and ((isinstance(c.func, ast.Name) and c.func.id == "Proxy") or
            (isinstance(c.func, ast.Attribute) and c.func.attr in ("Proxy", "__copy__")) or unparse(c.func) == "copy.copy")]
    bare = [c for c in made if not (isinstance(c.func, ast.Attribute) and c.func.attr == "__copy__") and unparse(c.func) != "copy.copy"]
    R.check(bool(made) and not bare, "C10-R6", "_StreamResultIterator.close|helper-is-a-copy", "the out-of-sync close uses a copy of the stream's proxy", clo.loc(made[0]) if made else clo.loc(),
            "the helper connection is a bare Proxy(uri): it lacks the original's handshake data, so a daemon with a handshake validator rejects it, the (suppressed) close_stream never "
            "arrives and the server keeps the closed stream")

    # ---------------------------------------------------------------- R7
    from .common import fresh_per_instance
    fresh_per_instance(ctx, R, "C10-R7", "Pyro5.server.Daemon", "streaming_responses", "daemons would share one stream table: housekeeping or shutdown of one daemon drops the streams of another")
