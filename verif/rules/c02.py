"""C02 — Only explicitly exposed, non-private members are remotely reachable."""
import ast
from ..engine.model import AnalysisError, dotted
from ..engine.context import unparse, enclosing_stmt, stores_in, names_in, enclosing_loops
from ..engine.cfg import walk_no_nested, calls_in, facts_of
from .c03 import edge_has_fact

EXPLANATION = (
    "Decided: every request kind in Daemon.handleRequest reaches the target object only through a gate (each dynamic call's "
    "callee, and the oneway hand-off, has all its reaching definitions of the form _get_attribute(obj, name); attribute "
    "reads/writes go through the two property gates, which are called with exactly (object, name[, value]) so that no request "
    "data reaches their other parameters; no other dynamic getattr/setattr); each gate's success exits are dominated "
    "by the private-name refusal and the _pyroExposed test, without dotted traversal; the advertised-members routine applies the "
    "same predicates and the same mark-carrier order, caches per class object and publishes the entry only after filling it; proxies copy "
    "the member sets they are given; the method gate does not run a property getter before refusing; the reserved dunder table contains the 43 reference names and "
    "is_private_attribute returns False only for public or non-reserved dunder names; expose marks only own, non-private "
    "members."
    "Also decided: _get_attribute returns only the looked-up member and no gate can fall off its end; the class-expose loop tests the member's own name for privacy; _reset_exposed_members addresses the cache entry _get_exposed_members wrote; every loadsCall hands object id and member name on exactly as decoded. "
    "Also decided (round 7): The property gates run the examined descriptor's own accessor (no getattr/setattr on the object); resetMetadataCache hands the unwrapped object to the cache reset. "
    "Also decided (round 9): The metadata cache rules also recognise member sets obtained from the cache entry (`x = entry['methods']`). "
    'Also decided (round 11): The member-list helpers are handed the registered object itself (never type(x): for a registered class that is the metaclass, and the reset misses the cache entry). '
    "Not decided: getattr/descriptor behaviour for arbitrary class shapes, unicode look-alikes, non-string names."
)

REFERENCE_RESERVED = {
    "__init__", "__init_subclass__", "__class__", "__module__", "__weakref__", "__call__", "__new__", "__del__", "__repr__",
    "__str__", "__format__", "__nonzero__", "__bool__", "__coerce__", "__cmp__", "__eq__", "__ne__", "__hash__", "__ge__", "__gt__",
    "__le__", "__lt__", "__dir__", "__enter__", "__exit__", "__copy__", "__deepcopy__", "__sizeof__", "__getattr__", "__setattr__",
    "__hasattr__", "__getattribute__", "__delattr__", "__instancecheck__", "__subclasscheck__", "__getinitargs__", "__getnewargs__",
    "__getstate__", "__setstate__", "__reduce__", "__reduce_ex__", "__subclasshook__",
}

PRIV = "Pyro5.server.is_private_attribute"
GATE = "Pyro5.server._get_attribute"
PGET = "Pyro5.server._get_exposed_property_value"
PSET = "Pyro5.server._set_exposed_property_value"


def private_false(ctx, f, names=None):
    def pred(atom, pol):
        if pol is False and isinstance(atom, ast.Call) and ctx.is_call_to(atom, f, PRIV):
            return names is None or (atom.args and unparse(atom.args[0]) in names)
        return False
    return pred


def exposed_true(atom, pol):
    if pol is True and isinstance(atom, ast.Call) and isinstance(atom.func, ast.Name) and atom.func.id == "getattr" and len(atom.args) >= 2 \
            and isinstance(atom.args[1], ast.Constant) and atom.args[1].value == "_pyroExposed":
        return True
    return False


def inspect_true(names):
    def pred(atom, pol):
        if pol is True and isinstance(atom, ast.Call) and dotted(atom.func) in names:
            return True
        if pol is True and isinstance(atom, ast.BoolOp) and isinstance(atom.op, ast.Or) and \
                all(isinstance(v, ast.Call) and dotted(v.func) in names for v in atom.values):
            return True
        return False
    return pred


def carrier_order(expr):
    """order of fget/fset/fdel in an `a or b or c` expression"""
    out = []
    vals = expr.values if isinstance(expr, ast.BoolOp) and isinstance(expr.op, ast.Or) else [expr]
    for v in vals:
        if isinstance(v, ast.Attribute) and v.attr in ("fget", "fset", "fdel"):
            out.append(v.attr)
        elif isinstance(v, ast.Call) and isinstance(v.func, ast.Name) and v.func.id == "getattr" and len(v.args) >= 2 and \
                isinstance(v.args[1], ast.Constant) and v.args[1].value in ("fget", "fset", "fdel"):
            out.append(v.args[1].value)
        else:
            return None
    return out


def _canon_until(fn_node, stop):
    """alpha-normalised source of the statements of fn_node up to and including `stop` (docstrings, no-op expressions and logging dropped; names numbered by first use)"""
    import copy
    names = {}

    class Ren(ast.NodeTransformer):
        def visit_Name(self, n):
            names.setdefault(n.id, "v%d" % len(names))
            return ast.copy_location(ast.Name(id=names[n.id], ctx=n.ctx), n)

        def visit_arg(self, n):
            names.setdefault(n.arg, "v%d" % len(names))
            return n

    def clean(body):
        out = []
        for st in body:
            if isinstance(st, ast.Pass) or (isinstance(st, ast.Expr) and isinstance(st.value, ast.Constant)):
                continue
            if isinstance(st, ast.Expr) and isinstance(st.value, ast.Call) and unparse(st.value.func).startswith(("log.", "logging.")):
                continue
            for fld in ("body", "orelse", "finalbody"):
                sub = getattr(st, fld, None)
                if isinstance(sub, list) and sub and isinstance(sub[0], ast.stmt):
                    setattr(st, fld, clean(sub) or [ast.Pass()])
            out.append(st)
        return out
    for a in fn_node.args.args:
        names.setdefault(a.arg, "v%d" % len(names))
    body = []
    for st in fn_node.body:
        body.append(st)
        if st is stop:
            break
    body = clean(copy.deepcopy(body))
    return [ast.unparse(Ren().visit(st)) for st in body]


def run(ctx, R, tier):
    p = ctx.p
    R.rule("C02-R1", "handleRequest: every dynamic call / oneway hand-off takes its callee from _get_attribute; attribute access goes through the "
                     "property gates; no other dynamic getattr/setattr/delattr", floor=6)
    R.rule("C02-R2", "gate internals: success exits of _get_attribute and the fget/fset calls of the property gates are dominated by the "
                     "private-name refusal and the _pyroExposed test; the name is looked up as given (no dotted traversal)", floor=9)
    R.rule("C02-R3", "advertised = served: _get_exposed_members adds names under the same predicates the gates serve them; one mark-carrier order", floor=6)
    R.rule("C02-R4", "reserved dunder table contains the reference names; is_private_attribute returns False only for public names or non-reserved dunders", floor=3)
    R.rule("C02-R5", "expose marks only own (class __dict__), non-private members", floor=3)
    R.rule("C02-R6", "the object id and member name reach the gate exactly as the peer sent them: no serializer coerces them (a bytes name must stay a non-string and be refused)", floor=4)

    # ---------------------------------------------------------------- R1
    f = ctx.fn("Pyro5.server.Daemon.handleRequest")
    cfg = ctx.cfg(f)
    rd = ctx.rd(f)

    def gate_value(expr, node, depth=0):
        """is `expr` (evaluated at CFG node) certainly a value produced by _get_attribute?"""
        if depth > 3:
            return False
        if isinstance(expr, ast.Call) and ctx.is_call_to(expr, f, GATE):
            return True
        if isinstance(expr, ast.Name):
            defs = rd.reaching(node, expr.id)
            return bool(defs) and all(d.kind == "assign" and d.value is not None and gate_value(d.value, d.node, depth + 1) for d in defs)
        if isinstance(expr, ast.Subscript) and isinstance(expr.value, ast.Name):
            # element of a local container whose every element came from the gate (e.g. a dict of pre-resolved methods)
            cont = expr.value.id
            defs = rd.reaching(node, cont)
            if not defs:
                return False
            for d in defs:
                v = d.value
                if d.kind != "assign" or v is None:
                    return False
                if isinstance(v, ast.DictComp):
                    if not gate_value(v.value, d.node, depth + 1):
                        return False
                elif isinstance(v, (ast.ListComp, ast.GeneratorExp)):
                    if not gate_value(v.elt, d.node, depth + 1):
                        return False
                elif isinstance(v, ast.Dict):
                    if not v.values or not all(gate_value(x, d.node, depth + 1) for x in v.values):
                        return False
                else:
                    return False
            for st, t, k in stores_in(f.node):
                if isinstance(t, ast.Subscript) and isinstance(t.value, ast.Name) and t.value.id == cont and k == "assign":
                    if not gate_value(st.value, cfg.nodes_for(st)[0], depth + 1):
                        return False
            return True
        return False

    def from_gate(node, name):
        defs = rd.reaching(node, name)
        if not defs:
            return False, "no definition reaches"
        for d in defs:
            if not (d.kind == "assign" and d.value is not None and gate_value(d.value, d.node)):
                return False, "`%s` may hold a value not produced by _get_attribute (defined by %s at %s)" % (
                    name, d.kind, f.loc(d.node.ast) if d.node is not None else "parameter")
        return True, ""
    n_dyn = 0
    for c, tgs in ctx.cg.calls_of(f):
        if isinstance(c.func, ast.Name) and ctx.cg.is_local(f, c.func.id) and not any(t.kind == "fn" for t in tgs) and \
                not any(t.kind == "ext" and not t.name.endswith("()()") for t in tgs):
            n_dyn += 1
            for node in ctx.node_of(f, c):
                ok, why = from_gate(node, c.func.id)
                R.check(ok, "C02-R1", "handleRequest|dynamic-call#%d" % n_dyn, "callee of the dynamic call comes from _get_attribute", f.loc(c),
                        "user code is invoked on a name that did not pass the exposure gate: " + why)
    if n_dyn < 2:
        raise AnalysisError("handleRequest: fewer dynamic method calls than expected (%d)" % n_dyn)
    ow = ctx.calls_to(f, "Pyro5.server._OnewayCallThread.__init__")
    if not ow:
        raise AnalysisError("handleRequest: oneway hand-off vanished")
    for c in ow:
        a0 = c.args[0] if c.args else None
        for node in ctx.node_of(f, c):
            ok, why = from_gate(node, a0.id) if isinstance(a0, ast.Name) else (False, "method argument is not a local name")
            R.check(ok, "C02-R1", "handleRequest|oneway-handoff", "the method handed to the oneway thread comes from _get_attribute", f.loc(c), why)
    for qn, nm, nargs in ((PGET, "getattr-request", 2), (PSET, "setattr-request", 3)):
        calls = ctx.calls_to(f, qn)
        R.check(len(calls) >= 1, "C02-R1", "handleRequest|%s" % nm, "attribute access goes through the property gate %s" % qn.rsplit(".", 1)[1], f.loc(),
                "the %s no longer goes through %s" % (nm, qn))
        for c in calls:
            plain = len(c.args) == nargs and not c.keywords and not any(isinstance(a, ast.Starred) for a in c.args)
            R.check(plain, "C02-R1", "handleRequest|%s-gate-arguments" % nm, "the gate is called with exactly (object, name%s): the peer cannot reach the gate's other parameters" % (", value" if nargs == 3 else ""),
                    f.loc(c), "`%s` lets the request's argument vector fill further parameters of the gate (e.g. only_exposed=False switches the exposure test off)" % unparse(c))
    for c in ctx.calls_to(f, GATE):
        plain = len(c.args) == 2 and not c.keywords and not any(isinstance(a, ast.Starred) for a in c.args)
        R.check(plain, "C02-R1", "handleRequest|method-gate-arguments#%d" % ctx.calls_to(f, GATE).index(c), "the method gate is called with exactly (object, name)", f.loc(c),
                "`%s` passes peer-controlled extra arguments to the gate" % unparse(c))
    bad = []
    for c, tgs in ctx.cg.calls_of(f):
        if any(t.kind == "ext" and t.name in ("builtins.getattr", "builtins.setattr", "builtins.delattr") for t in tgs):
            if len(c.args) < 2 or not (isinstance(c.args[1], ast.Constant) and isinstance(c.args[1].value, str)):
                bad.append(c)
    R.check(not bad, "C02-R1", "handleRequest|no-raw-dynamic-attr", "no getattr/setattr/delattr with a computed name in handleRequest", f.loc(bad[0]) if bad else f.loc(),
            "`%s` reaches an attribute by a peer-controlled name without any gate" % (unparse(bad[0]) if bad else ""))

    # ---------------------------------------------------------------- R2
    g = ctx.fn(GATE)
    gcfg = ctx.cfg(g)
    attr = g.params[1]
    rets = [n for n in gcfg.nodes if n.kind == "stmt" and isinstance(n.ast, ast.Return)]
    if not rets:
        raise AnalysisError("_get_attribute: no return")
    for i, n in enumerate(rets):
        R.check(gcfg.guarded(n, lambda e: edge_has_fact(e, private_false(ctx, g, {attr}))), "C02-R2", "_get_attribute|private-refusal#%d" % i,
                "return is reachable only on the false edge of is_private_attribute(attr)", g.loc(n.ast),
                "a private or reserved name can be resolved and returned for dispatch")
        R.check(gcfg.guarded(n, lambda e: edge_has_fact(e, exposed_true)), "C02-R2", "_get_attribute|exposed-test#%d" % i,
                "return is reachable only on the true edge of getattr(x, '_pyroExposed', False)", g.loc(n.ast),
                "a member that was never exposed can be returned for dispatch")
    # what is returned is the looked-up member, never the target object itself; and the gates cannot fall off their end (an implicit None is a normal reply, not a refusal)
    grd = ctx.rd(g)
    for i, n in enumerate(rets):
        v = n.ast.value
        okv = isinstance(v, ast.Name) and bool(grd.reaching(n, v.id)) and all(
            d.kind == "assign" and isinstance(d.value, ast.Call) and dotted(d.value.func) == "getattr" and len(d.value.args) >= 2 and unparse(d.value.args[1]) == attr
            for d in grd.reaching(n, v.id))
        R.check(okv, "C02-R2", "_get_attribute|returns-the-looked-up-member#%d" % i, "the returned value comes from getattr(obj, <name>) on every path", g.loc(n.ast),
                "a path reaches the return with the target object itself (the lookup was skipped): for an exposed class the exposure test passes and the object is called instead of a member")
    for qn_ in (GATE, PGET, PSET):
        gg = ctx.fn(qn_)
        c_ = ctx.cfg(gg)
        rr = [n for n in c_.nodes if n.kind == "stmt" and isinstance(n.ast, ast.Return)]
        okf = c_.all_paths_pass([c_.entry], lambda n: n in rr, targets=[c_.exit])
        R.check(okf, "C02-R2", "%s|no-fall-through" % gg.name, "the gate ends only by an explicit return or by raising", gg.loc(),
                "some path leaves %s without return or raise: the request is answered with None as a normal result instead of being refused" % gg.name)

    def not_descriptor(atom, pol):
        return pol is False and isinstance(atom, ast.Call) and dotted(atom.func) == "inspect.isdatadescriptor" and atom.args and \
            isinstance(atom.args[0], ast.Call) and dotted(atom.args[0].func) == "inspect.getattr_static"
    dyn_lookup = [n for c, tgs in ctx.cg.calls_of(g) if any(t.kind == "ext" and t.name == "builtins.getattr" for t in tgs) and len(c.args) >= 2
                  and not isinstance(c.args[1], ast.Constant) for n in ctx.node_of(g, c)]
    R.check(bool(dyn_lookup) and all(gcfg.guarded(n, lambda e: edge_has_fact(e, not_descriptor)) for n in dyn_lookup), "C02-R2", "_get_attribute|no-getter-before-refusal",
            "the name is looked up on the object only after a static lookup showed it is not a data descriptor (a property's getter must not run for a request that is refused)", g.loc(),
            "getattr(obj, name) runs the getter of a property before the exposure test can refuse the request: target code runs for an unexposed member")
    lookups = [c for c, tgs in ctx.cg.calls_of(g) if any(t.kind == "ext" and t.name == "builtins.getattr" for t in tgs)
               and len(c.args) >= 2 and not isinstance(c.args[1], ast.Constant)]
    ok = len(lookups) == 1 and isinstance(lookups[0].args[1], ast.Name) and lookups[0].args[1].id == attr
    loops = [n for n in walk_no_nested(g.node) if isinstance(n, (ast.For, ast.While, ast.ListComp, ast.GeneratorExp))]
    splitters = [c for c, _ in ctx.cg.calls_of(g) if isinstance(c.func, ast.Attribute) and c.func.attr in ("split", "rsplit", "partition", "rpartition")
                 or (dotted(c.func) in ("functools.reduce", "reduce", "operator.attrgetter", "attrgetter"))]
    R.check(ok and not loops and not splitters, "C02-R2", "_get_attribute|no-dotted-traversal",
            "exactly one lookup, by the name as given; no loop or split over the name", g.loc(),
            "the requested name is split or resolved step by step (dotted traversal reaches objects behind the exposed one)")
    for qn, fn_attr in ((PGET, "fget"), (PSET, "fset")):
        h = ctx.fn(qn)
        hcfg = ctx.cfg(h)
        prop = h.params[1]
        calls = [c for c, _ in ctx.cg.calls_of(h) if isinstance(c.func, ast.Attribute) and c.func.attr == fn_attr]
        if len(calls) > 1:
            raise AnalysisError("%s: expected one %s call" % (qn, fn_attr))
        R.check(len(calls) == 1, "C02-R2", "%s|accessor-called-directly" % h.name, "the gate runs the accessor of the descriptor it examined (`.%s(obj, ...)`)" % fn_attr, h.loc(),
                "%s no longer calls the examined descriptor's %s: a getattr()/setattr() on the object instead goes through the object's __getattr__/__setattr__ hooks and whatever "
                "else the name resolves to at that moment, not through the member whose exposure was just tested" % (h.name, fn_attr))
        if not calls:
            continue
        for node in ctx.node_of(h, calls[0]):
            R.check(hcfg.guarded(node, lambda e: edge_has_fact(e, inspect_true({"inspect.isdatadescriptor"}))), "C02-R2",
                    "%s|descriptor-test" % h.name, "the accessor runs only for data descriptors", h.loc(calls[0]),
                    "a non-property attribute can be served")
            R.check(hcfg.guarded(node, lambda e: edge_has_fact(e, exposed_true)), "C02-R2", "%s|exposed-test" % h.name,
                    "the accessor runs only on the true edge of the _pyroExposed test", h.loc(calls[0]), "an unexposed property is served")
            R.check(hcfg.guarded(node, lambda e: edge_has_fact(e, private_false(ctx, h, {prop}))), "C02-R2", "%s|private-refusal" % h.name,
                    "the accessor runs only on the false edge of is_private_attribute(propname)", h.loc(calls[0]),
                    "a private alias of an exposed property is served although _get_attribute refuses private names and the metadata never lists it")

    # ---------------------------------------------------------------- R3
    m = ctx.fn("Pyro5.server._get_exposed_members")
    mcfg = ctx.cfg(m)
    adds = {}
    role = {}
    for n in walk_no_nested(m.node):
        if isinstance(n, ast.Dict):
            for k, v in zip(n.keys, n.values):
                if isinstance(k, ast.Constant) and k.value in ("methods", "attrs") and isinstance(v, ast.Name):
                    role[v.id] = k.value
        elif isinstance(n, ast.Assign) and len(n.targets) == 1 and isinstance(n.targets[0], ast.Name) and isinstance(n.value, ast.Subscript) \
                and isinstance(n.value.slice, ast.Constant) and n.value.slice.value in ("methods", "attrs"):
            role[n.targets[0].id] = n.value.slice.value          # methods = entry["methods"]: the local names a set that already sits in the result dict
    for c, _ in ctx.cg.calls_of(m):
        if isinstance(c.func, ast.Attribute) and c.func.attr == "add" and isinstance(c.func.value, ast.Name) and c.func.value.id in role:
            adds.setdefault(role[c.func.value.id], []).append(c)
    if "methods" not in adds or "attrs" not in adds:
        raise AnalysisError("_get_exposed_members: methods.add / attrs.add vanished")
    callable_kinds = {"inspect.ismethod", "inspect.isfunction", "inspect.ismethoddescriptor"}
    for kind, calls in adds.items():
        for c in calls:
            for node in ctx.node_of(m, c):
                R.check(mcfg.guarded(node, lambda e: edge_has_fact(e, private_false(ctx, m))), "C02-R3", "advertise-%s|private-refusal" % kind,
                        "names are advertised only on the false edge of is_private_attribute", m.loc(c), "private names are advertised")
                R.check(mcfg.guarded(node, lambda e: edge_has_fact(e, exposed_true)), "C02-R3", "advertise-%s|exposed-test" % kind,
                        "names are advertised only on the true edge of the _pyroExposed test", m.loc(c), "unexposed names are advertised")
    meth_add_nodes = [n for c in adds["methods"] for n in ctx.node_of(m, c)]
    adv_has_kind = all(mcfg.guarded(n, lambda e: edge_has_fact(e, inspect_true(callable_kinds))) for n in meth_add_nodes)
    rets_kind = all(gcfg.guarded(n, lambda e: edge_has_fact(e, inspect_true(callable_kinds))) for n in rets)
    R.check((not adv_has_kind) or rets_kind, "C02-R3", "_get_attribute|callable-kind",
            "methods are served under the same callable-kind predicate under which they are advertised", g.loc(),
            "_get_exposed_members lists a name as method only if it is a function/method/method descriptor; _get_attribute serves any attribute "
            "whose value carries _pyroExposed (e.g. an attribute holding an instance or the class of an @expose'd class): served and called, "
            "never advertised")
    # metadata cache: one entry per class OBJECT
    ckeys = [n for n in walk_no_nested(m.node) if isinstance(n, ast.Assign) and isinstance(n.value, ast.Tuple) and
             any(isinstance(x, ast.Subscript) and isinstance(x.slice, ast.Name) and x.slice.id == (n.targets[0].id if isinstance(n.targets[0], ast.Name) else None)
                 for x in walk_no_nested(m.node))]
    okc = bool(ckeys) and all(any(isinstance(e, ast.Name) and e.id == m.params[0] for e in n.value.elts) for n in ckeys)
    R.check(okc, "C02-R3", "metadata-cache|keyed-by-class-object", "the per-class metadata cache is keyed by the class object itself", m.loc(ckeys[0]) if ckeys else m.loc(),
            "the cache key `%s` does not contain the class object: two different classes that share a name get each other's advertised member list" % (unparse(ckeys[0].value) if ckeys else "?"))
    # the reset routine must address the entry the lookup routine wrote: same normalisation of its argument, same key
    rs = ctx.fn("Pyro5.server._reset_exposed_members")
    rkeys = [n for n in walk_no_nested(rs.node) if isinstance(n, ast.Assign) and isinstance(n.value, ast.Tuple) and isinstance(n.targets[0], ast.Name) and
             any(isinstance(x, ast.Name) and x.id == n.targets[0].id and not isinstance(getattr(x, "_parent", None), ast.Assign) for x in walk_no_nested(rs.node))]
    if len(ckeys) == 1 and len(rkeys) == 1:
        a, b = _canon_until(m.node, ckeys[0]), _canon_until(rs.node, rkeys[0])
        R.check(a == b, "C02-R3", "metadata-cache|reset-addresses-the-same-key", "_reset_exposed_members builds its key exactly as _get_exposed_members does (class normalisation included)",
                rs.loc(rkeys[0]), "the two routines derive the cache key differently:\n  lookup: %s\n  reset : %s\nso resetMetadataCache() misses the entry for some registrations "
                "(e.g. objects registered as a class) and the daemon keeps advertising a member list it no longer serves" % (" ; ".join(a), " ; ".join(b)))
    else:
        R.fail("C02-R3", "metadata-cache|reset-addresses-the-same-key", "_reset_exposed_members builds its key exactly as _get_exposed_members does", rs.loc(),
               "no single key tuple found in one of the two routines (lookup %d, reset %d)" % (len(ckeys), len(rkeys)))
    # ... and it must be handed the registered object itself: a weak registration stores a weakref.ref in the registry, whose class is not the object's class (shared with C16-R6)
    from ..report import Rules as _Rules
    from ..report import run_shared as _run_shared
    from . import c16 as _c16
    R16 = _Rules("C16")
    try:
        _run_shared(ctx, _c16, R16, tier)
    except AnalysisError as _shared_x:
        # the other property's own anchors are gone on this tree: its check reports that; what it produced before is still shared
        R.note("obligations shared from C16 are incomplete on this tree: %s" % _shared_x)
    shared = [o for o in R16.obs if o.rule == "C16-R6" and o.key.split("|")[1] == "Daemon.resetMetadataCache"]
    if not shared:
        R.note("C16-R6 produced no instance for Daemon.resetMetadataCache on this tree (C16 reports why); nothing shared")
    for o in shared:
        R.add("C02-R3", "metadata-cache|reset-is-given-the-object|" + o.key.split("|", 2)[2], "resetMetadataCache unwraps the registry value before it resets that object's cache entry "
              "(otherwise the key is built from weakref.ref and the stale member list stays advertised)", o.ok, o.loc, o.detail)
    stores_c = [n for n in walk_no_nested(m.node) if isinstance(n, ast.Assign) and isinstance(n.targets[0], ast.Subscript) and "cache" in unparse(n.targets[0].value)]
    add_nodes = [n for k_ in adds.values() for c in k_ for n in ctx.node_of(m, c)]
    okp = bool(stores_c) and not any(mcfg.path_exists(mcfg.nodes_for(st), lambda n: n in add_nodes) for st in stores_c)
    R.check(okp, "C02-R3", "metadata-cache|published-after-filled", "the member sets are stored in the cache only after the scan that fills them", m.loc(stores_c[0]) if stores_c else m.loc(),
            "the cache entry is published before the scan has filled it: a second client (or a fault mid-scan) gets a truncated member list while the daemon serves everything")
    # the cache is keyed by the class the object stands for - which the two helpers work out THEMSELVES (a registered class is its own key, an instance is keyed by its
    # class): every caller hands them the registered object as it was looked up. A caller that pre-computes `type(x)` / `x.__class__` asks about the metaclass when a
    # class is registered: the reset (or the listing) silently addresses another cache entry, and clients keep being told the old member list
    helper_calls = []
    for g in p.functions.values():
        if g.module.name != "Pyro5.server" or isinstance(g.node, ast.Lambda) or g.name in ("_get_exposed_members", "_reset_exposed_members"):
            continue
        for c in walk_no_nested(g.node):
            if isinstance(c, ast.Call) and isinstance(c.func, ast.Name) and c.func.id in ("_get_exposed_members", "_reset_exposed_members") and c.args:
                helper_calls.append((g, c))
    if len(helper_calls) < 3:
        raise AnalysisError("fewer callers of the member-list helpers than expected (%d)" % len(helper_calls))
    for g, c in helper_calls:
        a = c.args[0]
        precomputed = (isinstance(a, ast.Call) and isinstance(a.func, ast.Name) and a.func.id == "type") or (isinstance(a, ast.Attribute) and a.attr == "__class__")
        R.check(not precomputed, "C02-R3", "metadata-cache|%s-asks-about-the-registered-object-itself" % g.name, "the member-list helper is handed the registered object as looked up "
                "(it derives the class key itself)", g.loc(c),
                "`%s` hands the helper `%s` instead of the registered object: for a registered CLASS that is its metaclass - the cache entry that is reset or read is not the "
                "one the handshake answers from, so after resetMetadataCache() new clients still get the stale list (advertised differs from served)" % (unparse(c, 70), unparse(a, 40)))
    pm = ctx.fn("Pyro5.client.Proxy.__processMetadata")
    pst = [(st, t) for st, t, k in stores_in(pm.node) if k == "assign" and isinstance(t, ast.Attribute) and t.attr in ("_pyroMethods", "_pyroAttrs", "_pyroOneway")]
    okc2 = len(pst) == 3 and all(isinstance(st.value, ast.Call) and isinstance(st.value.func, ast.Name) and st.value.func.id in ("set", "frozenset") for st, t in pst)
    R.check(okc2, "C02-R3", "proxy-metadata|copied", "a proxy copies the member sets it is given (Daemon.proxyFor hands it the daemon's cached sets)", pm.loc(),
            "the proxy keeps the very set objects it was given: mutating a local proxy's _pyroOneway/_pyroMethods changes what the daemon advertises to every later client")
    # carrier order
    orders = {}
    ex = ctx.fn("Pyro5.server.expose")
    for fn in (ex, m, ctx.fn(PSET)):
        for n in walk_no_nested(fn.node):
            if isinstance(n, ast.Assign) and isinstance(n.value, ast.BoolOp):
                o = carrier_order(n.value)
                if o and len(o) >= 2:
                    orders[fn.qualname] = o
    if len(orders) < 3:
        raise AnalysisError("mark-carrier expressions (fget or fset or fdel) not found in expose/_get_exposed_members/_set_exposed_property_value")
    R.check(len({tuple(o) for o in orders.values()}) == 1, "C02-R3", "mark-carrier-order", "expose, the metadata routine and the setter gate pick the same accessor as carrier of the mark",
            ex.loc(), "different carrier orders: %s" % orders)

    # ---------------------------------------------------------------- R4
    srv = p.module("Pyro5.server")
    tbl = srv.constants.get("_private_dunder_methods")
    names = None
    if isinstance(tbl, ast.Call) and tbl.args and isinstance(tbl.args[0], (ast.List, ast.Tuple, ast.Set)):
        names = {e.value for e in tbl.args[0].elts if isinstance(e, ast.Constant)}
    elif isinstance(tbl, (ast.Set, ast.List, ast.Tuple)):
        names = {e.value for e in tbl.elts if isinstance(e, ast.Constant)}
    if names is None:
        raise AnalysisError("anchor vanished: Pyro5.server._private_dunder_methods literal table")
    missing = sorted(REFERENCE_RESERVED - names)
    R.check(not missing, "C02-R4", "_private_dunder_methods|superset", "the reserved table contains all %d reference names" % len(REFERENCE_RESERVED),
            srv.relpath, "reserved names dropped from the table (now remotely resolvable): %s" % missing)
    ip = ctx.fn(PRIV)
    icfg = ctx.cfg(ip)
    an = ip.params[0]

    def in_table_false(atom, pol):
        return pol is False and isinstance(atom, ast.Compare) and len(atom.ops) == 1 and isinstance(atom.ops[0], ast.In) and \
            unparse(atom.left) == an and ctx.resolves_to_object(atom.comparators[0], ip, "Pyro5.server._private_dunder_methods")

    def public_name(atom, pol):
        return pol is False and isinstance(atom, ast.Call) and isinstance(atom.func, ast.Attribute) and atom.func.attr == "startswith" and \
            unparse(atom.func.value) == an and atom.args and isinstance(atom.args[0], ast.Constant) and atom.args[0].value == "_"

    def dunder_start(atom, pol):
        return pol is True and isinstance(atom, ast.Call) and isinstance(atom.func, ast.Attribute) and atom.func.attr == "startswith" and \
            unparse(atom.func.value) == an and atom.args and isinstance(atom.args[0], ast.Constant) and atom.args[0].value == "__"

    def dunder_end(atom, pol):
        return pol is True and isinstance(atom, ast.Call) and isinstance(atom.func, ast.Attribute) and atom.func.attr == "endswith" and \
            unparse(atom.func.value) == an and atom.args and isinstance(atom.args[0], ast.Constant) and atom.args[0].value == "__"
    falses = [n for n in icfg.nodes if n.kind == "stmt" and isinstance(n.ast, ast.Return) and
              not (isinstance(n.ast.value, ast.Constant) and n.ast.value.value is True)]
    ok = bool(falses)
    why = "no False return"
    for n in falses:
        if not icfg.guarded(n, lambda e: edge_has_fact(e, in_table_false)):
            ok = False
            why = "`%s` at %s is reachable for a name in the reserved table" % (unparse(n.ast), ip.loc(n.ast))
        elif not (icfg.guarded(n, lambda e: edge_has_fact(e, public_name)) or
                  (icfg.guarded(n, lambda e: edge_has_fact(e, dunder_start)) and icfg.guarded(n, lambda e: edge_has_fact(e, dunder_end)))):
            ok = False
            why = "`%s` at %s is reachable for an underscore name that is not of the dunder form" % (unparse(n.ast), ip.loc(n.ast))
    R.check(ok, "C02-R4", "is_private_attribute|false-only-if-public", "returns False only for names outside the table that are public or dunder-shaped", ip.loc(), why)
    trues = [n for n in icfg.nodes if n.kind == "stmt" and isinstance(n.ast, ast.Return) and isinstance(n.ast.value, ast.Constant) and n.ast.value.value is True]
    R.check(len(trues) >= 2 and icfg.guarded(icfg.exit, lambda e: False) is False, "C02-R4", "is_private_attribute|true-default",
            "reserved and other underscore names return True", ip.loc(), "is_private_attribute has no `return True` paths left")

    # ---------------------------------------------------------------- R5
    ecfg = ctx.cfg(ex)
    mark_stores = [(st, t) for st, t, k in stores_in(ex.node) if k == "assign" and isinstance(t, ast.Attribute) and t.attr == "_pyroExposed"]
    if len(mark_stores) < 6:
        raise AnalysisError("expose: fewer _pyroExposed stores than expected (%d)" % len(mark_stores))
    loops = [n for n in walk_no_nested(ex.node) if isinstance(n, ast.For)]
    if len(loops) != 1:
        raise AnalysisError("expose: expected exactly one loop over the class members")
    lp = loops[0]
    it = lp.iter
    own = (isinstance(it, ast.Attribute) and it.attr == "__dict__") or \
          (isinstance(it, ast.Call) and isinstance(it.func, ast.Name) and it.func.id == "vars") or \
          (isinstance(it, ast.Call) and isinstance(it.func, ast.Attribute) and it.func.attr in ("keys", "items") and
           isinstance(it.func.value, ast.Attribute) and it.func.value.attr == "__dict__")
    R.check(own, "C02-R5", "expose|own-members", "the class branch iterates the class's own __dict__", ex.loc(lp),
            "`for ... in %s` also visits inherited members: exposing a subclass marks (shared) base-class functions as exposed" % unparse(it))
    okp = True
    why = ""
    n_in = 0
    for st, t in mark_stores:
        inside = lp in enclosing_loops(st, ex.node)
        for node in ecfg.nodes_for(st):
            if inside:
                n_in += 1
                loopvars = {n.id for n in ast.walk(lp.target) if isinstance(n, ast.Name)}
                if not ecfg.guarded(node, lambda e: edge_has_fact(e, private_false(ctx, ex, loopvars))):
                    okp = False
                    why = "member mark at %s is not behind a private-name test of the member's own name (%s)" % (ex.loc(st), "/".join(sorted(loopvars)))
    R.check(okp and n_in >= 4, "C02-R5", "expose|class-branch-private-skip", "every mark stored in the class loop is behind the private-name test", ex.loc(lp), why)
    okp = True
    for st, t in mark_stores:
        if lp in enclosing_loops(st, ex.node):
            continue
        if unparse(t.value) == "clazz":
            continue
        for node in ecfg.nodes_for(st):
            if not ecfg.guarded(node, lambda e: edge_has_fact(e, private_false(ctx, ex))):
                okp = False
                why = "mark at %s is not behind the private-name test" % ex.loc(st)
    R.check(okp, "C02-R5", "expose|single-member-private-raise", "function/property marks are stored only after the private-name refusal", ex.loc(), why)

    # ---------------------------------------------------------------- R6
    for c in sorted((ci for ci in p.classes.values() if ci.module.name == "Pyro5.serializers" and "loadsCall" in ci.methods and ci.name != "SerializerBase"), key=lambda c: c.name):
        lc = c.methods["loadsCall"]
        rets = [r for r in walk_no_nested(lc.node) if isinstance(r, ast.Return) and isinstance(r.value, ast.Tuple) and len(r.value.elts) == 4]
        ok = bool(rets)
        why = "loadsCall does not return the 4-tuple envelope"
        for r in rets:
            for pos, key in ((0, "object"), (1, "method")):
                e = r.value.elts[pos]
                raw = False
                if isinstance(e, ast.Subscript) and isinstance(e.slice, ast.Constant) and e.slice.value == key:
                    raw = True
                elif isinstance(e, ast.Name):
                    defs = [d for n in ctx.cfg(lc).nodes_for(r) for d in ctx.rd(lc).reaching(n, e.id)]
                    raw = bool(defs) and all(d.kind == "unpack" and d.index == pos for d in defs)
                if not raw:
                    ok = False
                    why = "the %s slot is returned as `%s`, not as decoded: a non-string name (bytes) is turned into something the gate accepts" % (key, unparse(e, 50))
        R.check(ok, "C02-R6", "%s.loadsCall|names-returned-as-decoded" % c.name, "object id and member name are handed on exactly as decoded", lc.loc(), why)

