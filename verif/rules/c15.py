"""C15 — Name server operations are atomic under concurrent clients (guarded-by discipline of NameServer.lock)."""
import ast
from ..engine.model import AnalysisError, dotted
from ..engine.context import unparse, enclosing_stmt, stores_in, in_lock_region, enclosing_withs
from ..engine.cfg import walk_no_nested, calls_in

EXPLANATION = (
    "Guarded-by analysis of NameServer.lock. Decided: every NameServer method that can touch the shared storage more than once "
    "on one path (check-then-act, read-modify-write, list-then-delete; accesses made through sibling methods count) performs "
    "all its storage accesses inside one `with self.lock` region; the lock is created once, is re-entrant (nested acquisition "
    "through remove -> list), no other lock guards storage, and no blocking call runs inside a region; every mutating sqlite "
    "storage operation is a single transaction, so the lock-free readers (lookup, count) never observe half of one. "
    'Also decided: every NameServer method touches the storage only under the lock; multi-statement reads of the sqlite storage run in one snapshot; `nsc register` is one safe remote call. '
    'Also decided (round 7): The storage is used through NameServer only (other code may only close it); MemoryStorage never edits a stored entry in place. '
    'Also decided (round 9): Fields of the name server object are written only under the lock. '
    'Also decided (round 11): The safe-registration refusal and the snapshot listing are shared from C14. '
    "Not decided: linearizability of histories, atomicity inside one storage method."
)

LOCK = "self.lock"
BLOCKING = {"time.sleep", "socket.create_connection"}
BLOCKING_ATTRS = {"join", "sleep", "recv", "accept", "connect", "wait", "sendall", "recvfrom"}


def storage_accesses(ctx, f, accessing_methods):
    """AST nodes in f that touch self.storage (directly, or through sibling methods that do)"""
    out = []
    for n in walk_no_nested(f.node):
        if isinstance(n, ast.Attribute) and unparse(n) == "self.storage":
            # climb to the largest expression that is the access (call / subscript / compare / len / for-iter)
            out.append(n)
        elif isinstance(n, ast.Call) and isinstance(n.func, ast.Attribute) and isinstance(n.func.value, ast.Name) and n.func.value.id == "self" \
                and n.func.attr in accessing_methods:
            out.append(n)
    return out


def run(ctx, R, tier):
    p = ctx.p
    ns = p.cls("Pyro5.nameserver.NameServer")
    R.rule("C15-R1", "every NameServer method with two or more storage accesses on one path performs all of them inside one `with self.lock` region; the storage is used through NameServer only; stored entries are never edited in place", floor=8)
    R.rule("C15-R3", "every mutating sqlite storage operation is one transaction, so lock-free readers (lookup, count) never see half of it (shared with C14-R2)", floor=5)
    R.rule("C15-R4", "the command line client keeps the atomicity: `nsc register` is one remote register(..., safe=True) call, not a check followed by an unsafe register", floor=1)
    R.rule("C15-R2", "one re-entrant lock created in __init__; storage is not accessed under another lock; no blocking call inside a lock region", floor=3)

    methods = {name: m for name, m in ns.methods.items() if name != "__init__"}
    if len(methods) < 8:
        raise AnalysisError("NameServer: fewer methods than expected (%d)" % len(methods))
    # which methods access storage (fix-point over sibling calls)
    accessing = set()
    changed = True
    while changed:
        changed = False
        for name, m in methods.items():
            if name in accessing:
                continue
            if storage_accesses(ctx, m, accessing):
                accessing.add(name)
                changed = True
    taking_lock = {name for name, m in methods.items()
                   if any(isinstance(n, ast.With) and any(dotted(it.context_expr) == LOCK for it in n.items) for n in walk_no_nested(m.node))}

    for name, m in sorted(methods.items()):
        acc = storage_accesses(ctx, m, accessing)
        cfg = ctx.cfg(m)
        # map access -> cfg nodes
        acc_nodes = []
        for a in acc:
            st = enclosing_stmt(a)
            nodes = cfg.nodes_for(st)
            # header expressions of compound statements belong to the test/for/with node of that statement
            acc_nodes.append((a, nodes))
        compound = False
        for i, (a, an) in enumerate(acc_nodes):
            for j, (b, bn) in enumerate(acc_nodes):
                if a is b:
                    continue
                if any(x is y for x in an for y in bn):
                    compound = True      # two accesses in one statement
                elif cfg.path_exists(an, lambda n: n in bn):
                    compound = True
        if not compound:
            R.ok("C15-R1", "NameServer.%s|single-access" % name, "%d storage access(es), never two on one path: atomic by itself" % len(acc), m.loc())
            continue
        regions = []
        outside = []
        for a, an in acc_nodes:
            w = None
            for ww in enclosing_withs(a):
                if any(dotted(it.context_expr) == LOCK for it in ww.items):
                    w = ww       # outermost wins (last in list is outermost)
            if w is None:
                outside.append(a)
            else:
                regions.append(id(w))
        ok = not outside and len(set(regions)) == 1
        why = ""
        if outside:
            why = "`%s` at %s touches the storage outside the lock although %s() accesses it more than once: another client's operation can run in between " \
                  "(check-then-act / list-then-delete race)" % (unparse(getattr(outside[0], "_parent", outside[0]), 60), m.loc(outside[0]), name)
        elif len(set(regions)) != 1:
            why = "the storage accesses of %s() are spread over %d separate lock regions: the lock is released in between" % (name, len(set(regions)))
        R.check(ok, "C15-R1", "NameServer.%s|compound-under-one-lock" % name, "all %d storage accesses lie in one `with self.lock` region" % len(acc), m.loc(), why)

    # ---------------------------------------------------------------- R3 (shared with C14-R2)
    from ..report import Rules
    from ..report import run_shared as _run_shared
    from . import c14
    R14 = Rules("C14")
    try:
        _run_shared(ctx, c14, R14, tier)
    except AnalysisError as _shared_x:
        # the other property's own anchors are gone on this tree: its check reports that; what it produced before is still shared
        R.note("obligations shared from C14 are incomplete on this tree: %s" % _shared_x)
    for o in R14.obs:
        if o.key in ("C14-R3|register|safe-refuses-every-name-that-is-present", "C14-R3|MemoryStorage.everything|answers-with-a-snapshot"):
            R.add("C15-R1", o.key.split("|", 1)[1], o.desc + " (of concurrent safe registrations of one name exactly one succeeds; a listing is one state of the map, not a window onto it)",
                  o.ok, o.loc, o.detail)
        if o.rule == "C14-R2":
            R.add("C15-R3", o.key.split("|", 1)[1], o.desc + " (lookup and count take no lock: a second commit inside one operation would be visible to them as a state no "
                  "sequential order explains)", o.ok, o.loc, o.detail)

    # lock-free readers: the storage method they use must read one snapshot (a single statement, or an explicit transaction around several)
    sql = p.cls("Pyro5.nameserver.SqlStorage")
    n_free = 0
    for name, m in sorted(methods.items()):
        for a in storage_accesses(ctx, m, set()):
            if any(dotted(it.context_expr) == LOCK for w in enclosing_withs(a) for it in w.items):
                continue
            par = getattr(a, "_parent", None)
            sm = None
            if isinstance(par, ast.Subscript) and isinstance(par.ctx, ast.Load):
                sm = "__getitem__"
            elif isinstance(par, ast.Call) and isinstance(par.func, ast.Name) and par.func.id == "len":
                sm = "__len__"
            elif isinstance(par, ast.Compare):
                sm = "__contains__"
            elif isinstance(par, ast.Attribute) and isinstance(getattr(par, "_parent", None), ast.Call):
                sm = par.attr
            if sm is None or sm not in sql.methods:
                continue
            g = sql.methods[sm]
            n_free += 1
            ex = [c for c in walk_no_nested(g.node) if isinstance(c, ast.Call) and isinstance(c.func, ast.Attribute) and c.func.attr == "execute" and c.args]
            def text(c):
                okc, v = ctx.const(c.args[0], g)
                return v.strip().upper() if okc and isinstance(v, str) else "?"
            selects = [c for c in ex if text(c).startswith("SELECT") or text(c) == "?"]
            begins = [c for c in ex if text(c).startswith("BEGIN")]
            gcfg = ctx.cfg(g)
            ok = len(selects) <= 1 or (bool(begins) and all(any(gcfg.dominates(b, x) and b is not x for bc in begins for b in ctx.node_of(g, bc))
                                                            for c in selects for x in ctx.node_of(g, c)))
            R.check(ok, "C15-R3", "lock-free:NameServer.%s->SqlStorage.%s|one-snapshot" % (name, sm),
                    "%s() takes no lock, so the storage method it uses reads a single snapshot (one statement, or BEGIN before the first of several)" % name, g.loc(),
                    "SqlStorage.%s runs %d SELECTs outside any transaction and NameServer.%s calls it without the lock: a registration committed in between makes it "
                    "return a (uri, metadata) pair that was never registered" % (sm, len(selects), name))
    R.note("lock-free storage readers among the NameServer methods: %d" % n_free)
    # every NameServer operation touches the storage only while it holds the lock: MemoryStorage.remove_items deletes entry by entry, so a reader outside the lock
    # would see one name of a group gone and the next still present although one single remove() is in progress
    for name, m in sorted(methods.items()):
        acc = storage_accesses(ctx, m, set())
        if not acc:
            continue
        out_ = [a for a in acc if not any(dotted(it.context_expr) == LOCK for w in enclosing_withs(a) for it in w.items)]
        R.check(not out_, "C15-R1", "NameServer.%s|storage-only-under-lock" % name, "every storage access of %s() lies in a `with self.lock` region" % name, m.loc(),
                ("`%s` at %s reads the storage without the lock: it can run in the middle of another client's multi-entry operation" % (
                    unparse(getattr(out_[0], "_parent", out_[0]), 60), m.loc(out_[0]))) if out_ else "")

    # the lock protects the storage only if the storage is reached through NameServer's own methods: any other code of the package that takes `<name server>.storage`
    # and calls it (the auto-cleaner thread, the broadcast responder, the daemon glue) edits or reads the table while a client operation holds the lock.
    # Allowed outside NameServer: closing the storage when the name server daemon shuts down.
    n_ext = 0
    for g in p.functions.values():
        if isinstance(g.node, ast.Lambda) or (g.cls is not None and g.cls.qualname == ns.qualname):
            continue
        for n in walk_no_nested(g.node):
            if isinstance(n, ast.Attribute) and n.attr == "storage" and isinstance(n.ctx, ast.Load) and not (isinstance(n.value, ast.Name) and n.value.id == "options"):
                is_ns = ("cls:" + ns.qualname) in ctx.cg.expr_types(n.value, g) or (isinstance(n.value, ast.Attribute) and n.value.attr == "nameserver")
                if not is_ns:
                    continue
                n_ext += 1
                par = getattr(n, "_parent", None)
                closing = isinstance(par, ast.Attribute) and par.attr == "close"
                R.check(closing, "C15-R1", "outside-NameServer:%s|storage-only-closed" % g.qualname.split("Pyro5.nameserver.")[-1], "code outside NameServer touches the name server's storage only to close it",
                        g.loc(n), "`%s` in %s uses the name server's storage directly, without NameServer.lock: it can run between the test and the action of a client's "
                        "register/remove/set_metadata (KeyError for the client, a removed name resurrected, a half-removed group visible)" % (unparse(getattr(par, "_parent", par) if par is not None else n, 70), g.qualname))
    if n_ext < 2:
        raise AnalysisError("nameserver.py: the storage.close() calls of the name server daemon vanished (%d)" % n_ext)

    # entries of the in-memory storage are replaced, never edited: NameServer.lookup/list hand the stored metadata set (or a copy made after the lock was released) to
    # the caller and the daemon serialises replies outside the lock, so a stored value must never change after it was stored
    mem = p.cls("Pyro5.nameserver.MemoryStorage")
    EDITS = {"clear", "update", "add", "discard", "remove", "pop", "append", "extend", "insert", "difference_update", "intersection_update", "symmetric_difference_update", "sort"}
    n_mem = 0
    for name, m in sorted(mem.methods.items()):
        n_mem += 1
        stored = set()     # locals that may hold a stored entry or a part of one
        changed = True
        while changed:
            changed = False
            for st, t, k in stores_in(m.node):
                if k not in ("assign", "for") or not hasattr(st, "value") and k == "assign":
                    continue
                src = st.value if k == "assign" else st.iter
                reads_map = any((isinstance(x, ast.Call) and isinstance(x.func, ast.Attribute) and x.func.attr in ("get", "items", "values", "__getitem__", "pop", "setdefault") and
                                 (unparse(x.func.value) == "self" or unparse(x.func.value).startswith("super("))) or
                                (isinstance(x, ast.Subscript) and unparse(x.value) == "self") or
                                (isinstance(x, ast.Name) and x.id in stored) for x in ast.walk(src))
                if reads_map:
                    for x in ast.walk(t):
                        if isinstance(x, ast.Name) and x.id not in stored:
                            stored.add(x.id)
                            changed = True
        bad = [x for x in walk_no_nested(m.node) if isinstance(x, ast.Call) and isinstance(x.func, ast.Attribute) and x.func.attr in EDITS and
               any(isinstance(y, ast.Name) and y.id in stored for y in ast.walk(x.func.value))]
        bad += [x for x in walk_no_nested(m.node) if isinstance(x, (ast.Assign, ast.AugAssign, ast.Delete)) and
                any(isinstance(t, ast.Subscript) and any(isinstance(y, ast.Name) and y.id in stored for y in ast.walk(t.value)) for t in (x.targets if hasattr(x, "targets") else [x.target]))]
        R.check(not bad, "C15-R1", "MemoryStorage.%s|entries-replaced-never-edited" % name, "a value read back from the map is never modified in place", m.loc(bad[0]) if bad else m.loc(),
                ("`%s` edits an entry that is already stored: a reader that got this object under the lock (lookup copies it, list/yplookup hand it out, the reply is serialised) "
                 "after releasing the lock sees it empty or half-filled - a state no order of the operations explains" % unparse(bad[0], 60)) if bad else "")
    if n_mem < 5:
        raise AnalysisError("MemoryStorage: fewer methods than expected (%d)" % n_mem)

    # the name server keeps no state of its own besides the storage and the lock: a field written by an operation (a cache of the last parsed uri, a counter) is shared by
    # all client threads and would need the lock as well - none exists today, so any such store is reported
    for name, m in sorted(methods.items()):
        sts = [st for st, t, k in stores_in(m.node) if isinstance(t, ast.Attribute) and isinstance(t.value, ast.Name) and t.value.id == m.self_name]
        unl = [st for st in sts if not any(dotted(it.context_expr) == LOCK for w in enclosing_withs(st) for it in w.items)]
        if sts:
            R.check(not unl, "C15-R2", "NameServer.%s|no-unlocked-state" % name, "fields of the name server object are written only under the lock", m.loc(unl[0]) if unl else m.loc(),
                    "`%s` in NameServer.%s writes shared state of the name server outside `with self.lock`: two concurrent operations interleave on it (a lookup can return the uri "
                    "another thread's lookup just parsed)" % (unparse(unl[0], 60) if unl else "", name))

    # ---------------------------------------------------------------- R2
    init = ns.methods.get("__init__")
    if init is None:
        raise AnalysisError("NameServer.__init__ vanished")
    made = [st for st, t, k in stores_in(init.node) if unparse(t) == LOCK and isinstance(st.value, ast.Call)]
    others = [st for g in methods.values() for st, t, k in stores_in(g.node) if unparse(t) == LOCK]
    kind = dotted(made[0].value.func) if made else None
    nested = False
    for name, m in methods.items():
        for n in walk_no_nested(m.node):
            if isinstance(n, ast.Call) and isinstance(n.func, ast.Attribute) and isinstance(n.func.value, ast.Name) and n.func.value.id == "self" \
                    and n.func.attr in taking_lock and in_lock_region(n, LOCK) is not None:
                nested = True
    ok = len(made) == 1 and not others and kind in ("threading.RLock", "threading.Lock") and (kind == "threading.RLock" or not nested)
    R.check(ok, "C15-R2", "NameServer.lock|created-once-reentrant", "self.lock is created once in __init__ and is re-entrant where methods nest", init.loc(),
            "lock is %s, created %d time(s), reassigned %d time(s); nested acquisition present: %s (a plain Lock would self-deadlock in remove -> list)"
            % (kind, len(made), len(others), nested))
    other_locks = []
    blocking = []
    for name, m in methods.items():
        for n in walk_no_nested(m.node):
            if isinstance(n, ast.With):
                for it in n.items:
                    d = dotted(it.context_expr)
                    if d and d != LOCK and ("lock" in d.lower()):
                        other_locks.append((m, n))
            if isinstance(n, ast.Call) and in_lock_region(n, LOCK) is not None:
                d = dotted(n.func)
                if d in BLOCKING or (isinstance(n.func, ast.Attribute) and n.func.attr in BLOCKING_ATTRS and "storage" not in unparse(n.func)):
                    blocking.append((m, n))
    R.check(not other_locks, "C15-R2", "NameServer|single-lock", "no other lock is used inside NameServer", ns.module.relpath,
            "storage is also guarded by another lock at %s" % (other_locks[0][0].loc(other_locks[0][1]) if other_locks else ""))
    R.check(not blocking, "C15-R2", "NameServer|no-blocking-under-lock", "no sleep/join/socket call inside a lock region", ns.module.relpath,
            "`%s` blocks while the name server lock is held" % (unparse(blocking[0][1]) if blocking else ""))

    # ---------------------------------------------------------------- R4
    cr = ctx.fn("Pyro5.nsc.handle_command.cmd_register")
    nscalls = [c for c in walk_no_nested(cr.node) if isinstance(c, ast.Call) and isinstance(c.func, ast.Attribute) and isinstance(c.func.value, ast.Name) and c.func.value.id == "namesrv"]
    regs = [c for c in nscalls if c.func.attr == "register"]
    ok = len(regs) == 1 and len(nscalls) == 1 and any(k.arg == "safe" and isinstance(k.value, ast.Constant) and k.value.value is True for k in regs[0].keywords)
    R.check(ok, "C15-R4", "nsc.cmd_register|one-safe-call", "`nsc register` makes exactly one name server call: register(name, uri, safe=True)", cr.loc(),
            "`nsc register` %s: two concurrent registrations of one name can both report success and the later silently replaces the earlier" % (
                "asks the name server something else first and then registers without safe=True (check-then-act across two remote calls)" if len(nscalls) > 1
                else "registers without safe=True"))

