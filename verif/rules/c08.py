"""C08 — Nothing is invoked on a connection before an accepted handshake."""
import ast
from ..engine.model import AnalysisError, dotted
from ..engine.context import unparse, enclosing_stmt, stores_in, names_in, enclosing_trys
from ..engine.cfg import walk_no_nested, calls_in, facts_of, no_exc, handler_is_catch_all
from .c03 import edge_has_fact

EXPLANATION = (
    "Typestate over the call graph. Decided: user-code dispatch is reachable only through Daemon.handleRequest; for network "
    "connections handleRequest is called only behind a handshake that returned true (thread server: request loop guarded by "
    "handleConnection(), which returns truthy only on the true edge of _handshake; multiplex: a connection is registered with "
    "the selector only if _handleConnection returned it, which happens only on the true edge of _handshake; the set of "
    "selector.register sites is frozen); _handshake accepts only MSG_CONNECT, returns true only for a CONNECTOK it really "
    "sent, stores CONNECTOK only after the denied-reason guard, the validator and the lookup of the requested object; silent "
    "failure only for ConnectionClosedError; the request receiver accepts exactly INVOKE and PING; the receive filter itself is sound; the "
    "client decodes the connect answer with the answer's serializer (so a refusal is readable). "
    "Also decided: the failure answer's serializer id is known to exist; the answer's header names the serializer that encoded it and the answer is sent; the validator runs before the requested object's metadata is touched; the multiplex server closes what it does not accept. "
    "Also decided (round 10): get_metadata's 'known' test speaks about the value this call looked up in the registry (a cache cannot answer for an unregistered id); _handshake returns once its answer is sent; a stalled CONNECT is reported as TimeoutError (it is owed a connect-failure; shared from C17). "
    'Also decided (round 9): No handler that catches an exception of the validator call leads on to CONNECTOK; a refused connection is closed without waiting for the peer. '
    "Not decided: bytes the peer observes, validators returning odd values."
)

HANDLE = "Pyro5.server.Daemon.handleRequest"
HANDSHAKE = "Pyro5.server.Daemon._handshake"


def call_fact(ctx, f, qualnames, want=True):
    def pred(atom, pol):
        return pol is want and isinstance(atom, ast.Call) and ctx.is_call_to(atom, f, qualnames)
    return pred


def is_falsy_const(v):
    return v is None or (isinstance(v, ast.Constant) and not v.value)


def run(ctx, R, tier):
    p = ctx.p
    es = ctx.escape
    R.rule("C08-R1", "who may call Daemon.handleRequest and the dispatch helpers (typed call graph; name-based in the thorough tier)", floor=8)
    R.rule("C08-R2", "thread server: the request loop is entered only on the true edge of handleConnection(); handleConnection returns truthy only "
                     "on the true edge of _handshake and closes the connection on every other path", floor=3)
    R.rule("C08-R3", "multiplex server: a client connection is registered with the selector only if _handleConnection returned it, which happens "
                     "only on the true edge of _handshake; selector.register sites are frozen", floor=5)
    R.rule("C08-R4", "_handshake: accepts only MSG_CONNECT; returns true only for the CONNECTOK it sent; CONNECTOK is stored only after the "
                     "denied-reason guard, the validator and the lookup of the requested object; silent failure only for ConnectionClosedError", floor=8)
    R.rule("C08-R5", "the request receiver accepts exactly [MSG_INVOKE, MSG_PING]; the type filter itself is sound (shared C03-R7); the client reads the connect answer with the answer's serializer", floor=3)

    # ---------------------------------------------------------------- R1
    allowed_handle = {
        "Pyro5.svr_threads.ClientConnectionJob.__call__": "behind handleConnection() (R2)",
        "Pyro5.svr_multiplex.SocketServer_Multiplex.handleRequest": "called by events() for selector-registered connections (R3)",
        "Pyro5.nameserver.NameServerDaemon.handleRequest": "super() delegation of the subclass",
        "Pyro5.svr_existingconn.SocketServer_ExistingConnection.handleRequest": "pre-connected socket pair: exempt in the property itself",
    }
    sites = ctx.cg.callers_of(HANDLE)
    if tier == "thorough":
        seen = {id(c) for _, c in sites}
        for g, c in ctx.cg.callers_by_name("handleRequest"):
            if id(c) not in seen:
                # self.handleRequest(...) of the transport servers themselves (typed to their own method) are not calls of the daemon's
                tg = ctx.cg.resolve_call(c, g)
                if tg and all(t.kind == "fn" and t.fn.qualname != HANDLE and not p.is_subclass(t.fn.cls.qualname if t.fn.cls else "", "Pyro5.server.Daemon")
                              for t in tg):
                    continue
                sites.append((g, c))
    if len(sites) < 3:
        raise AnalysisError("fewer call sites of Daemon.handleRequest than expected")
    for g, c in sites:
        R.check(g.qualname in allowed_handle, "C08-R1", "caller-of-handleRequest|%s" % g.qualname,
                "allowed caller (%s)" % allowed_handle.get(g.qualname, "-"), g.loc(c),
                "%s calls Daemon.handleRequest: requests would be dispatched on a path that has not passed the handshake" % g.qualname)
    helpers = {
        "Pyro5.server.Daemon._getInstance": {HANDLE},
        "Pyro5.server._get_attribute": {HANDLE},
        "Pyro5.server._get_exposed_property_value": {HANDLE},
        "Pyro5.server._set_exposed_property_value": {HANDLE},
    }
    for helper, allowed in helpers.items():
        ctx.fn(helper)
        hs = ctx.cg.callers_of(helper)
        if tier == "thorough":
            seen = {id(c) for _, c in hs}
            hs += [(g, c) for g, c in ctx.cg.callers_by_name(helper.rsplit(".", 1)[1]) if id(c) not in seen]
        if not hs:
            raise AnalysisError("dispatch helper %s has no call site" % helper)
        for g, c in hs:
            R.check(g.qualname in allowed, "C08-R1", "caller-of-%s|%s" % (helper.rsplit(".", 1)[1], g.qualname),
                    "dispatch helper is called from handleRequest only", g.loc(c),
                    "%s reaches user objects through %s without going through Daemon.handleRequest" % (g.qualname, helper))

    # ---------------------------------------------------------------- R2
    f = ctx.fn("Pyro5.svr_threads.ClientConnectionJob.__call__")
    cfg = ctx.cfg(f)
    hc = "Pyro5.svr_threads.ClientConnectionJob.handleConnection"
    for c in ctx.calls_to(f, HANDLE):
        for n in ctx.node_of(f, c):
            ok = cfg.guarded(n, lambda e: edge_has_fact(e, call_fact(ctx, f, hc)))
            R.check(ok, "C08-R2", "__call__|loop-guarded", "handleRequest is reachable only on the true edge of self.handleConnection()", f.loc(c),
                    "the request loop can be entered although the handshake failed or did not happen")
    g = ctx.fn(hc)
    gcfg = ctx.cfg(g)
    rets = [n for n in gcfg.nodes if n.kind == "stmt" and isinstance(n.ast, ast.Return)]
    truthy = [n for n in rets if not is_falsy_const(n.ast.value)]
    falsy = [n for n in rets if is_falsy_const(n.ast.value)]
    if not truthy:
        raise AnalysisError("handleConnection: no truthy return")
    ok = all(gcfg.guarded(n, lambda e: edge_has_fact(e, call_fact(ctx, g, HANDSHAKE))) for n in truthy)
    R.check(ok, "C08-R2", "handleConnection|truthy-only-after-handshake", "truthy returns lie on the true edge of daemon._handshake(csock)", g.loc(truthy[0].ast),
            "handleConnection can report success without a successful handshake")
    closes = [n for c in ctx.calls_to(g, "Pyro5.socketutil.SocketConnection.close") for n in ctx.node_of(g, c)]
    targets = falsy + [gcfg.exit]

    def not_truthy_path(e):
        return True
    ok = bool(closes) and gcfg.all_paths_pass([gcfg.entry], lambda n: n in closes or n in truthy, targets=targets)
    R.check(ok, "C08-R2", "handleConnection|close-on-failure", "every failing path closes the connection before returning", g.loc(),
            "a failed handshake leaves the connection open (what the peer sends next could still be read)")
    # ... and closes it at once: between the refused handshake and the close nothing waits for the peer (a read until it hangs up keeps the connection half open and
    # its worker blocked for as long as the refused peer likes)
    WAITS = {"recv", "recv_into", "recvfrom", "accept", "wait", "sleep", "select"}
    hs_nodes = [n for c in ctx.calls_to(g, HANDSHAKE) for n in ctx.node_of(g, c)]
    waiting = [n for n in gcfg.nodes for c in calls_in(n) if isinstance(c.func, ast.Attribute) and c.func.attr in WAITS and n not in hs_nodes]
    blocked = [w for w in waiting if gcfg.path_exists(hs_nodes, lambda n, w=w: n is w) and gcfg.path_exists([w], lambda n: n in closes or n in falsy)]
    R.check(not blocked, "C08-R2", "handleConnection|refusal-closes-without-waiting", "after a refused handshake the connection is closed without waiting for the peer", g.loc(blocked[0].ast) if blocked else g.loc(),
            "`%s` waits for the refused peer before the connection is closed: a peer that stays connected and silent keeps a refused connection open and a worker blocked"
            % (unparse(blocked[0].ast, 60) if blocked else ""))

    # the same inside _handshake: once the answer is sent it returns - it reads nothing more from a peer it has just refused, and waits for nothing
    hsf_ = ctx.fn(HANDSHAKE)
    hcfg2 = ctx.cfg(hsf_)
    sends = [n for n in hcfg2.nodes for c in calls_in(n) if isinstance(c.func, ast.Attribute) and c.func.attr == "send" and isinstance(c.func.value, ast.Name) and c.func.value.id == hsf_.params[1]]
    if not sends:
        R.note("_handshake sends no answer on this tree (C08-R4 reports that): nothing to check after the send")
    late = [n for n in hcfg2.nodes for c in calls_in(n) if isinstance(c.func, ast.Attribute) and c.func.attr in WAITS | {"recv_stub", "receive_data", "shutdown"}
            and hcfg2.path_exists(sends, lambda m, n=n: m is n)]
    R.check(not late, "C08-R2", "_handshake|returns-once-the-answer-is-sent", "after the handshake answer was sent _handshake neither reads from the peer nor waits", hsf_.loc(late[0].ast) if late else hsf_.loc(),
            "`%s` runs after the answer was sent: a refused peer that stays connected and silent (or keeps sending) holds the thread that handles it - on the multiplex server and on the "
            "thread-pool's accept thread that is the whole daemon" % (unparse(late[0].ast, 60) if late else ""))

    # ---------------------------------------------------------------- R3
    ev = ctx.fn("Pyro5.svr_multiplex.SocketServer_Multiplex.events")
    ecfg = ctx.cfg(ev)
    hcq = "Pyro5.svr_multiplex.SocketServer_Multiplex._handleConnection"
    regs_all = []
    mx = p.module("Pyro5.svr_multiplex")
    for fn in [x for x in p.functions.values() if x.module is mx]:
        for c, tgs in ctx.cg.calls_of(fn):
            if isinstance(c.func, ast.Attribute) and c.func.attr == "register" and "selector" in unparse(c.func.value):
                regs_all.append((fn, c))
    if len(regs_all) < 3:
        raise AnalysisError("svr_multiplex: fewer selector.register sites than expected (%d)" % len(regs_all))
    rd = ctx.rd(ev)
    for fn, c in regs_all:
        arg0 = unparse(c.args[0]) if c.args else "?"
        key = "register|%s|%s" % (fn.qualname.rsplit(".", 1)[1], arg0)
        if fn.name == "init" and arg0 == "self.sock":
            R.ok("C08-R3", key, "server socket registration", fn.loc(c))
        elif fn.name == "combine_loop":
            R.ok("C08-R3", key, "combine_loop: sockets of another daemon's server, which registered them under the same rule", fn.loc(c))
        elif fn is ev and isinstance(c.args[0], ast.Name):
            nm = c.args[0].id
            ok = True
            why = ""
            for n in ctx.node_of(ev, c):
                defs = rd.reaching(n, nm)
                if not defs or not all(d.kind == "assign" and isinstance(d.value, ast.Call) and ctx.is_call_to(d.value, ev, hcq) for d in defs):
                    ok = False
                    why = "the registered object is not the value returned by _handleConnection"

                def truthy_fact(atom, pol, nm=nm):
                    if pol is True and isinstance(atom, ast.Name) and atom.id == nm:
                        return True
                    if isinstance(atom, ast.Compare) and len(atom.ops) == 1 and isinstance(atom.left, ast.Name) and atom.left.id == nm and \
                            isinstance(atom.comparators[0], ast.Constant) and atom.comparators[0].value is None:
                        return (isinstance(atom.ops[0], ast.IsNot) and pol is True) or (isinstance(atom.ops[0], ast.Is) and pol is False)
                    return False
                if ok and not ecfg.guarded(n, lambda e: edge_has_fact(e, truthy_fact)):
                    ok = False
                    why = "the connection is registered even when _handleConnection returned nothing (handshake failed)"
            R.check(ok, "C08-R3", key, "client connection registered only if _handleConnection returned it", fn.loc(c), why)
        else:
            R.fail("C08-R3", key, "known selector.register site", fn.loc(c),
                   "new selector.register site: a socket registered here is served by handleRequest without the handshake rule applying")
    hcf = ctx.fn(hcq)
    hcfg = ctx.cfg(hcf)
    rets = [n for n in hcfg.nodes if n.kind == "stmt" and isinstance(n.ast, ast.Return)]
    truthy = [n for n in rets if not is_falsy_const(n.ast.value)]
    if not truthy:
        raise AnalysisError("_handleConnection: no truthy return")
    ok = all(hcfg.guarded(n, lambda e: edge_has_fact(e, call_fact(ctx, hcf, HANDSHAKE))) for n in truthy)
    R.check(ok, "C08-R3", "_handleConnection|conn-only-after-handshake", "a connection is returned only on the true edge of daemon._handshake(conn)",
            hcf.loc(truthy[0].ast), "_handleConnection can return a connection whose handshake failed")
    # a connection whose handshake was refused or failed is closed before _handleConnection returns (what the peer sends next is never read)
    hs_nodes = [n for c in ctx.calls_to(hcf, HANDSHAKE) for n in ctx.node_of(hcf, c)]
    closers = [n for n in hcfg.nodes for c in calls_in(n) if isinstance(c.func, ast.Attribute) and c.func.attr == "close"]
    ok = bool(hs_nodes) and bool(closers) and hcfg.all_paths_pass(hs_nodes, lambda n: n in closers or n in truthy, targets=[hcfg.exit])
    R.check(ok, "C08-R3", "_handleConnection|closed-unless-accepted", "after the handshake every path either returns the accepted connection or closes the socket", hcf.loc(),
            "a refused or failed handshake can leave the socket open: the multiplex server no longer reads it, but the peer is never disconnected")
    for c in ctx.calls_to(ev, "Pyro5.svr_multiplex.SocketServer_Multiplex.handleRequest"):
        a0 = c.args[0] if c.args else None
        ok = isinstance(a0, ast.Name) and any(d.kind == "for" for n in ctx.node_of(ev, c) for d in rd.reaching(n, a0.id)) and \
            all(d.kind == "for" and unparse(d.value) == ev.params[1] for n in ctx.node_of(ev, c) for d in rd.reaching(n, a0.id))
        R.check(ok, "C08-R3", "events|handleRequest-arg", "handleRequest is called only for sockets delivered by the selector (the events argument)", ev.loc(c),
                "events() dispatches a request on an object that did not come from the selector's ready list")

    # ---------------------------------------------------------------- R4
    f = ctx.fn(HANDSHAKE)
    cfg = ctx.cfg(f)
    recv = ctx.calls_to(f, "Pyro5.protocol.recv_stub")
    if len(recv) != 1:
        raise AnalysisError("_handshake: expected one recv_stub call")
    arg = recv[0].args[1] if len(recv[0].args) > 1 else None
    ok = isinstance(arg, (ast.List, ast.Tuple)) and len(arg.elts) == 1 and ctx.resolves_to_object(arg.elts[0], f, "Pyro5.protocol.MSG_CONNECT")
    R.check(ok, "C08-R4", "_handshake|accepts-only-CONNECT", "the handshake accepts exactly [MSG_CONNECT]", f.loc(recv[0]),
            "the handshake accepts other message types as first message: `%s`" % (unparse(arg) if arg is not None else None))
    ok_stores = []
    fail_stores = []
    for st, t, k in stores_in(f.node):
        if k == "assign" and isinstance(t, ast.Name) and isinstance(st.value, (ast.Attribute, ast.Name)):
            if ctx.resolves_to_object(st.value, f, "Pyro5.protocol.MSG_CONNECTOK"):
                ok_stores.append((st, t.id))
            elif ctx.resolves_to_object(st.value, f, "Pyro5.protocol.MSG_CONNECTFAIL"):
                fail_stores.append((st, t.id))
    R.check(len(ok_stores) == 1, "C08-R4", "_handshake|one-CONNECTOK-store", "exactly one place marks the handshake as accepted", f.loc(),
            "%d stores of MSG_CONNECTOK" % len(ok_stores))
    if ok_stores:
        st, tvar = ok_stores[0]
        oks = cfg.nodes_for(st)
        param = "denied_reason" if "denied_reason" in f.params else None

        def not_denied(atom, pol):
            return pol is False and isinstance(atom, ast.Name) and atom.id == param
        ok = param is not None and all(cfg.guarded(n, lambda e: edge_has_fact(e, not_denied)) for n in oks)
        R.check(ok, "C08-R4", "_handshake|denied-guard", "CONNECTOK is stored only when no denied_reason was given", f.loc(st),
                "a connection that was to be denied (e.g. no free workers) can be accepted")
        for qn, what in (("Pyro5.server.Daemon.validateHandshake", "validator"), ("Pyro5.server.DaemonObject.get_metadata", "object-lookup")):
            from ..engine.context import conditional_in_stmt
            calls = [c for c in ctx.calls_to(f, qn) if not conditional_in_stmt(c)]
            cn = [n for c in calls for n in ctx.node_of(f, c)]
            ok = bool(cn) and all(any(cfg.dominates(x, n) for x in cn) for n in oks)
            R.check(ok, "C08-R4", "_handshake|%s-dominates-OK" % what, "the %s call dominates the CONNECTOK store" % what, f.loc(st),
                    "the handshake can be accepted without the %s having run (and raised) — e.g. the call sits in a conditional expression or behind a peer-controlled test" % what)
        # ... and an exception of the validator is a refusal: no handler that can catch it (an inner `except KeyError:` around the call, say) leads on to the
        # CONNECTOK store - the validator's own KeyError / whatever it raises must end in the connect failure
        vcalls = [c for c in ctx.calls_to(f, "Pyro5.server.Daemon.validateHandshake")]
        vn = [n for c in vcalls for n in ctx.node_of(f, c)]
        swallowed = None
        for x in vn:
            for e in x.succ:
                if e.kind == "exc" and (e.dst in oks or cfg.path_exists([e.dst], lambda n: n in oks)):
                    swallowed = e.dst
        R.check(bool(vn) and swallowed is None, "C08-R4", "_handshake|validator-exception-is-a-refusal", "no handler that catches an exception of validateHandshake() continues to the CONNECTOK store",
                f.loc(swallowed.ast) if swallowed is not None and getattr(swallowed, "ast", None) is not None else f.loc(),
                "an exception raised by (or while calling) the handshake validator is caught by a handler from which the handshake is still accepted: a validator that refuses by raising "
                "that class, or a CONNECT that makes the call itself fail, is answered with CONNECTOK")
        rets = [n for n in cfg.nodes if n.kind == "stmt" and isinstance(n.ast, ast.Return)]
        for i, n in enumerate(sorted(rets, key=lambda n: n.lineno)):
            v = n.ast.value
            if is_falsy_const(v):
                R.ok("C08-R4", "_handshake|return#%d" % i, "returns False", f.loc(n.ast))
                continue
            good = False
            if isinstance(v, ast.Compare) and len(v.ops) == 1 and isinstance(v.ops[0], ast.Eq):
                sides = [v.left, v.comparators[0]]
                if any(ctx.resolves_to_object(s, f, "Pyro5.protocol.MSG_CONNECTOK") for s in sides):
                    other = [s for s in sides if not ctx.resolves_to_object(s, f, "Pyro5.protocol.MSG_CONNECTOK")][0]
                    # the type of the message that was sent:  <sendingmsg>.type  or the msgtype variable
                    if isinstance(other, ast.Attribute) and other.attr == "type" and isinstance(other.value, ast.Name):
                        rd = ctx.rd(f)
                        defs = rd.reaching(n, other.value.id)
                        good = bool(defs) and all(d.kind == "assign" and isinstance(d.value, ast.Call) and
                                                  ctx.is_call_to(d.value, f, "Pyro5.protocol.SendingMessage.__init__") and
                                                  d.value.args and unparse(d.value.args[0]) == tvar for d in defs)
                    elif isinstance(other, ast.Name) and other.id == tvar:
                        good = True
            R.check(good, "C08-R4", "_handshake|return#%d" % i, "returns whether the message actually sent was CONNECTOK", f.loc(n.ast),
                    "`%s` can report an accepted handshake that was not answered with CONNECTOK" % unparse(n.ast))
        get_meta = ctx.fn("Pyro5.server.DaemonObject.get_metadata")
        mcfg = ctx.cfg(get_meta)
        mrets = [n for n in mcfg.nodes if n.kind == "stmt" and isinstance(n.ast, ast.Return) and not is_falsy_const(n.ast.value)]

        # the variable that holds what the registry lookup of THIS call returned
        looked_up = {t.id for st2, t, k2 in stores_in(get_meta.node) if k2 == "assign" and isinstance(t, ast.Name) and "objectsById" in unparse(st2.value, 200)}

        def obj_known(atom, pol):
            if isinstance(atom, ast.Compare) and len(atom.ops) == 1 and isinstance(atom.comparators[0], ast.Constant) and atom.comparators[0].value is None \
                    and isinstance(atom.left, ast.Name) and atom.left.id in looked_up:
                return (isinstance(atom.ops[0], ast.IsNot) and pol is True) or (isinstance(atom.ops[0], ast.Is) and pol is False)
            return False
        ok = bool(mrets) and all(mcfg.guarded(n, lambda e: edge_has_fact(e, obj_known)) for n in mrets) and \
            mcfg.guarded(mcfg.exit, lambda e: edge_has_fact(e, obj_known))
        R.check(ok, "C08-R4", "get_metadata|unknown-object-raises", "get_metadata returns only for a known object and raises otherwise", get_meta.loc(),
                "get_metadata can return normally for an unknown object id: the handshake for it would be accepted")
    # handlers
    trys = [t for t, part in enclosing_trys(recv[0], f.node) if part == "body"]
    if not trys:
        raise AnalysisError("_handshake: the receive is not inside a try")
    T = trys[0]
    catch_all = [h for h in T.handlers if handler_is_catch_all(h)]
    R.check(bool(catch_all), "C08-R4", "_handshake|catch-all", "every failure of the handshake body is caught", f.loc(T),
            "an exception of the validator or the lookup can leave _handshake without a CONNECTFAIL answer")
    if catch_all:
        H = catch_all[0]
        ok = any(_inside(st, H) for st, _ in fail_stores)
        R.check(ok, "C08-R4", "_handshake|failure-stores-CONNECTFAIL", "the catch-all handler marks the answer as CONNECTFAIL", f.loc(H),
                "the failure handler does not set MSG_CONNECTFAIL")
        uses_exc = H.name and any(isinstance(n, ast.Name) and n.id == H.name for st in H.body for n in walk_no_nested(st))
        R.check(bool(uses_exc), "C08-R4", "_handshake|failure-carries-reason", "the CONNECTFAIL payload is derived from the exception", f.loc(H),
                "the connect-failure no longer carries the reason")
        # the failure answer is encoded with serializers_by_id[<var>]: that lookup must not be able to fail, i.e. <var> holds either the built-in default
        # or an id whose lookup already succeeded
        lookups = [n for st in H.body for n in walk_no_nested(st) if isinstance(n, ast.Subscript) and unparse(n.value).endswith("serializers_by_id")
                   and isinstance(n.slice, ast.Name)]
        idvar = lookups[0].slice.id if lookups else None
        cfg_h = ctx.cfg(f)
        bad_def = None
        for st, t, k in stores_in(f.node):
            if idvar is None:
                break       # the handler looks nothing up: nothing in it can fail that way (the header/encoder agreement below still applies)
            if not (isinstance(t, ast.Name) and t.id == idvar and k == "assign"):
                continue
            okc, _v = ctx.const(st.value, f)
            root = st.value
            while isinstance(root, ast.Attribute):
                root = root.value
            if okc or (isinstance(root, ast.Name) and not ctx.cg.is_local(f, root.id) and root.id not in f.params):
                continue      # the built-in default id (a constant or a class attribute of the serializers module, nothing taken from the message)
            src = unparse(st.value)
            proved = [x for x in walk_no_nested(f.node) if isinstance(x, ast.Subscript) and unparse(x.value).endswith("serializers_by_id") and unparse(x.slice) == src]
            dom = any(cfg_h.dominates(a, b) and a is not b for x in proved for a in cfg_h.nodes_for(enclosing_stmt(x)) for b in cfg_h.nodes_for(st))
            if not dom:
                bad_def = st
        R.check(bad_def is None, "C08-R4", "_handshake|failure-answer-serializer-known", "the serializer id used for the failure answer is the default or one whose lookup succeeded",
                f.loc(bad_def) if bad_def is not None else f.loc(H),
                "`%s` adopts the peer's serializer id before it has been looked up: with an unknown id the failure handler's own lookup raises KeyError and the "
                "peer gets no connect-failure at all" % (unparse(bad_def) if bad_def is not None else ""))
    cfg_h0 = ctx.cfg(f)
    # the validator decides first: nothing of the daemon's objects (metadata of the requested object) is touched before it has accepted the peer
    vcalls_ = [c for c, _ in ctx.cg.calls_of(f) if isinstance(c.func, ast.Attribute) and c.func.attr == "validateHandshake"]
    mcalls_ = [c for c, _ in ctx.cg.calls_of(f) if isinstance(c.func, ast.Attribute) and c.func.attr == "get_metadata"]
    okv = len(vcalls_) == 1 and len(mcalls_) >= 1
    if okv:
        vst, vn = enclosing_stmt(vcalls_[0]), ctx.node_of(f, vcalls_[0])
        for mc in mcalls_:
            mst = enclosing_stmt(mc)
            if mst is vst:
                # same statement: evaluation order inside an expression - the validator call must come first in source order
                okv = okv and (vcalls_[0].lineno, vcalls_[0].col_offset) < (mc.lineno, mc.col_offset) and not any(
                    isinstance(a, ast.Dict) for a in ast.walk(mst) if isinstance(a, ast.Dict) and any(x is mc for v_ in a.values for x in ast.walk(v_))
                    and any(x is vcalls_[0] for v_ in a.values for x in ast.walk(v_)) and
                    [i for i, v_ in enumerate(a.values) if any(x is mc for x in ast.walk(v_))][0] < [i for i, v_ in enumerate(a.values) if any(x is vcalls_[0] for x in ast.walk(v_))][0])
            else:
                okv = okv and all(any(cfg_h0.dominates(a, b) for a in vn) for b in ctx.node_of(f, mc))
    R.check(okv, "C08-R4", "_handshake|validator-before-metadata", "validateHandshake runs (and may refuse) before the requested object's metadata is looked up", f.loc(vcalls_[0]) if vcalls_ else f.loc(),
            "get_metadata (a method of the registered daemon object, which inspects the requested class) runs before the validator has accepted the peer; a refused peer is also told "
            "'unknown object' instead of the validator's reason")
    # the answer's header names the serializer that encoded its payload; and the answer is really sent
    sm = ctx.calls_to(f, "Pyro5.protocol.SendingMessage.__init__")
    cfg_f = ctx.cfg(f)
    if len(sm) == 1 and len(sm[0].args) >= 5 and isinstance(sm[0].args[3], ast.Name) and isinstance(sm[0].args[4], ast.Name):
        hid, pay = sm[0].args[3].id, sm[0].args[4].id
        bad = None
        for st, t, k in stores_in(f.node):
            if k == "assign" and isinstance(t, ast.Name) and t.id == pay and isinstance(st.value, ast.Call) and isinstance(st.value.func, ast.Attribute) \
                    and st.value.func.attr == "dumps" and isinstance(st.value.func.value, ast.Name):
                serv = st.value.func.value.id
                for n in cfg_f.nodes_for(st):
                    for d in ctx.rd(f).reaching(n, serv):
                        key = d.value.slice if d.value is not None and isinstance(d.value, ast.Subscript) else None
                        if key is None:
                            bad = st
                            continue
                        if isinstance(key, ast.Name) and key.id == hid:
                            continue
                        # serializer looked up under another expression: the header variable must hold that same expression here
                        hdefs = ctx.rd(f).reaching(n, hid)
                        if not (hdefs and all(dd.value is not None and unparse(dd.value) == unparse(key) for dd in hdefs)):
                            bad = st
        R.check(bad is None, "C08-R4", "_handshake|header-names-the-encoding-serializer", "whenever the answer payload is encoded, the header's serializer id is that serializer's id",
                f.loc(bad) if bad is not None else f.loc(sm[0]),
                "`%s` encodes the answer with a serializer whose id is not what the header will carry: the peer decodes the connect answer with the wrong serializer" % (
                    unparse(bad, 60) if bad is not None else ""))
        sends = [n for c in ctx.calls_to(f, "Pyro5.socketutil.SocketConnection.send") for n in ctx.node_of(f, c)]
        smn = ctx.node_of(f, sm[0])
        ok = bool(sends) and cfg_f.all_paths_pass(smn, lambda n: n in sends, edge_ok=lambda e: e.kind != "exc", targets=[cfg_f.exit])
        R.check(ok, "C08-R4", "_handshake|answer-is-sent", "once the answer message is built, every normal path sends it before returning", f.loc(sm[0]),
                "the connect answer is built but not sent on some path: the peer waits for a reply that never comes")
    else:
        raise AnalysisError("_handshake: the single SendingMessage(msgtype, 0, seq, serializer_id, data, ...) construction vanished")
    for h in T.handlers:
        if handler_is_catch_all(h):
            continue
        classes = [es.class_of_expr(t, f) for t in (h.type.elts if isinstance(h.type, ast.Tuple) else [h.type])]
        silent = any(isinstance(n, ast.Return) for st in h.body for n in walk_no_nested(st))
        ok = (not silent) or all(c and es.is_sub(c, "Pyro5.errors.ConnectionClosedError") for c in classes)
        R.check(ok, "C08-R4", "_handshake|silent-only-if-closed:%s" % ",".join(str(c).rsplit(".", 1)[-1] for c in classes),
                "only a closed connection fails the handshake silently", f.loc(h),
                "errors of class %s end the handshake without a CONNECTFAIL answer although the peer is still connected" % classes)

    # ---------------------------------------------------------------- R5
    from ..report import Rules
    from ..report import run_shared as _run_shared
    from . import c03
    R3 = Rules("C03")
    try:
        _run_shared(ctx, c03, R3, tier)
    except AnalysisError as _shared_x:
        # the other property's own anchors are gone on this tree: its check reports that; what it produced before is still shared
        R.note("obligations shared from C03 are incomplete on this tree: %s" % _shared_x)
    from . import c17
    R17 = Rules("C17")
    try:
        _run_shared(ctx, c17, R17, tier)
    except AnalysisError as _shared_x:
        # the other property's own anchors are gone on this tree: its check reports that; what it produced before is still shared
        R.note("obligations shared from C17 are incomplete on this tree: %s" % _shared_x)
    for o in R17.obs:
        if o.rule == "C17-R2" and o.key.split("|")[1] == "receive_data" and o.key.endswith(":TimeoutError"):
            # _handshake answers every failure with a connect-failure EXCEPT ConnectionClosedError ("the peer is gone, nobody to answer"): a read that reports a stalled -
            # but still connected - peer as a closed connection makes the daemon drop it without the reason the property promises
            R.add("C08-R5", "receive_data|" + o.key.split("|", 2)[2], o.desc + " (a peer whose CONNECT stalls is still connected: it is owed the connect-failure, which _handshake "
                  "sends for TimeoutError and not for ConnectionClosedError)", o.ok, o.loc, o.detail)
        if o.key == "C17-R1|receive_data|short-read-decided-by-length":
            R.add("C08-R5", "receive_data|short-read-decided-by-length", o.desc + " (a CONNECT with an empty payload must be answered with a connect-failure, not dropped as a closed connection)",
                  o.ok, o.loc, o.detail)
    for o in R3.obs:
        if o.key == "C03-R7|recv_stub|prefix-read-and-validated-first":
            R.add("C08-R5", "recv_stub|prefix-read-and-validated-first", o.desc + " (a first message that is not a Pyro message is refused at once)", o.ok, o.loc, o.detail)
        if o.key == "C03-R7|recv_stub|filter-before-body":
            R.add("C08-R5", "recv_stub|filter-before-body", o.desc + " (the handshake's [MSG_CONNECT] restriction is enforced there)", o.ok, o.loc, o.detail)
    cah = ctx.fn("Pyro5.client.Proxy.__pyroCreateConnection.connect_and_handshake")
    crd = ctx.rd(cah)
    lds = [c for c, _ in ctx.cg.calls_of(cah) if isinstance(c.func, ast.Attribute) and c.func.attr == "loads" and isinstance(c.func.value, ast.Name)]
    okl = bool(lds)
    for c in lds:
        for n in ctx.node_of(cah, c):
            defs = crd.reaching(n, c.func.value.id)
            if not (defs and all(d.kind == "assign" and d.value is not None and "serializers_by_id" in unparse(d.value) and "serializer_id" in unparse(d.value) for d in defs)):
                okl = False
    R.check(okl, "C08-R5", "client|handshake-reply-decoded-by-reply-serializer", "the client decodes the connect answer with the serializer named in that answer", cah.loc(),
            "the connect answer is decoded with the proxy's own serializer: a connect-failure (always sent with the daemon's default serializer when the CONNECT could not be read or "
            "was refused early) cannot be decoded, so the peer does not see the reason")
    h = ctx.fn(HANDLE)
    rc = ctx.calls_to(h, "Pyro5.protocol.recv_stub")
    if len(rc) != 1:
        raise AnalysisError("handleRequest: expected one recv_stub call")
    arg = rc[0].args[1] if len(rc[0].args) > 1 else None
    ok = isinstance(arg, (ast.List, ast.Tuple)) and len(arg.elts) == 2 and \
        {True} == {any(ctx.resolves_to_object(e, h, q) for q in ("Pyro5.protocol.MSG_INVOKE", "Pyro5.protocol.MSG_PING")) for e in arg.elts} and \
        not ctx.resolves_to_object(arg.elts[0], h, dotted_of(ctx, arg.elts[1], h))
    R.check(ok, "C08-R5", "handleRequest|accepts-INVOKE-PING", "handleRequest accepts exactly [MSG_INVOKE, MSG_PING]", h.loc(rc[0]),
            "the request receiver accepts `%s`" % (unparse(arg) if arg is not None else None))


def dotted_of(ctx, expr, f):
    d = dotted(expr)
    r = ctx.p.resolve_dotted(f.module, d, f) if d else None
    return r[1] if r else "?"


def _inside(node, container):
    n = node
    while n is not None:
        if n is container:
            return True
        n = getattr(n, "_parent", None)
    return False
