"""C12 — Per-call context never leaks between calls or clients."""
import ast
from ..engine.model import AnalysisError, dotted
from ..engine.context import unparse, enclosing_stmt, stores_in, names_in
from ..engine.cfg import walk_no_nested, calls_in, stmt_exprs

EXPLANATION = (
    "Decided: the thread-local context is a threading.local; in Daemon.handleRequest and Daemon._handshake a store of a fresh "
    "dict into current_context.response_annotations dominates every reader of that field and every site that runs user code; "
    "every other context field is stored from the request on all paths before any dispatch site; the oneway snapshot saves and "
    "restores every field (taken in the parent thread, restored before the target runs); error replies build their own "
    "annotation dict; the client assigns the reply's annotations unconditionally after the sequence check on every path to a "
    "reply-carrying exit; every received message owns a fresh annotations dict."
    "Also decided: context stores count only when left normally (edge-based must-pass); the request's correlation id is adopted exactly on the flag edge; the client clears the response annotations before sending. "
    "Also decided (round 10): No client-side code (compatibility layer included) edits the caller's annotations dict in place. "
    "Also decided (round 7): What the annotations() hook returns is only read (never mutated, returned or kept); the calling thread's own request-annotation dict is only read by the client call path. "
    "Not decided: what a method observes under real interleavings (thread-locality is the interpreter's)."
)

CTX = "Pyro5.callcontext.current_context"
DISPATCH_CALLEES = {
    "Pyro5.server.Daemon._getInstance", "Pyro5.server._get_exposed_property_value", "Pyro5.server._set_exposed_property_value",
    "Pyro5.server._OnewayCallThread.__init__",
}


def ctx_field(expr, ctx, f):
    """current_context.<field> -> field name"""
    if isinstance(expr, ast.Attribute) and ctx.resolves_to_object(expr.value, f, CTX):
        return expr.attr
    return None


def is_fresh_dict(v):
    if isinstance(v, ast.Dict) and not v.keys:
        return True
    if isinstance(v, ast.Call) and isinstance(v.func, ast.Name) and v.func.id == "dict" and not v.args and not v.keywords:
        return True
    return False


def field_stores(ctx, f, field):
    """[(stmt, value)] of `current_context.<field> = value` in f"""
    out = []
    for st, target, kind in stores_in(f.node):
        if kind == "assign" and ctx_field(target, ctx, f) == field:
            out.append((st, st.value))
    return out


def user_code_nodes(ctx, f):
    """CFG nodes of f that may run user code: calls whose escape set has a dyn/hook/next origin, plus the dispatch helpers"""
    es = ctx.escape
    cfg = ctx.cfg(f)
    out = []
    for n in cfg.nodes:
        for c in calls_in(n):
            hit = None
            if ctx.is_call_to(c, f, DISPATCH_CALLEES):
                hit = unparse(c.func)
            else:
                esc = es.call(c, {"f": f, "record": False, "caught": None, "vars": {}})
                for (cls, origin) in esc:
                    if origin.startswith(("dyn@", "hook@", "next@")):
                        hit = unparse(c.func) + " [" + origin + "]"
                        break
            if hit:
                out.append((n, c, hit))
    return out


def readers_of_field(ctx, field):
    """package functions that read current_context.<field>"""
    out = set()
    for g in ctx.p.functions.values():
        if g.module.name == "Pyro5.callcontext":
            continue
        for n in walk_no_nested(g.node):
            if isinstance(n, ast.Attribute) and isinstance(n.ctx, ast.Load) and n.attr == field and ctx.resolves_to_object(n.value, g, CTX):
                out.add(g.qualname)
    return out


def run(ctx, R, tier):
    p = ctx.p
    R.rule("C12-R0", "the call context object is an instance of a threading.local subclass", floor=1)
    R.rule("C12-R1", "handleRequest/_handshake: a store of a fresh dict into current_context.response_annotations dominates every "
                     "reader of that field and every site that may run user code", floor=8)
    R.rule("C12-R2", "handleRequest: every context field is stored from the request on all paths from the receive to any dispatch site", floor=7)
    R.rule("C12-R3", "oneway snapshot: from_global restores every field of __init__; snapshot taken in the constructor, restored in run() before the target", floor=3)
    R.rule("C12-R4", "_sendExceptionResponse builds its own annotation dict (fresh copy) before merging and sending; what the annotations() hook returns is only read", floor=3)
    R.rule("C12-R6", "every received message owns a fresh annotations dict (the client hands it to the context as response annotations)", floor=2)
    R.rule("C12-R5", "client: the reply's annotations are assigned unconditionally, after the sequence check, on every path to a reply-carrying exit", floor=3)

    # ---------------------------------------------------------------- R0
    cc = p.cls("Pyro5.callcontext._CallContext")
    R.check("threading.local" in p.external_bases(cc), "C12-R0", "_CallContext|threading.local", "_CallContext derives from threading.local",
            cc.module.relpath + ":%d" % cc.node.lineno, "the context class is no longer thread-local")
    m = p.module("Pyro5.callcontext")
    v = m.constants.get("current_context")
    ok = isinstance(v, ast.Call) and dotted(v.func) == "_CallContext"
    if not ok:
        raise AnalysisError("anchor vanished: Pyro5.callcontext.current_context = _CallContext()")
    init = p.fn("Pyro5.callcontext._CallContext.__init__")
    fields = []
    for st, target, kind in stores_in(init.node):
        if kind == "assign" and isinstance(target, ast.Attribute) and isinstance(target.value, ast.Name) and target.value.id == "self":
            fields.append(target.attr)
    if "response_annotations" not in fields or len(fields) < 8:
        raise AnalysisError("_CallContext.__init__ no longer initialises the known fields: %s" % fields)

    # ---------------------------------------------------------------- R1
    readers = readers_of_field(ctx, "response_annotations")
    for qn in ("Pyro5.server.Daemon.handleRequest", "Pyro5.server.Daemon._handshake"):
        f = ctx.fn(qn)
        cfg = ctx.cfg(f)
        stores = field_stores(ctx, f, "response_annotations")
        fresh_nodes = []
        for st, val in stores:
            if is_fresh_dict(val):
                fresh_nodes += cfg.nodes_for(st)
            else:
                R.fail("C12-R1", "%s|non-fresh-store" % qn, "response_annotations is assigned a value that is not a fresh dict", f.loc(st),
                       "`%s` may alias a dict shared between requests" % unparse(st))
        consumers = []
        for n in cfg.nodes:
            for c in calls_in(n):
                if ctx.is_call_to(c, f, readers):
                    consumers.append((n, c, "reader " + unparse(c.func)))
        consumers += user_code_nodes(ctx, f)
        if len(consumers) < 3:
            raise AnalysisError("%s: fewer reader/user-code sites than expected (%d)" % (qn, len(consumers)))
        seen = set()
        for n, c, what in consumers:
            key = "%s|%s" % (qn, what.split(" [")[0])
            k2 = key
            i = 2
            while k2 in seen:
                k2 = "%s#%d" % (key, i)
                i += 1
            seen.add(k2)
            if n.id not in cfg.live():
                continue
            ok = any(cfg.dominates(s, n) and s is not n for s in fresh_nodes)
            R.check(ok, "C12-R1", k2, "dominated by a fresh-dict store of response_annotations", f.loc(c),
                    "%s can be reached without first resetting current_context.response_annotations: annotations left by an earlier "
                    "request on this thread are sent with this reply" % what)

    # ---------------------------------------------------------------- R2
    f = ctx.fn("Pyro5.server.Daemon.handleRequest")
    cfg = ctx.cfg(f)
    recv_calls = ctx.calls_to(f, "Pyro5.protocol.recv_stub")
    if len(recv_calls) != 1:
        raise AnalysisError("handleRequest: expected exactly one recv_stub call")
    recv_nodes = ctx.node_of(f, recv_calls[0])
    recv_stmt = enclosing_stmt(recv_calls[0])
    msgvar = recv_stmt.targets[0].id if isinstance(recv_stmt, ast.Assign) and isinstance(recv_stmt.targets[0], ast.Name) else None
    if msgvar is None:
        raise AnalysisError("handleRequest: the received message is not bound to a local name")
    conn_param = f.params[1] if len(f.params) > 1 else None
    dispatch = [n for n, c, what in user_code_nodes(ctx, f)
                if ctx.is_call_to(c, f, DISPATCH_CALLEES) or "dyn@Pyro5.server.Daemon.handleRequest:" in what]
    # the methodcall_error_handler runs after the method: not a dispatch site
    dispatch = [n for n in dispatch if not any("methodcall_error_handler" in unparse(c.func) for c in calls_in(n))]
    if len(dispatch) < 5:
        raise AnalysisError("handleRequest: fewer dispatch sites than the five request kinds (%d)" % len(dispatch))
    for field in fields:
        if field == "response_annotations":
            continue
        stores = field_stores(ctx, f, field)
        snodes = []
        derived = False
        for st, val in stores:
            snodes += cfg.nodes_for(st)
            nm = names_in(val)
            if msgvar in nm or (conn_param and conn_param in nm):
                derived = True
        # a store counts only when it is left normally (a store whose right-hand side raised has not happened)
        ok = bool(snodes) and cfg.all_paths_cross(recv_nodes, lambda e: e.src in snodes and e.kind != "exc", targets=dispatch)
        why = "a dispatch site is reachable from the receive without storing current_context.%s: the method would see the value of an earlier request" % field
        if ok and not derived:
            ok = False
            why = "current_context.%s is never assigned from the received message or the connection" % field
        R.check(ok, "C12-R2", "handleRequest|%s" % field, "context field %s filled from the request before any dispatch" % field,
                f.loc(stores[0][0]) if stores else f.loc(), why)

    # correlation id: the id sent with the request is adopted exactly when the request carries one (flag), otherwise a fresh one is made
    from .c03 import flag_fact, edge_has_fact
    for qn in ("Pyro5.server.Daemon.handleRequest", "Pyro5.server.Daemon._handshake"):
        g = ctx.fn(qn)
        gcfg = ctx.cfg(g)
        cstores = field_stores(ctx, g, "correlation_id")
        from_req = [st for st, val in cstores if any(isinstance(x, ast.Attribute) and x.attr == "corr_id" for x in ast.walk(val))]
        fresh = [st for st, val in cstores if st not in from_req]

        def has_id(want):
            def pred(atom, pol):
                return pol is want and flag_fact(ctx, g, atom, "Pyro5.protocol.FLAGS_CORR_ID")
            return pred
        ok = len(from_req) == 1 and all(n.id in gcfg.live() and gcfg.guarded(n, lambda e: edge_has_fact(e, has_id(True))) for n in gcfg.nodes_for(from_req[0]))
        okf = bool(fresh) and all(gcfg.guarded(n, lambda e: edge_has_fact(e, has_id(False))) for st in fresh for n in gcfg.nodes_for(st))
        R.check(ok and okf, "C12-R2", "%s|correlation_id-adopted-iff-flagged" % g.name, "the request's correlation id is stored on the FLAGS_CORR_ID edge, a fresh one only on the other edge",
                g.loc(from_req[0]) if from_req else g.loc(),
                "the correlation id of the request is %s: the method would run under an id that is not the caller's" % (
                    "not adopted on the FLAGS_CORR_ID edge (dead or unguarded store)" if not ok else "overwritten by a fresh id although the request carried one"))

    # ---------------------------------------------------------------- R3
    fg = p.fn("Pyro5.callcontext._CallContext.from_global")
    restored = set()
    for st, target, kind in stores_in(fg.node):
        if kind == "assign" and isinstance(target, ast.Attribute) and isinstance(target.value, ast.Name) and target.value.id == "self":
            v = st.value
            if isinstance(v, ast.Subscript) and isinstance(v.slice, ast.Constant) and v.slice.value == target.attr:
                restored.add(target.attr)
            elif isinstance(v, ast.Call) and isinstance(v.func, ast.Attribute) and v.func.attr == "get" and v.args and \
                    isinstance(v.args[0], ast.Constant) and v.args[0].value == target.attr:
                restored.add(target.attr)
    # generic restore forms: self.__dict__.update(values) / loops over values
    generic = any(isinstance(n, ast.Call) and unparse(n.func) in ("self.__dict__.update", "vars(self).update") for n in walk_no_nested(fg.node))
    missing = [x for x in fields if x not in restored] if not generic else []
    R.check(not missing, "C12-R3", "from_global|fields", "from_global restores every field initialised by __init__ from the key of the same name",
            fg.loc(), "fields not restored (or restored from a different key): %s" % missing)
    tg = p.fn("Pyro5.callcontext._CallContext.to_global")
    rets = [n for n in walk_no_nested(tg.node) if isinstance(n, ast.Return)]
    ok = len(rets) == 1 and unparse(rets[0].value) in ("dict(self.__dict__)", "dict(vars(self))", "self.__dict__.copy()", "vars(self).copy()")
    R.check(ok, "C12-R3", "to_global|all-fields", "to_global snapshots the whole instance dict (a copy)", tg.loc(),
            "to_global no longer returns a copy of all fields: `%s`" % (unparse(rets[0].value) if rets else "no return"))
    oi = p.fn("Pyro5.server._OnewayCallThread.__init__")
    orun = p.fn("Pyro5.server._OnewayCallThread.run")
    snap_attr = None
    for st, target, kind in stores_in(oi.node):
        if kind == "assign" and isinstance(target, ast.Attribute) and isinstance(st.value, ast.Call) and \
                ctx.is_call_to(st.value, oi, "Pyro5.callcontext._CallContext.to_global"):
            snap_attr = target.attr
    R.check(snap_attr is not None, "C12-R3", "_OnewayCallThread.__init__|snapshot", "the context snapshot is taken in the constructor (parent thread)",
            oi.loc(), "no `self.<attr> = current_context.to_global()` in _OnewayCallThread.__init__: the snapshot would be taken in the new thread")
    cfg_r = ctx.cfg(orun)
    restore = [c for c in ctx.calls_to(orun, "Pyro5.callcontext._CallContext.from_global")
               if c.args and unparse(c.args[0]) == "self.%s" % snap_attr]
    target_calls = [n for n in walk_no_nested(orun.node) if isinstance(n, ast.Call) and isinstance(n.func, ast.Attribute)
                    and n.func.attr in ("run", "_methodcall", "pyro_method") and n not in restore]
    ok = bool(restore) and bool(target_calls)
    if ok:
        rn = ctx.node_of(orun, restore[0])
        for tc in target_calls:
            for tn in ctx.node_of(orun, tc):
                if not any(cfg_r.dominates(r, tn) and r is not tn for r in rn):
                    ok = False
    R.check(ok, "C12-R3", "_OnewayCallThread.run|restore-first", "run() restores the snapshot before the target method runs", orun.loc(),
            "the oneway thread runs the method before (or without) current_context.from_global(self.%s)" % snap_attr)

    # ---------------------------------------------------------------- R4
    f = ctx.fn("Pyro5.server.Daemon._sendExceptionResponse")
    cfg = ctx.cfg(f)
    rd = ctx.rd(f)
    sm = ctx.calls_to(f, "Pyro5.protocol.SendingMessage.__init__")
    if len(sm) != 1:
        raise AnalysisError("_sendExceptionResponse: expected one SendingMessage construction")
    kw = [k for k in sm[0].keywords if k.arg == "annotations"]
    arg = kw[0].value if kw else (sm[0].args[5] if len(sm[0].args) > 5 else None)
    ok = False
    why = "the reply's annotations argument is not a local name"
    if isinstance(arg, ast.Name):
        node = ctx.node_of(f, sm[0])[0]
        defs = rd.reaching(node, arg.id)
        why = "annotations passed to the error reply may be the caller's (or the context's) dict object itself"
        ok = bool(defs) and all(d.kind == "assign" and d.value is not None and
                                ((isinstance(d.value, ast.Call) and isinstance(d.value.func, ast.Name) and d.value.func.id == "dict")
                                 or isinstance(d.value, ast.Dict)) for d in defs)
        reads_ctx = any(isinstance(n, ast.Attribute) and n.attr == "response_annotations" for n in walk_no_nested(f.node))
        if reads_ctx:
            ok = False
            why = "_sendExceptionResponse reads current_context.response_annotations"
    R.check(ok, "C12-R4", "_sendExceptionResponse|own-dict", "error replies carry a dict built inside the function", f.loc(sm[0]), why)

    # the annotations() hook is the application's: what it returns may be one dict object kept by the application and returned every time. The daemon reads it
    # (merges it INTO a dict of its own); it never writes into it, returns it as the reply's annotations or keeps it - per-call values merged into the hook's dict
    # would stay there and go out with every later reply to every client
    MUTATORS = {"update", "setdefault", "pop", "popitem", "clear", "__setitem__", "__delitem__"}
    n_hook = 0
    for g in [x for x in p.functions.values() if x.module.name == "Pyro5.server" and not isinstance(x.node, ast.Lambda)]:
        hook_calls = [c for c in ctx.calls_to(g, "Pyro5.server.Daemon.annotations")]
        for c in hook_calls:
            n_hook += 1
            st = enclosing_stmt(c)
            bad = None
            par = getattr(c, "_parent", None)
            if isinstance(st, ast.Assign) and st.value is c:
                holders = [t.id for t in st.targets if isinstance(t, ast.Name)]
                if len(holders) != len(st.targets):
                    bad = "is stored into `%s`" % unparse(st.targets[0])
                for nm in holders:
                    for x in walk_no_nested(g.node):
                        if isinstance(x, ast.Call) and isinstance(x.func, ast.Attribute) and x.func.attr in MUTATORS and isinstance(x.func.value, ast.Name) and x.func.value.id == nm:
                            bad = "is modified in place (`%s`)" % unparse(x)
                        elif isinstance(x, (ast.Assign, ast.AugAssign, ast.Delete)) and any(isinstance(t, ast.Subscript) and isinstance(t.value, ast.Name) and t.value.id == nm
                                                                                             for t in (x.targets if hasattr(x, "targets") else [x.target])):
                            bad = "is modified in place (`%s`)" % unparse(x)
                        elif isinstance(x, ast.Return) and isinstance(x.value, ast.Name) and x.value.id == nm:
                            bad = "is handed on as the reply's annotations (`%s`)" % unparse(x)
                        elif isinstance(x, ast.Assign) and isinstance(x.value, ast.Name) and x.value.id == nm and any(not isinstance(t, ast.Name) for t in x.targets):
                            bad = "is kept (`%s`)" % unparse(x)
            elif isinstance(par, ast.Attribute) and par.value is c and par.attr in MUTATORS:
                bad = "is modified in place (`%s`)" % unparse(getattr(par, "_parent", par))
            elif isinstance(st, ast.Return) and st.value is c:
                bad = "is handed on as the reply's annotations"
            R.check(bad is None, "C12-R4", "%s|hook-result-read-only#%d" % (g.name, hook_calls.index(c)), "what the annotations() hook returns is merged into the daemon's own dict, never written to, returned or kept",
                    g.loc(c), "the dict returned by the application's annotations() hook %s: with a hook that returns one long-lived dict, a response annotation set during one call "
                    "goes out with every later reply and handshake answer, to every client" % bad)
    if n_hook < 2:
        raise AnalysisError("server.py: fewer call sites of the annotations() hook than expected (%d)" % n_hook)

    # ---------------------------------------------------------------- R6
    for fq in ("Pyro5.protocol.ReceivingMessage.__init__", "Pyro5.protocol.ReceivingMessage.add_payload"):
        g = ctx.fn(fq)
        sts = [st for st, t, k in stores_in(g.node) if k == "assign" and unparse(t) == "self.annotations"]
        R.check(bool(sts) and all(is_fresh_dict(st.value) for st in sts), "C12-R6", "%s|fresh-annotations" % fq.split(".", 2)[2], "every received message gets its own annotations dict", g.loc(),
                "`%s`: messages share one dict object, so annotations written for one reply/request show up in others" % ("; ".join(unparse(st) for st in sts if not is_fresh_dict(st.value)) or "?"))

    # ---------------------------------------------------------------- R5
    f = ctx.fn("Pyro5.client.Proxy._pyroInvoke")
    cfg = ctx.cfg(f)
    # the calling thread's request annotations (current_context.annotations) belong to the caller: the call path reads them and sends them, it never writes into that
    # dict - neither directly nor by handing it to a helper that stores into its parameter (what one call adds would be sent with every later call of the thread)
    rdf = ctx.rd(f)
    WRITES = {"update", "setdefault", "pop", "popitem", "clear", "__setitem__", "__delitem__"}

    def writes_param(g, idx):
        """does package function g store into / mutate its parameter number idx (counted without self)?"""
        ps = [x for x in g.params if x != g.self_name]
        if idx >= len(ps):
            return None
        nm = ps[idx]
        for x in walk_no_nested(g.node):
            if isinstance(x, (ast.Assign, ast.AugAssign, ast.Delete)):
                for t in (x.targets if hasattr(x, "targets") else [x.target]):
                    if isinstance(t, ast.Subscript) and isinstance(t.value, ast.Name) and t.value.id == nm:
                        return x
            if isinstance(x, ast.Call) and isinstance(x.func, ast.Attribute) and x.func.attr in WRITES and isinstance(x.func.value, ast.Name) and x.func.value.id == nm:
                return x
        return None

    def is_callers_dict(node, name):
        defs = rdf.reaching(node, name)
        return any(d.kind == "assign" and d.value is not None and isinstance(d.value, ast.Attribute) and d.value.attr == "annotations" and "current_context" in unparse(d.value.value) for d in defs)
    bad = None
    for n in cfg.nodes:
        for e_ in stmt_exprs(n):
            for x in walk_no_nested(e_):
                if isinstance(x, ast.Call):
                    if isinstance(x.func, ast.Attribute) and x.func.attr in WRITES and isinstance(x.func.value, ast.Name) and is_callers_dict(n, x.func.value.id):
                        bad = (x, "modifies it (`%s`)" % unparse(x, 60))
                    for t in ctx.cg.resolve_call(x, f):
                        if t.kind != "fn":
                            continue
                        for i, a in enumerate(x.args):
                            if isinstance(a, ast.Name) and is_callers_dict(n, a.id):
                                w = writes_param(t.fn, i)
                                if w is not None:
                                    bad = (x, "hands it to %s, which writes into it (`%s`)" % (t.fn.qualname.split(".", 2)[2], unparse(w, 60)))
        if n.kind == "stmt" and isinstance(n.ast, (ast.Assign, ast.AugAssign, ast.Delete)):
            for t in (n.ast.targets if hasattr(n.ast, "targets") else [n.ast.target]):
                if isinstance(t, ast.Subscript) and isinstance(t.value, ast.Name) and is_callers_dict(n, t.value.id):
                    bad = (n.ast, "modifies it (`%s`)" % unparse(n.ast, 60))
    R.check(bad is None, "C12-R5", "_pyroInvoke|callers-annotations-read-only", "the calling thread's current_context.annotations dict is only read by the call path", f.loc(bad[0]) if bad else f.loc(),
            ("_pyroInvoke takes the thread's own request-annotation dict and %s: what this call adds stays in the caller's context and is sent with every later call of that thread, "
             "to any object on any server" % bad[1]) if bad else "")
    # ... and nobody else on the client side writes into it either (a Proxy subclass of the compatibility layer, a tool): request annotations a proxy wants to add
    # for its own calls belong in a copy
    offenders = []
    for g in p.functions.values():
        if isinstance(g.node, ast.Lambda) or g.module.name in ("Pyro5.server", "Pyro5.callcontext"):
            continue
        for x in walk_no_nested(g.node):
            tgt = None
            if isinstance(x, ast.Call) and isinstance(x.func, ast.Attribute) and x.func.attr in WRITES:
                tgt = x.func.value
            elif isinstance(x, (ast.Assign, ast.AugAssign, ast.Delete)):
                for t in (x.targets if hasattr(x, "targets") else [x.target]):
                    if isinstance(t, ast.Subscript):
                        tgt = t.value
            if tgt is not None and isinstance(tgt, ast.Attribute) and tgt.attr == "annotations" and "current_context" in unparse(tgt.value):
                offenders.append((g, x))
    R.check(not offenders, "C12-R5", "client-side|callers-annotations-never-edited-in-place", "no client-side code edits current_context.annotations in place", offenders[0][0].loc(offenders[0][1]) if offenders else "Pyro5/",
            ("`%s` in %s writes into the calling thread's request annotations: what one proxy adds for its own call is sent with every later call of the thread, through any proxy, to any "
             "server (and a server method that makes such a nested call afterwards reads annotations its own request never had)" % (unparse(offenders[0][1], 70), offenders[0][0].qualname)) if offenders else "")
    recv_calls = ctx.calls_to(f, "Pyro5.protocol.recv_stub")
    if len(recv_calls) != 1:
        raise AnalysisError("_pyroInvoke: expected exactly one recv_stub call")
    recv_stmt = enclosing_stmt(recv_calls[0])
    msgvar = recv_stmt.targets[0].id if isinstance(recv_stmt, ast.Assign) and isinstance(recv_stmt.targets[0], ast.Name) else None
    recv_nodes = ctx.node_of(f, recv_calls[0])
    seq_calls = ctx.calls_to(f, "Pyro5.client.Proxy.__pyroCheckSequence")
    if msgvar is None or not seq_calls:
        raise AnalysisError("_pyroInvoke: receive / sequence-check anchors vanished")
    seq_nodes = [n for c in seq_calls for n in ctx.node_of(f, c)]
    stores = field_stores(ctx, f, "response_annotations")
    reply_stores = [(st, v) for st, v in stores if msgvar in names_in(v)]
    R.check(bool(reply_stores), "C12-R5", "_pyroInvoke|store-exists", "the reply's annotations are stored into the context", f.loc(),
            "no `current_context.response_annotations = <reply>.annotations`")
    rs_nodes = [n for st, v in reply_stores for n in cfg.nodes_for(st)]
    ok = bool(rs_nodes) and all(any(cfg.dominates(s, n) for s in seq_nodes) for n in rs_nodes)
    R.check(ok, "C12-R5", "_pyroInvoke|after-sequence-check", "the store is dominated by the sequence check", f.loc(reply_stores[0][0]) if reply_stores else f.loc(),
            "annotations of a reply are exposed before its sequence number was checked")
    # a call that gets no reply (oneway) must not leave the previous call's annotations visible: fresh dict before anything is sent
    sends = [n for c in ctx.calls_to(f, "Pyro5.socketutil.SocketConnection.send") for n in ctx.node_of(f, c)]
    resets = [n for st, v in stores if is_fresh_dict(v) for n in cfg.nodes_for(st)]
    ok = bool(sends) and bool(resets) and all(any(cfg.dominates(r, sn) for r in resets) for sn in sends)
    R.check(ok, "C12-R5", "_pyroInvoke|reset-before-send", "a fresh response_annotations dict is stored before the request is sent", f.loc(),
            "the request is sent without first clearing current_context.response_annotations: after a oneway call (no reply) the caller still sees the annotations of the previous call's reply")
    exits = []
    live = cfg.live()
    after_recv = cfg.reachable(recv_nodes)
    for n in cfg.nodes:
        if n.id not in after_recv or n.kind != "stmt" or n in recv_nodes:
            continue
        st = n.ast
        if isinstance(st, ast.Return) and st.value is not None and not (isinstance(st.value, ast.Constant) and st.value.value is None):
            exits.append(n)
        elif isinstance(st, ast.Raise) and isinstance(st.exc, ast.Name):
            exits.append(n)
    if len(exits) < 3:
        raise AnalysisError("_pyroInvoke: fewer reply-carrying exits than expected (%d)" % len(exits))
    ok = bool(rs_nodes) and cfg.all_paths_pass(recv_nodes, lambda n: n in rs_nodes, targets=exits)
    R.check(ok, "C12-R5", "_pyroInvoke|unconditional", "every path from the receive to a reply-carrying exit passes the store", f.loc(),
            "a reply-carrying exit is reachable without assigning that reply's annotations: the caller sees the annotations of "
            "the handshake answer or of an earlier reply")
