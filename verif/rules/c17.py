"""C17 — Socket reads and writes are exact under fragmentation and transient errors (length guards and error classification)."""
import ast
from ..engine.model import AnalysisError, dotted, fold
from ..engine.context import unparse, enclosing_stmt, stores_in, names_in, enclosing_loops, enclosing_trys
from ..engine.cfg import walk_no_nested, calls_in, facts_of, no_exc
from .c03 import edge_has_fact

EXPLANATION = (
    "Thin by nature (stated as such). Decided: in receive_data every return of a buffer lies on the edge where that buffer's "
    "length equals the requested size; each recv inside the accumulate loop asks for at most the bytes still missing; the bytes "
    "received and the counter advance together, an empty chunk leaves the loop; the short-read error carries the partial data; "
    "in both loops socket.timeout becomes Pyro's TimeoutError and socket.error becomes ConnectionClosedError unless the errno "
    "is in ERRNO_RETRIES, in which case the loop continues; in send_data the unsent remainder is sliced off right after a "
    "successful send, by the count that send returned, and the loop runs while data remains; ERRNO_RETRIES contains only the "
    "retryable errno family; the library's own errors are not OSErrors; SocketConnection.recv/send delegate exactly."
    'Also decided: every ConnectionClosedError of receive_data carries partialData; the buffer is created once; a short MSG_WAITALL read is handed over to the manual loop and not repeated; no fall-through; sendall is not retried; errno is read without indexing args; only ConnectionClosedError handlers read partialData. '
    'Also decided (round 7): The read that passes recv flags is guarded by a test of the socket it reads from. '
    'Also decided (round 8): The retry table (also when computed from errno names) contains all four transient errnos. '
    'Also decided (round 10): The back-off generator never ends. '
    'Also decided (round 9): Timeouts are set with settimeout() only (no SO_RCVTIMEO/SO_SNDTIMEO). '
    'Also decided (round 11): After a short MSG_WAITALL read the counter is the length of that chunk; SocketConnection.recv/send let the exception of the exact read/write through unchanged (partialData travels on it). '
    "Not decided: exact bytes/order under scripts of partial reads, timing, MSG_WAITALL semantics."
)

RETRYABLE = {"EINTR", "EAGAIN", "EWOULDBLOCK", "EINPROGRESS", "WSAEINTR", "WSAEWOULDBLOCK", "WSAEINPROGRESS"}


def run(ctx, R, tier):
    p = ctx.p
    es = ctx.escape
    R.rule("C17-R1", "receive_data: every buffer return is guarded by len(buffer) == size; each recv in the accumulate loop asks for no more than what is missing", floor=3)
    R.rule("C17-R2", "error classification: socket.timeout -> TimeoutError; socket.error -> ConnectionClosedError unless errno in ERRNO_RETRIES (then retry); short read stores partialData; the library's own errors are not OSErrors", floor=10)
    R.rule("C17-R3", "accumulate/advance pairing in the receive loop; slice-after-send by the returned count in the send loop", floor=4)
    R.rule("C17-R5", "SocketConnection.recv/send delegate exactly to receive_data/send_data", floor=2)
    R.rule("C17-R4", "ERRNO_RETRIES contains only retryable errno constants, and all four transient ones", floor=2)

    rx = ctx.fn("Pyro5.socketutil.receive_data")
    tx = ctx.fn("Pyro5.socketutil.send_data")
    rcfg, tcfg = ctx.cfg(rx), ctx.cfg(tx)
    sizep = rx.params[1]

    # ---------------------------------------------------------------- R1
    rets = [n for n in rcfg.nodes if n.kind == "stmt" and isinstance(n.ast, ast.Return) and n.ast.value is not None]
    if len(rets) < 2:
        raise AnalysisError("receive_data: fewer buffer returns than expected")
    for n in rets:
        var = unparse(n.ast.value)

        def complete(atom, pol, var=var):
            if isinstance(atom, ast.Compare) and len(atom.ops) == 1 and isinstance(atom.left, ast.Call) and unparse(atom.left.func) == "len" and \
                    unparse(atom.left.args[0]) == var and unparse(atom.comparators[0]) == sizep:
                return (isinstance(atom.ops[0], ast.Eq) and pol is True) or (isinstance(atom.ops[0], ast.NotEq) and pol is False)
            return False
        ok = rcfg.guarded(n, lambda e: edge_has_fact(e, complete))
        R.check(ok, "C17-R1", "receive_data|return:%s" % var, "returned only on the edge where len(%s) == %s" % (var, sizep), rx.loc(n.ast),
                "`%s` can be returned although its length was not established to equal the requested size (short or surplus data)" % var)
    retn = [n for n in rcfg.nodes if n.kind == "stmt" and isinstance(n.ast, ast.Return) and n.ast.value is not None]
    ok = rcfg.all_paths_pass([rcfg.entry], lambda n: n in retn, targets=[rcfg.exit])
    R.check(ok, "C17-R1", "receive_data|no-fall-through", "the function ends only by returning a checked buffer or by raising (it cannot run off its end and return None)", rx.loc(),
            "some path leaves receive_data without a return statement: the caller gets None instead of the requested bytes")
    # "not enough data" is decided by comparing lengths with the requested size, never by an empty chunk alone (a read of 0 bytes is complete when nothing arrived)
    def incomplete(atom, pol):
        if isinstance(atom, ast.Compare) and len(atom.ops) == 1 and isinstance(atom.left, ast.Call) and unparse(atom.left.func) == "len" and unparse(atom.comparators[0]) == sizep:
            return (isinstance(atom.ops[0], ast.Eq) and pol is False) or (isinstance(atom.ops[0], ast.NotEq) and pol is True) or (isinstance(atom.ops[0], ast.Lt) and pol is True)
        return False
    short_raises = [n for n in rcfg.nodes if n.kind == "stmt" and isinstance(n.ast, ast.Raise) and n.ast.exc is not None
                    and not any(part == "handler" for t, part in enclosing_trys(n.ast, rx.node))]
    ok = bool(short_raises) and all(rcfg.guarded(n, lambda e: edge_has_fact(e, incomplete)) for n in short_raises)
    R.check(ok, "C17-R1", "receive_data|short-read-decided-by-length", "outside the error handlers an error is raised only after a length comparison with the requested size found the data incomplete",
            rx.loc(short_raises[0].ast) if short_raises else rx.loc(),
            "an error is raised for a chunk without comparing lengths with the requested size (e.g. on any empty chunk): a legitimate read of 0 bytes - a message with an empty payload - fails "
            "as if the peer had closed")
    recvs = [c for c, _ in ctx.cg.calls_of(rx) if isinstance(c.func, ast.Attribute) and c.func.attr == "recv"]
    loop_recvs = [c for c in recvs if any(isinstance(l, ast.While) and isinstance(l.test, ast.Compare) for l in enclosing_loops(c, rx.node))]
    if len(loop_recvs) != 1:
        raise AnalysisError("receive_data: the recv inside the `while msglen < size` loop vanished")
    lr = loop_recvs[0]
    inner = [l for l in enclosing_loops(lr, rx.node) if isinstance(l, ast.While) and isinstance(l.test, ast.Compare)][0]
    counter = unparse(inner.test.left)
    arg = lr.args[0] if lr.args else None
    remaining = False
    if arg is not None:
        cand = [arg]
        rrd = ctx.rd(rx)
        if isinstance(arg, ast.Name):
            cand = [d.value for n in ctx.node_of(rx, lr) for d in rrd.reaching(n, arg.id) if d.value is not None]
            # the definition must be inside the loop (recomputed for every recv)
            if not all(inner in enclosing_loops(enclosing_stmt(v), rx.node) for v in cand):
                cand = []
        remaining = bool(cand) and all(any(isinstance(x, ast.BinOp) and isinstance(x.op, ast.Sub) and unparse(x.left) == sizep and unparse(x.right) == counter
                                           for x in ast.walk(v)) for v in cand)
    R.check(remaining, "C17-R1", "receive_data|recv-asks-at-most-missing", "each recv in the loop asks for at most size - %s bytes, recomputed every time" % counter, rx.loc(lr),
            "the receive loop asks for `%s` bytes, not for (at most) the bytes still missing: a later recv can swallow bytes of the next message and the "
            "function returns more than %s bytes" % (unparse(arg) if arg is not None else "?", sizep))

    bufs = {unparse(c.func.value) for c, _ in ctx.cg.calls_of(rx) if isinstance(c.func, ast.Attribute) and c.func.attr == "extend"}
    binit = [st for st, t, k in stores_in(rx.node) if isinstance(t, ast.Name) and t.id in bufs]
    in_loop = [st for st in binit if any(any(isinstance(x, ast.Call) and isinstance(x.func, ast.Attribute) and x.func.attr == "recv" for x in ast.walk(l))
                                         for l in enclosing_loops(st, rx.node))]
    R.check(len(bufs) == 1 and bool(binit) and not in_loop, "C17-R1", "receive_data|buffer-initialised-once",
            "the accumulation buffer is created once, outside the receive/retry loops", rx.loc(binit[0]) if binit else rx.loc(),
            "the accumulation buffer is (re)initialised inside a loop that receives: after a retryable error the fragments gathered so far are dropped and the function "
            "reads past the end of the message" if in_loop else "no single accumulation buffer found")

    # ---------------------------------------------------------------- R2
    n_h = 0
    for f, cfg in ((rx, rcfg), (tx, tcfg)):
        for t in [x for x in walk_no_nested(f.node) if isinstance(x, ast.Try)]:
            for h in t.handlers:
                classes = [es.class_of_expr(x, f) for x in (h.type.elts if isinstance(h.type, ast.Tuple) else [h.type])] if h.type is not None else []
                key = "%s|handler@%s:%s" % (f.name, _where(h, f), ",".join(str(c).rsplit(".", 1)[-1] for c in classes))
                if classes == ["builtins.TimeoutError"]:
                    n_h += 1
                    rs = [st for st in h.body if isinstance(st, ast.Raise)]
                    ok = len(h.body) == 1 and rs and isinstance(rs[0].exc, ast.Call) and es.class_of_expr(rs[0].exc.func, f) == "Pyro5.errors.TimeoutError"
                    R.check(ok, "C17-R2", key, "socket.timeout is turned into Pyro's TimeoutError", f.loc(h), "a socket timeout is not reported as Pyro5.errors.TimeoutError")
                elif classes == ["builtins.OSError"]:
                    n_h += 1
                    rs = [n for st in h.body for n in walk_no_nested(st) if isinstance(n, ast.Raise)]
                    okc = bool(rs) and all(_raised_class(ctx, f, cfg, r) == "Pyro5.errors.ConnectionClosedError" for r in rs)
                    retry_loop = [l for l in enclosing_loops(t, f.node)]
                    if retry_loop:
                        def fatal(atom, pol):
                            return pol is True and isinstance(atom, ast.Compare) and len(atom.ops) == 1 and isinstance(atom.ops[0], ast.NotIn) and \
                                unparse(atom.comparators[0]) == "ERRNO_RETRIES"
                        okg = all(cfg.guarded(x, lambda e: edge_has_fact(e, fatal)) for r in rs for x in cfg.nodes_for(r))
                        # the retry path continues the loop (falls out of the handler)
                        falls = not isinstance(h.body[-1], (ast.Raise, ast.Return, ast.Break))
                        errno_src = any(isinstance(n, ast.Call) and isinstance(n.func, ast.Name) and n.func.id == "getattr" and len(n.args) >= 2 and
                                        isinstance(n.args[1], ast.Constant) and n.args[1].value == "errno" for st in h.body for n in walk_no_nested(st))
                        R.check(okc and okg and falls and errno_src, "C17-R2", key, "fatal socket errors raise ConnectionClosedError, errnos in ERRNO_RETRIES retry", f.loc(h),
                                "socket errors are not classified by `err not in ERRNO_RETRIES` (every error retried, or retryable ones treated as fatal)")
                    else:
                        R.check(okc and isinstance(h.body[-1], ast.Raise), "C17-R2", key, "a socket error of the blocking send raises ConnectionClosedError", f.loc(h),
                                "a socket error is swallowed")
    if n_h < 7:
        raise AnalysisError("socketutil: fewer socket.timeout/socket.error handlers than expected (%d)" % n_h)
    # classifying the error must not itself fail: the errno is read without indexing the exception's args (an OSError() without arguments has none)
    for f in (rx, tx):
        bad = [x for t in walk_no_nested(f.node) if isinstance(t, ast.Try) for h in t.handlers if h.name for st in h.body for x in walk_no_nested(st)
               if isinstance(x, ast.Subscript) and isinstance(x.value, ast.Attribute) and x.value.attr == "args" and isinstance(x.value.value, ast.Name) and x.value.value.id == h.name]
        R.check(not bad, "C17-R2", "%s|errno-read-cannot-fail" % f.name, "no socket.error handler indexes the exception's args", f.loc(bad[0]) if bad else f.loc(),
                "`%s` is evaluated in the handler (also as the eager default of getattr): for an OSError without arguments the handler raises IndexError instead of "
                "ConnectionClosedError" % (unparse(bad[0]) if bad else ""))
    # every ConnectionClosedError raised by receive_data carries the bytes received so far
    buffers = {unparse(c.func.value) for c, _ in ctx.cg.calls_of(rx) if isinstance(c.func, ast.Attribute) and c.func.attr == "extend"}
    cc_raises = []
    seen_r = set()
    for n in rcfg.nodes:
        if n.kind == "stmt" and isinstance(n.ast, ast.Raise) and n.ast.exc is not None and id(n.ast) not in seen_r \
                and _raised_class(ctx, rx, rcfg, n.ast) == "Pyro5.errors.ConnectionClosedError":
            seen_r.add(id(n.ast))
            cc_raises.append(n.ast)
    if len(cc_raises) < 3:
        raise AnalysisError("receive_data: fewer ConnectionClosedError raise sites than expected (%d)" % len(cc_raises))
    allr = [x for x in walk_no_nested(rx.node) if isinstance(x, ast.Raise)]
    for r in cc_raises:
        hs = [h for t, part in enclosing_trys(r, rx.node) if part == "handler" for h in t.handlers if any(x is r for st in h.body for x in walk_no_nested(st))]
        where = _where(hs[0], rx) if hs else "short-read"
        ok = False
        if isinstance(r.exc, ast.Name):
            var = r.exc.id
            for x in rcfg.nodes_for(r):
                pst = [(st, y) for st, t, k in stores_in(rx.node) if isinstance(t, ast.Attribute) and t.attr == "partialData" and unparse(t.value) == var
                       and isinstance(st.value, ast.Name) and st.value.id in buffers for y in rcfg.nodes_for(st)]
                defs = ctx.rd(rx).reaching(x, var)
                if pst and defs and all(any(rcfg.dominates(y, x) and d.node is not None and rcfg.dominates(d.node, y) for st, y in pst) for d in defs):
                    ok = True
        R.check(ok, "C17-R2", "receive_data|partialData@%s" % where, "the ConnectionClosedError raised here carries the bytes received so far (partialData = the accumulation buffer)",
                rx.loc(r), "this ConnectionClosedError is raised without partialData: the bytes already received are lost to the caller")
    for cq in ("Pyro5.errors.ConnectionClosedError", "Pyro5.errors.TimeoutError", "Pyro5.errors.CommunicationError"):
        p.cls(cq)
        R.check(not es.is_sub(cq, "builtins.OSError"), "C17-R2", "hierarchy|%s-not-OSError" % cq.rsplit(".", 1)[1],
                "the library's own %s is not an OSError, so the loops' socket.error handlers cannot intercept it" % cq.rsplit(".", 1)[1], "Pyro5/errors.py",
                "%s derives from OSError: the short-read error raised inside the receive loop is caught by that loop's `except socket.error` and replaced by a fresh error "
                "without partialData (and classified by errno)" % cq)

    # ---------------------------------------------------------------- R3
    ext = [c for c, _ in ctx.cg.calls_of(rx) if isinstance(c.func, ast.Attribute) and c.func.attr == "extend" and inner in enclosing_loops(c, rx.node)]
    adv = [st for st, t, k in stores_in(rx.node) if k == "aug" and unparse(t) == counter and inner in enclosing_loops(st, rx.node)]
    ok = len(ext) == 1 and len(adv) == 1
    why = "%d extend / %d counter updates in the loop" % (len(ext), len(adv))
    if ok:
        es_, as_ = enclosing_stmt(ext[0]), adv[0]
        same_block = getattr(es_, "_parent", None) is getattr(as_, "_parent", None)
        chunk = unparse(ext[0].args[0]) if ext[0].args else None
        ok = same_block and isinstance(as_.value, ast.Call) and unparse(as_.value.func) == "len" and unparse(as_.value.args[0]) == chunk and isinstance(as_.op, ast.Add)
        why = "the buffer grows by `%s` but the counter by `%s` (or in different branches)" % (chunk, unparse(as_.value))
    R.check(ok, "C17-R3", "receive_data|accumulate-and-advance", "the chunk is appended and counted in the same block", rx.loc(inner), why)
    # hand-over from the MSG_WAITALL attempt: a short first read is appended and counted before the manual loop continues
    fast = [c for c in recvs if c is not lr]
    if fast:
        fnodes = [x for c in fast for x in ctx.node_of(rx, c)]
        lnodes = ctx.node_of(rx, lr)
        bufname = sorted(bufs)[0] if bufs else None
        ext_f = [x for c, _ in ctx.cg.calls_of(rx) if isinstance(c.func, ast.Attribute) and c.func.attr == "extend" and unparse(c.func.value) == bufname
                 and inner not in enclosing_loops(c, rx.node) for x in ctx.node_of(rx, c)]
        cnt_f = [x for st, t, k in stores_in(rx.node) if k == "assign" and unparse(t) == counter and isinstance(st.value, ast.Call) and unparse(st.value.func) == "len"
                 and inner not in enclosing_loops(st, rx.node) for x in rcfg.nodes_for(st)]
        noexc = lambda e: e.kind != "exc"
        ok_e = bool(ext_f) and rcfg.all_paths_pass(fnodes, lambda n: n in ext_f or n in fnodes, edge_ok=noexc, targets=lnodes)
        ok_c = bool(cnt_f) and rcfg.all_paths_pass(fnodes, lambda n: n in cnt_f or n in fnodes, edge_ok=noexc, targets=lnodes)
        R.check(ok_e and ok_c, "C17-R3", "receive_data|short-first-read-handed-over", "a short MSG_WAITALL read is appended to the buffer and counted before the manual loop takes over",
                rx.loc(fast[0]), "the manual loop can be reached from the MSG_WAITALL attempt without %s: the bytes of a short first read are lost or counted wrongly" % (
                    "appending the chunk" if not ok_e else "setting the counter to its length"))
        # ... with the right number: the length of the chunk just read, or of the buffer AFTER the chunk was appended to it (the buffer's length before that is 0: the
        # manual loop would then ask for the whole size again and wait for - or take - bytes that belong to the next message)
        fchunks = {t.id for c in fast for st_ in [enclosing_stmt(c)] if isinstance(st_, ast.Assign) for t in st_.targets if isinstance(t, ast.Name)}
        cnt_sts = [st for st, t, k in stores_in(rx.node) if k == "assign" and unparse(t) == counter and isinstance(st.value, ast.Call) and unparse(st.value.func) == "len"
                   and inner not in enclosing_loops(st, rx.node)]
        wrongcnt = None
        for st in cnt_sts:
            a = unparse(st.value.args[0]) if st.value.args else ""
            if a in fchunks:
                continue
            if a == bufname and all(any(rcfg.dominates(e, n) for e in ext_f) for n in rcfg.nodes_for(st)):
                continue
            wrongcnt = st
        R.check(wrongcnt is None, "C17-R3", "receive_data|short-first-read-counted-by-its-own-length", "after a short MSG_WAITALL read the counter is the length of that chunk (or of the buffer once it holds the chunk)",
                rx.loc(wrongcnt) if wrongcnt is not None else rx.loc(fast[0]),
                "`%s` does not count the chunk that was just read: the manual loop asks for too many bytes - it then waits for bytes that are not coming (TimeoutError on a complete message) "
                "or swallows the beginning of the next message" % (unparse(wrongcnt) if wrongcnt is not None else ""))
        again = rcfg.path_exists(fnodes, lambda n: n in fnodes, edge_ok=noexc)
        R.check(not again, "C17-R1", "receive_data|waitall-read-not-repeated", "after the MSG_WAITALL read returned data, that read is not issued again (it asks for the full size)",
                rx.loc(fast[0]), "after a short MSG_WAITALL read the loop issues the full-size read again: the second read takes bytes of the next message")
        # whether recv flags can be used is a fact about THIS socket (ssl sockets refuse them): the read with MSG_WAITALL is taken only under a test that looks at the
        # socket it reads from, not only at module or configuration state (config.SSL says what future Pyro sockets are, not what this one is)
        sockp = rx.params[0]

        def about_the_socket(atom, pol):
            return any(isinstance(x, ast.Name) and x.id == sockp for x in ast.walk(atom))
        flagged = [c for c in fast if len(c.args) >= 2 or c.keywords]
        ok_s = all(rcfg.guarded(x, lambda e: edge_has_fact(e, about_the_socket)) for c in flagged for x in ctx.node_of(rx, c))
        R.check(ok_s, "C17-R1", "receive_data|flags-only-if-this-socket-takes-them", "the read that passes recv flags is guarded by a test of the socket it reads from", rx.loc(fast[0]),
                "the MSG_WAITALL read is chosen without looking at `%s`: an ssl socket (which raises ValueError for non-zero recv flags) gets it whenever the global state says so - "
                "the caller sees neither the bytes nor a ConnectionClosedError/TimeoutError" % sockp)
    chunkvar = unparse(ext[0].args[0]) if ext and ext[0].args else None

    def empty_chunk(atom, pol):
        return pol is False and unparse(atom) == chunkvar
    brk = [n for n in rcfg.nodes if n.kind == "stmt" and isinstance(n.ast, ast.Break) and inner in enclosing_loops(n.ast, rx.node) and
           rcfg.guarded(n, lambda e: edge_has_fact(e, empty_chunk))]
    R.check(bool(brk), "C17-R3", "receive_data|eof-leaves-loop", "an empty chunk (peer closed) leaves the receive loop", rx.loc(inner),
            "end of stream is not detected: the loop would spin on an empty recv")
    sends = [c for c, _ in ctx.cg.calls_of(tx) if isinstance(c.func, ast.Attribute) and c.func.attr == "send"]
    if len(sends) != 1:
        raise AnalysisError("send_data: the send call of the manual loop vanished")
    sst = enclosing_stmt(sends[0])
    loops = enclosing_loops(sends[0], tx.node)
    ok = isinstance(sst, ast.Assign) and isinstance(sst.targets[0], ast.Name) and bool(loops)
    why = "the byte count returned by send() is not kept"
    if ok:
        cnt = sst.targets[0].id
        datap = tx.params[1]
        slices = [st for st, t, k in stores_in(tx.node) if k == "assign" and unparse(t) == datap and isinstance(st.value, ast.Subscript) and
                  isinstance(st.value.slice, ast.Slice) and st.value.slice.lower is not None and unparse(st.value.slice.lower) == cnt and st.value.slice.upper is None]
        ok = len(slices) == 1
        why = "no `%s = %s[%s:]` after the send" % (datap, datap, cnt)
        if ok:
            trd = ctx.rd(tx)
            for n in tcfg.nodes_for(slices[0]):
                defs = trd.reaching(n, cnt)
                if not (defs and all(d.node is not None and d.node.ast is sst for d in defs)):
                    ok = False
                    why = "when `%s = %s[%s:]` runs, `%s` may still hold the count of an EARLIER send (or an initial value): after a retryable error the same " \
                          "bytes are cut off again and never transmitted" % (datap, datap, cnt, cnt)
            lp = loops[0]
            if ok and not (isinstance(lp, ast.While) and unparse(lp.test) == datap):
                ok = False
                why = "the send loop does not run `while %s`" % datap
    R.check(ok, "C17-R3", "send_data|slice-by-returned-count", "after each successful send exactly the sent prefix is removed; the loop runs while data remains", tx.loc(sends[0]), why)
    sa = [c for c, _ in ctx.cg.calls_of(tx) if isinstance(c.func, ast.Attribute) and c.func.attr == "sendall"]

    def blocking(atom, pol):
        return pol is True and isinstance(atom, ast.Compare) and len(atom.ops) == 1 and isinstance(atom.ops[0], ast.Is) and "gettimeout" in unparse(atom.left) and \
            isinstance(atom.comparators[0], ast.Constant) and atom.comparators[0].value is None
    ok = len(sa) == 1 and all(tcfg.guarded(n, lambda e: edge_has_fact(e, blocking)) for n in ctx.node_of(tx, sa[0]))
    sa = [c for c, _ in ctx.cg.calls_of(tx) if isinstance(c.func, ast.Attribute) and c.func.attr == "sendall"]
    looped = [c for c in sa if enclosing_loops(c, tx.node)]
    R.check(bool(sa) and not looped, "C17-R3", "send_data|sendall-not-retried", "sendall is attempted once: after a failure its progress is unknown, so it is never re-issued from a loop",
            tx.loc(sa[0]) if sa else tx.loc(),
            "sendall sits in a retry loop: when it fails with a retryable errno after a partial write, the whole buffer is sent again and the peer receives a duplicated prefix")
    R.check(ok, "C17-R3", "send_data|sendall-only-when-blocking", "sendall is used only for sockets in blocking mode", tx.loc(), "sendall is used on a timeout-mode socket (partial sends are lost on timeout)")

    # ---------------------------------------------------------------- R5
    for mname, target, nargs in (("recv", "Pyro5.socketutil.receive_data", 1), ("send", "Pyro5.socketutil.send_data", 1)):
        m_ = ctx.fn("Pyro5.socketutil.SocketConnection." + mname)
        calls = ctx.calls_to(m_, target)
        ok = len(calls) == 1 and len(calls[0].args) == 2 and unparse(calls[0].args[0]) == "self.sock" and unparse(calls[0].args[1]) == m_.params[1]
        if ok and mname == "recv":
            rets = [n for n in walk_no_nested(m_.node) if isinstance(n, ast.Return)]
            ok = len(rets) == 1 and rets[0].value is calls[0]
        R.check(ok, "C17-R5", "SocketConnection.%s|delegates-exactly" % mname, "the connection wrapper passes the socket and the size/data through unchanged", m_.loc(),
                "SocketConnection.%s does not hand exactly its argument to %s (or alters the result)" % (mname, target.rsplit(".", 1)[1]))
        # ... and its outcome too: the exception receive_data / send_data raises IS the result when the read fails (it carries partialData). A handler in the wrapper that
        # raises a new exception in its place - even of the same class, even chained - drops what the original carried
        rebuilt = [h for t in walk_no_nested(m_.node) if isinstance(t, ast.Try) for h in t.handlers
                   for r in ast.walk(h) if isinstance(r, ast.Raise) and r.exc is not None and not (isinstance(r.exc, ast.Name) and r.exc.id == h.name)]
        R.check(not rebuilt, "C17-R5", "SocketConnection.%s|errors-pass-through-unchanged" % mname, "the connection wrapper lets the exception of the exact read/write through as it is", m_.loc(rebuilt[0]) if rebuilt else m_.loc(),
                "SocketConnection.%s catches the error of %s and raises a different exception object: `partialData` (the bytes received before the connection broke) stays on the original and is "
                "lost to every caller that reads through a connection" % (mname, target.rsplit(".", 1)[1]))

    # a timeout must surface as socket.timeout (which both loops turn into TimeoutError): it is set with settimeout(), never as a kernel option - an expired
    # SO_RCVTIMEO / SO_SNDTIMEO shows up as EAGAIN, which is in ERRNO_RETRIES and is retried for ever
    kernel_to = [(g, c) for g in p.functions.values() if not isinstance(g.node, ast.Lambda) for c in walk_no_nested(g.node)
                 if isinstance(c, ast.Call) and isinstance(c.func, ast.Attribute) and c.func.attr == "setsockopt" and any("SO_RCVTIMEO" in unparse(a) or "SO_SNDTIMEO" in unparse(a) for a in c.args)]
    R.check(not kernel_to, "C17-R2", "timeouts|set-with-settimeout", "socket timeouts are set with settimeout() only (no SO_RCVTIMEO / SO_SNDTIMEO)", kernel_to[0][0].loc(kernel_to[0][1]) if kernel_to else "Pyro5/",
            "`%s` in %s: a kernel receive/send timeout surfaces from recv()/send() as EAGAIN, which receive_data/send_data treat as retryable - a peer that stalls in mid-message is "
            "waited for indefinitely instead of raising TimeoutError" % (unparse(kernel_to[0][1], 70), kernel_to[0][0].qualname) if kernel_to else "")

    # ---------------------------------------------------------------- R4
    m = p.module("Pyro5.socketutil")
    names = set()
    v = m.constants.get("ERRNO_RETRIES")
    computed = False
    if isinstance(v, (ast.List, ast.Tuple, ast.Set)):
        for e in v.elts:
            names.add(unparse(e))
    elif isinstance(v, (ast.ListComp, ast.SetComp, ast.GeneratorExp)) or (isinstance(v, ast.Call) and v.args and isinstance(v.args[0], (ast.ListComp, ast.GeneratorExp))):
        # the table computed from a tuple of errno NAMES: [getattr(errno, n) for n in NAMES if hasattr(errno, n)] - the names are read from the (constant) iterable;
        # adjacent string literals without a comma are one name, which the hasattr filter then silently drops
        comp = v if not isinstance(v, ast.Call) else v.args[0]
        it = comp.generators[0].iter if len(comp.generators) == 1 else None
        if isinstance(it, ast.Name):
            it = m.constants.get(it.id)
        elt_ok = isinstance(comp.elt, ast.Call) and unparse(comp.elt.func) == "getattr" and len(comp.elt.args) == 2 and unparse(comp.elt.args[0]) == "errno" \
            and isinstance(comp.elt.args[1], ast.Name) and isinstance(comp.generators[0].target, ast.Name) and comp.elt.args[1].id == comp.generators[0].target.id
        if not (isinstance(it, (ast.Tuple, ast.List, ast.Set)) and all(isinstance(e, ast.Constant) and isinstance(e.value, str) for e in it.elts) and elt_ok):
            raise AnalysisError("socketutil.ERRNO_RETRIES is neither a literal list nor a comprehension over a constant tuple of errno names")
        computed = True
        import errno as _errno
        for e in it.elts:
            names.add("errno." + e.value)
    else:
        raise AnalysisError("socketutil.ERRNO_RETRIES is not a literal list")
    for n in ast.walk(m.tree):
        if isinstance(n, ast.Call) and isinstance(n.func, ast.Attribute) and n.func.attr in ("append", "extend", "add") and unparse(n.func.value) == "ERRNO_RETRIES":
            for a in n.args:
                names.add(unparse(a))
    bad = sorted(x for x in names if not (x.startswith("errno.") and x[6:] in RETRYABLE))
    R.check(not bad and len(names) >= 3, "C17-R4", "ERRNO_RETRIES|retryable-family", "only EINTR/EAGAIN/EWOULDBLOCK/EINPROGRESS (and their WSA twins) are retried", m.relpath,
            ("names that are not retryable errno constants are in the table: %s%s" % (bad, " (an entry that is no errno name at all - e.g. two string literals joined by a missing comma - is "
             "dropped by the hasattr() filter: the errnos it was meant to name are treated as fatal)" if computed else "")))
    missing = sorted({"errno.EINTR", "errno.EAGAIN", "errno.EWOULDBLOCK", "errno.EINPROGRESS"} - names)
    R.check(not missing, "C17-R4", "ERRNO_RETRIES|transient-errnos-present", "EINTR, EAGAIN, EWOULDBLOCK and EINPROGRESS are all in the table", m.relpath,
            "%s no longer in ERRNO_RETRIES: a transient would-block / interrupted condition raises ConnectionClosedError instead of being retried, and the bytes read so far are lost" % missing)

    # the back-off generator is asked for a delay on EVERY retry, with a bare next(): it must never end, or the n-th retryable condition in a row surfaces as
    # StopIteration (RuntimeError inside a generator) instead of a further retry - neither data nor a connection-closed / timeout error
    rd = ctx.fn("Pyro5.socketutil.__retrydelays")
    body = [st for st in rd.node.body if not (isinstance(st, ast.Expr) and isinstance(st.value, ast.Constant))]
    last = body[-1] if body else None
    endless = False
    if isinstance(last, ast.While) and isinstance(last.test, ast.Constant) and last.test.value and not last.orelse:
        inner_loops = [n for n in ast.walk(last) if isinstance(n, (ast.For, ast.While)) and n is not last]
        brk = [n for n in ast.walk(last) if isinstance(n, ast.Break) and not any(n in list(ast.walk(il)) for il in inner_loops)]
        endless = not brk and any(isinstance(n, (ast.Yield, ast.YieldFrom)) for n in ast.walk(last))
    elif isinstance(last, ast.Expr) and isinstance(last.value, ast.YieldFrom) and isinstance(last.value.value, ast.Call) and \
            (dotted(last.value.value.func) or "") in ("itertools.count", "itertools.cycle", "itertools.repeat") and \
            not (dotted(last.value.value.func) == "itertools.repeat" and (len(last.value.value.args) > 1 or last.value.value.keywords)):
        endless = True
    rets = [n for n in walk_no_nested(rd.node) if isinstance(n, ast.Return)]
    raises = [n for n in walk_no_nested(rd.node) if isinstance(n, ast.Raise)]
    nexts = [c for g in p.functions.values() if g.module.name == "Pyro5.socketutil" for c in walk_no_nested(g.node)
             if isinstance(c, ast.Call) and isinstance(c.func, ast.Name) and c.func.id == "next" and len(c.args) == 1]
    if not nexts:
        raise AnalysisError("socketutil: no next(<delays>) call found - the back-off is consumed in a way this rule does not know")
    R.check(endless and not rets and not raises, "C17-R4", "__retrydelays|never-ends", "the back-off generator ends in an endless loop of yields (consumed by %d bare next() calls)" % len(nexts),
            rd.loc(last) if last is not None else rd.loc(),
            "the back-off generator can run out: after that many retryable errors in a row next() raises StopIteration out of receive_data / send_data - the caller gets "
            "neither its bytes nor a ConnectionClosedError / TimeoutError")

    from .common import names_bound
    names_bound(ctx, R, "C17-R2", {"Pyro5.socketutil"}, "a read or write ends with NameError instead of data, ConnectionClosedError or TimeoutError")
    # only the connection-closed error carries partialData: a handler that reads it must not catch anything wider
    n_pd = 0
    for g in p.functions.values():
        for t in [x for x in walk_no_nested(g.node) if isinstance(x, ast.Try)]:
            for h in t.handlers:
                if not h.name:
                    continue
                reads = [x for st in h.body for x in walk_no_nested(st) if isinstance(x, ast.Attribute) and x.attr == "partialData" and isinstance(x.ctx, ast.Load)
                         and isinstance(x.value, ast.Name) and x.value.id == h.name]
                if not reads:
                    continue
                n_pd += 1
                classes = [es.class_of_expr(x, g) for x in (h.type.elts if isinstance(h.type, ast.Tuple) else [h.type])] if h.type is not None else [None]
                ok = all(c and es.is_sub(c, "Pyro5.errors.ConnectionClosedError") for c in classes)
                R.check(ok, "C17-R2", "%s|partialData-read-only-from-ConnectionClosedError" % g.qualname.split(".", 1)[1], "the handler that reads .partialData catches only ConnectionClosedError",
                        g.loc(h), "the handler catches %s but reads .partialData, which only ConnectionClosedError carries: a timeout surfaces as AttributeError" % classes)
    R.note("handlers reading .partialData: %d" % n_pd)
    # ... and who re-stores it (outside receive_data) derives the new value from that same attribute of the same exception
    for g in p.functions.values():
        if g.qualname == rx.qualname:
            continue
        for st, t, k in stores_in(g.node):
            if k == "assign" and isinstance(t, ast.Attribute) and t.attr == "partialData":
                src = [x for x in ast.walk(st.value) if isinstance(x, ast.Attribute) and x.attr == "partialData" and unparse(x.value) == unparse(t.value)]
                R.check(bool(src), "C17-R2", "%s|partialData-rewritten-from-itself" % g.qualname.split(".", 1)[1], "a rewrite of .partialData is computed from the .partialData it replaces",
                        g.loc(st), "`%s` replaces the bytes received so far by something that does not come from them" % unparse(st, 70))


def _raised_class(ctx, f, cfg, r):
    """class of the exception a `raise X(...)` / `raise name` statement raises (name: all reaching definitions must construct the same class)"""
    es = ctx.escape
    if isinstance(r.exc, ast.Call):
        return es.class_of_expr(r.exc.func, f)
    if isinstance(r.exc, ast.Name):
        out = set()
        for x in cfg.nodes_for(r):
            for d in ctx.rd(f).reaching(x, r.exc.id):
                out.add(es.class_of_expr(d.value.func, f) if d.value is not None and isinstance(d.value, ast.Call) and d.kind == "assign" else None)
        return out.pop() if len(out) == 1 else None
    return None


def _where(h, f):
    """stable description of a handler's position: which loop / branch of the function it belongs to"""
    t = getattr(h, "_parent", None)
    loops = enclosing_loops(t, f.node)
    kind = "fast-path" if any(isinstance(l, ast.While) and isinstance(l.test, ast.Constant) for l in loops[:1]) and \
        any("MSG_WAITALL" in unparse(x) for x in ast.walk(t)) else ("loop" if loops else "top")
    idx = 0
    allh = [x for tt in walk_no_nested(f.node) if isinstance(tt, ast.Try) for x in tt.handlers]
    return "%s#%d" % (kind, allh.index(h))
