"""Rule fragments shared by several property modules."""
import ast
from ..engine.model import AnalysisError
from ..engine.context import unparse, stores_in
from ..engine.cfg import walk_no_nested

FRESH_CTORS = {"dict", "list", "set", "weakref.WeakSet", "weakref.WeakValueDictionary", "collections.OrderedDict", "collections.deque", "WeakSet"}


def is_fresh_container(v):
    if isinstance(v, (ast.Dict, ast.List, ast.Set, ast.DictComp, ast.ListComp, ast.SetComp)):
        return True
    if isinstance(v, ast.Call) and not v.args and not v.keywords and unparse(v.func) in FRESH_CTORS:
        return True
    return False


def fresh_per_instance(ctx, R, rule_id, cls_qual, attr, consequence):
    """obligation: <class>.__init__ unconditionally assigns self.<attr> a freshly built container (so no two instances - and no class-level default - share one table)"""
    ci = ctx.p.cls(cls_qual)
    init = ci.methods.get("__init__")
    if init is None:
        raise AnalysisError("%s.__init__ vanished" % cls_qual)
    me = init.self_name
    cfg = ctx.cfg(init)
    sts = [st for st, t, k in stores_in(init.node) if k == "assign" and isinstance(t, ast.Attribute) and isinstance(t.value, ast.Name) and t.value.id == me
           and t.attr == attr]
    fresh = [st for st in sts if is_fresh_container(st.value)]
    # on every normal path through __init__: the exit is reached only through one of the fresh stores
    ok = bool(fresh) and len(fresh) == len(sts) and cfg.all_paths_pass([cfg.entry], lambda n: any(n in cfg.nodes_for(st) for st in fresh), targets=[cfg.exit])
    shared = [n for n in ci.node.body if isinstance(n, (ast.Assign, ast.AnnAssign)) and any(isinstance(t, ast.Name) and t.id == attr for t in (n.targets if isinstance(n, ast.Assign) else [n.target]))]
    why = ""
    if not ok:
        if not sts:
            why = "%s.__init__ no longer creates self.%s%s" % (ci.name, attr, (": the class-level `%s` is one object shared by all instances" % unparse(shared[0], 50)) if shared else "")
        elif len(fresh) != len(sts):
            bad = [st for st in sts if st not in fresh][0]
            why = "`%s` stores something that is not a freshly built container" % unparse(bad, 70)
        else:
            why = "self.%s is created only on some paths through __init__" % attr
        why += " - " + consequence
    R.check(ok, rule_id, "%s.%s|fresh-per-instance" % (ci.name, attr), "__init__ always binds self.%s to a container built right there" % attr,
            init.loc(fresh[0]) if fresh else init.loc(), why)


def sql_setitem_writes_uri(ctx, R, rule_id):
    """obligation: every normal path through SqlStorage.__setitem__ writes the given uri into pyro_names"""
    si = ctx.p.cls("Pyro5.nameserver.SqlStorage").methods.get("__setitem__")
    if si is None:
        raise AnalysisError("SqlStorage.__setitem__ vanished")
    scfg = ctx.cfg(si)
    keyp, valp = si.params[1], si.params[2]
    unp = [n for n in walk_no_nested(si.node) if isinstance(n, ast.Assign) and isinstance(n.targets[0], ast.Tuple) and unparse(n.value) == valp]
    if not unp:
        raise AnalysisError("SqlStorage.__setitem__: `uri, metadata = value` vanished")
    urivar = unp[0].targets[0].elts[0].id
    writes = []
    for c in walk_no_nested(si.node):
        if isinstance(c, ast.Call) and isinstance(c.func, ast.Attribute) and c.func.attr == "execute" and len(c.args) >= 2:
            okc, sqltext = ctx.const(c.args[0], si)
            if okc and isinstance(sqltext, str) and sqltext.strip().upper().startswith(("INSERT", "UPDATE", "REPLACE")) and "PYRO_NAMES" in sqltext.upper():
                used = {n.id for n in ast.walk(c.args[1]) if isinstance(n, ast.Name)}
                if urivar in used:
                    writes += ctx.node_of(si, c)
    ok = bool(writes) and scfg.all_paths_pass([scfg.entry], lambda n: n in writes, targets=[scfg.exit])
    R.check(ok, rule_id, "SqlStorage.__setitem__|writes-uri-on-every-path", "every normal path executes an INSERT/UPDATE on pyro_names that carries the given uri", si.loc(),
            "some path through __setitem__ completes without writing `%s` into pyro_names: re-registering an existing name keeps the old uri while MemoryStorage "
            "replaces it" % urivar)


def classname_defs(fn_node):
    """assignments `name = <expr containing data.get("__class__", ...) or data["__class__"]>` (the class tag may be passed through a decoding helper)"""
    out = []
    for st, tg, k in stores_in(fn_node):
        if k != "assign" or not isinstance(tg, ast.Name):
            continue
        for n in ast.walk(st.value):
            if isinstance(n, ast.Call) and isinstance(n.func, ast.Attribute) and n.func.attr == "get" and n.args and isinstance(n.args[0], ast.Constant) \
                    and n.args[0].value == "__class__":
                out.append(st)
                break
            if isinstance(n, ast.Subscript) and isinstance(n.slice, ast.Constant) and n.slice.value == "__class__":
                out.append(st)
                break
    return out

