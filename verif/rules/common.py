"""Rule fragments shared by several property modules."""
import ast
from ..engine.model import AnalysisError
from ..engine.context import unparse, stores_in
from ..engine.cfg import walk_no_nested

FRESH_CTORS = {"dict", "list", "set", "weakref.WeakSet", "weakref.WeakValueDictionary", "collections.OrderedDict", "collections.deque", "WeakSet"}


def is_fresh_container(v):
    if isinstance(v, (ast.Dict, ast.List, ast.Set, ast.DictComp, ast.ListComp, ast.SetComp)):
        return True
    if isinstance(v, ast.Call) and not v.args and not v.keywords and unparse(v.func) in FRESH_CTORS:
        return True
    return False


def fresh_per_instance(ctx, R, rule_id, cls_qual, attr, consequence):
    """obligation: <class>.__init__ unconditionally assigns self.<attr> a freshly built container (so no two instances - and no class-level default - share one table)"""
    ci = ctx.p.cls(cls_qual)
    init = ci.methods.get("__init__")
    if init is None:
        raise AnalysisError("%s.__init__ vanished" % cls_qual)
    me = init.self_name
    cfg = ctx.cfg(init)
    sts = [st for st, t, k in stores_in(init.node) if k == "assign" and isinstance(t, ast.Attribute) and isinstance(t.value, ast.Name) and t.value.id == me
           and t.attr == attr]
    fresh = [st for st in sts if is_fresh_container(st.value)]
    # on every normal path through __init__: the exit is reached only through one of the fresh stores
    ok = bool(fresh) and len(fresh) == len(sts) and cfg.all_paths_pass([cfg.entry], lambda n: any(n in cfg.nodes_for(st) for st in fresh), targets=[cfg.exit])
    shared = [n for n in ci.node.body if isinstance(n, (ast.Assign, ast.AnnAssign)) and any(isinstance(t, ast.Name) and t.id == attr for t in (n.targets if isinstance(n, ast.Assign) else [n.target]))]
    why = ""
    if not ok:
        if not sts:
            why = "%s.__init__ no longer creates self.%s%s" % (ci.name, attr, (": the class-level `%s` is one object shared by all instances" % unparse(shared[0], 50)) if shared else "")
        elif len(fresh) != len(sts):
            bad = [st for st in sts if st not in fresh][0]
            why = "`%s` stores something that is not a freshly built container" % unparse(bad, 70)
        else:
            why = "self.%s is created only on some paths through __init__" % attr
        why += " - " + consequence
    R.check(ok, rule_id, "%s.%s|fresh-per-instance" % (ci.name, attr), "__init__ always binds self.%s to a container built right there" % attr,
            init.loc(fresh[0]) if fresh else init.loc(), why)


def sql_setitem_writes_uri(ctx, R, rule_id):
    """obligation: every normal path through SqlStorage.__setitem__ writes the given uri into pyro_names"""
    si = ctx.p.cls("Pyro5.nameserver.SqlStorage").methods.get("__setitem__")
    if si is None:
        raise AnalysisError("SqlStorage.__setitem__ vanished")
    scfg = ctx.cfg(si)
    keyp, valp = si.params[1], si.params[2]
    unp = [n for n in walk_no_nested(si.node) if isinstance(n, ast.Assign) and isinstance(n.targets[0], ast.Tuple) and unparse(n.value) == valp]
    if not unp:
        raise AnalysisError("SqlStorage.__setitem__: `uri, metadata = value` vanished")
    urivar = unp[0].targets[0].elts[0].id
    writes = []
    for c in walk_no_nested(si.node):
        if isinstance(c, ast.Call) and isinstance(c.func, ast.Attribute) and c.func.attr == "execute" and len(c.args) >= 2:
            okc, sqltext = ctx.const(c.args[0], si)
            if okc and isinstance(sqltext, str) and sqltext.strip().upper().startswith(("INSERT", "UPDATE", "REPLACE")) and "PYRO_NAMES" in sqltext.upper():
                used = {n.id for n in ast.walk(c.args[1]) if isinstance(n, ast.Name)}
                if urivar in used:
                    writes += ctx.node_of(si, c)
    ok = bool(writes) and scfg.all_paths_pass([scfg.entry], lambda n: n in writes, targets=[scfg.exit])
    R.check(ok, rule_id, "SqlStorage.__setitem__|writes-uri-on-every-path", "every normal path executes an INSERT/UPDATE on pyro_names that carries the given uri", si.loc(),
            "some path through __setitem__ completes without writing `%s` into pyro_names: re-registering an existing name keeps the old uri while MemoryStorage "
            "replaces it" % urivar)


def sql_setitem_replaces_metadata(ctx, R, rule_id):
    """obligation: SqlStorage.__setitem__ replaces the tags of an existing name whatever the new tags are: the statement that removes the old metadata rows
    (DELETE on pyro_metadata, or on pyro_names whose rows the metadata rows reference) is not conditional on the new metadata (MemoryStorage stores the new
    value outright: registering without tags over a tagged entry leaves no tags)"""
    from .c03 import edge_has_fact
    si = ctx.p.cls("Pyro5.nameserver.SqlStorage").methods.get("__setitem__")
    if si is None:
        raise AnalysisError("SqlStorage.__setitem__ vanished")
    scfg = ctx.cfg(si)
    valp = si.params[2]
    unp = [n for n in walk_no_nested(si.node) if isinstance(n, ast.Assign) and isinstance(n.targets[0], ast.Tuple) and unparse(n.value) == valp]
    if not unp:
        raise AnalysisError("SqlStorage.__setitem__: `uri, metadata = value` vanished")
    metavar = unp[0].targets[0].elts[1].id
    deletes = []
    for c in walk_no_nested(si.node):
        if isinstance(c, ast.Call) and isinstance(c.func, ast.Attribute) and c.func.attr == "execute" and c.args:
            okc, sqltext = ctx.const(c.args[0], si)
            if okc and isinstance(sqltext, str) and sqltext.strip().upper().startswith("DELETE") and ("PYRO_METADATA" in sqltext.upper() or "PYRO_NAMES" in sqltext.upper()):
                deletes.append(c)

    def about_new_tags(atom, pol):
        return any(isinstance(x, ast.Name) and x.id == metavar for x in ast.walk(atom))
    free = [c for c in deletes if not any(scfg.guarded(n, lambda e: edge_has_fact(e, about_new_tags)) for n in ctx.node_of(si, c))]
    R.check(bool(free), rule_id, "SqlStorage.__setitem__|replaces-metadata-whatever-the-new-tags", "the old metadata rows of an existing name are removed on a path that does not depend on the new metadata",
            si.loc(deletes[0]) if deletes else si.loc(),
            ("the only statement(s) removing the old tags (`%s`) run under a test of the new metadata `%s`: overwriting a tagged entry with no tags keeps the old tags on sqlite, "
             "while the in-memory storage drops them" % (unparse(deletes[0], 60), metavar)) if deletes else
            "__setitem__ never deletes the previous metadata rows of the name: old tags survive an overwrite")


def config_env_value_stored_as_converted(ctx, R, rule_id, items):
    """obligation: Configuration.reset stores the value read from a PYRO_* environment variable as converted - not through `value or default` or another test of its
    truthiness: 0, 0.0 and False are legal settings (ITER_STREAM_LINGER=0, MAX_RETRIES=0, ITER_STREAMING=off ...)"""
    rs = ctx.fn("Pyro5.configure.Configuration.reset")
    sets = [c for c in walk_no_nested(rs.node) if isinstance(c, ast.Call) and isinstance(c.func, ast.Name) and c.func.id == "setattr" and len(c.args) == 3]
    env_sets = []
    for c in sets:
        v = c.args[2]
        names = {n.id for n in ast.walk(v) if isinstance(n, ast.Name)}
        # the value derives from os.environ (a local assigned from environ[...] / environ.get and then converted)
        derived = set()
        changed = True
        while changed:
            changed = False
            for st, t, k in stores_in(rs.node):
                src = st.value if k == "assign" else (st.iter if k == "for" else None)
                if src is not None and isinstance(t, ast.Name) and t.id not in derived and \
                        ("environ" in unparse(src, 400) or {n.id for n in ast.walk(src) if isinstance(n, ast.Name)} & derived):
                    derived.add(t.id)
                    changed = True
        if names & derived:
            env_sets.append((c, v))
    if not env_sets:
        raise AnalysisError("Configuration.reset: the setattr that stores an environment value vanished")
    bad = [(c, v) for c, v in env_sets if not isinstance(v, ast.Name)]
    R.check(not bad, rule_id, "Configuration.reset|environment-value-stored-as-converted", "a PYRO_* environment setting is stored exactly as converted (falsy values are settings too): %s" % items,
            rs.loc(bad[0][0]) if bad else rs.loc(env_sets[0][0]),
            ("`%s` does not store the converted environment value itself: a setting of 0 / off from the environment is replaced by the default" % unparse(bad[0][0], 80)) if bad else "")


def classname_defs(fn_node):
    """assignments `name = <expr containing data.get("__class__", ...) or data["__class__"]>` (the class tag may be passed through a decoding helper)"""
    out = []
    for st, tg, k in stores_in(fn_node):
        if k != "assign" or not isinstance(tg, ast.Name):
            continue
        for n in ast.walk(st.value):
            if isinstance(n, ast.Call) and isinstance(n.func, ast.Attribute) and n.func.attr == "get" and n.args and isinstance(n.args[0], ast.Constant) \
                    and n.args[0].value == "__class__":
                out.append(st)
                break
            if isinstance(n, ast.Subscript) and isinstance(n.slice, ast.Constant) and n.slice.value == "__class__":
                out.append(st)
                break
    return out



def copy_does_not_alias(ctx, R, rule_id, cls_qual, consequence):
    """obligation: <class>.__copy__ never hands the copy one of the original's mutable containers itself: an attribute that the class creates as a
    container (in __init__) is copied with list()/set()/dict()/.copy(), not assigned as `new.attr = self.attr`"""
    ci = ctx.p.cls(cls_qual)
    cp = ci.methods.get("__copy__")
    if cp is None:
        raise AnalysisError("%s.__copy__ vanished" % cls_qual)
    init = ci.methods.get("__init__")
    containers = set()
    for g in ([init] if init is not None else []):
        for st, t, k in stores_in(g.node):
            if k == "assign" and isinstance(t, ast.Attribute) and isinstance(t.value, ast.Name) and t.value.id == g.self_name and is_fresh_container(st.value):
                containers.add(t.attr)
    me = cp.self_name
    bad = None
    n = 0
    for st, t, k in stores_in(cp.node):
        if k == "assign" and isinstance(t, ast.Attribute) and t.attr in containers:
            n += 1
            v = st.value
            if isinstance(v, ast.Attribute) and isinstance(v.value, ast.Name) and v.value.id == me:
                bad = st
    R.check(bad is None, rule_id, "%s.__copy__|containers-copied" % ci.name, "container attributes (%s) are given to the copy as new containers (%d assignment(s))" % (
        ", ".join(sorted(containers)) or "none", n), cp.loc(), ("`%s` makes the copy share the original's container - %s" % (unparse(bad, 60), consequence)) if bad is not None else "")


def housekeeping_relookup(ctx, R, rule_id):
    """obligation: every deletion from the stream table in Daemon._housekeeping follows, in the same loop round, a fresh look-up of that id in the live table that found
    it (an entry taken from an earlier snapshot may already have been removed, by the first pass or by a request thread: `del` then raises KeyError)"""
    hk = ctx.fn("Pyro5.server.Daemon._housekeeping")
    cfg = ctx.cfg(hk)
    dels = [(st, t) for st, t, k in stores_in(hk.node) if k == "del" and isinstance(t, ast.Subscript) and unparse(t.value).endswith("streaming_responses")]
    pops = [c for c in walk_no_nested(hk.node) if isinstance(c, ast.Call) and isinstance(c.func, ast.Attribute) and c.func.attr == "pop" and unparse(c.func.value).endswith("streaming_responses")]
    if not dels and not pops:
        raise AnalysisError("_housekeeping: the removal of expired streams vanished")
    bad = None
    from ..engine.context import enclosing_loops
    for st, t in dels:
        key = unparse(t.slice)
        loops = enclosing_loops(st, hk.node)
        fresh = [s2 for s2, t2, k2 in stores_in(hk.node) if k2 == "assign" and isinstance(s2.value, ast.Call) and isinstance(s2.value.func, ast.Attribute)
                 and s2.value.func.attr == "get" and unparse(s2.value.func.value).endswith("streaming_responses") and s2.value.args and unparse(s2.value.args[0]) == key
                 and loops and loops[0] in enclosing_loops(s2, hk.node)]
        ok = bool(fresh) and all(any(cfg.dominates(a, b) for f_ in fresh for a in cfg.nodes_for(f_)) for b in cfg.nodes_for(st))
        if ok:
            var = fresh[0].targets[0].id if isinstance(fresh[0].targets[0], ast.Name) else None

            def found(atom, pol, var=var):
                return pol is True and isinstance(atom, ast.Name) and atom.id == var
            from .c03 import edge_has_fact
            ok = var is not None and all(cfg.guarded(b, lambda e: edge_has_fact(e, found)) for b in cfg.nodes_for(st))
        if not ok:
            bad = st
    for c in pops:
        if len(c.args) < 2:
            bad = c
    R.check(bad is None, rule_id, "_housekeeping|removal-after-fresh-lookup", "an expired stream is deleted only after this round's own look-up in the live table found it (or with pop(id, default))",
            hk.loc(bad) if bad is not None else hk.loc(),
            "`%s` deletes an entry that was read from an earlier snapshot: a stream already removed (by the other clean-up pass or a request thread) raises KeyError, which ends the "
            "multiplex request loop / the housekeeper thread" % (unparse(bad, 60) if bad is not None else ""))


def names_bound(ctx, R, rule_id, modules, consequence):
    """one instance per module: every name that is read is bound somewhere (engine.dataflow.unbound_names; the compiler's own symbol tables, no path reasoning). A read
    of a name that nothing binds raises NameError where the code meant to do something else - typically in a rarely taken branch (error message built from a variable
    whose assignment was dropped or renamed)"""
    import ast as _ast
    from ..engine.dataflow import unbound_names
    for mn in sorted(modules):
        mod = ctx.p.modules.get(mn)
        if mod is None:
            raise AnalysisError("module %s vanished" % mn)
        ub = unbound_names(mod.source, mod.relpath)
        if ub is None:
            R.note("%s uses `import *`: unbound names cannot be decided there" % mn)
            continue
        where = mod.relpath
        if ub:
            nm, sline, sname = ub[0]
            raw = _ast.parse(mod.source)
            uses = sorted(n.lineno for n in _ast.walk(raw) if isinstance(n, _ast.Name) and n.id == nm and isinstance(n.ctx, _ast.Load) and n.lineno >= (sline or 0))
            where = "%s:%d" % (mod.relpath, uses[0] if uses else (sline or 1))
        R.check(not ub, rule_id, "module|%s|every-name-read-is-bound" % mn, "no name in this module is read without being bound somewhere (symbol tables of the compiler)", where,
                ("`%s` is read in %s but nothing binds it (no assignment, parameter, import or definition, not a builtin): reaching that read raises NameError - %s"
                 % (ub[0][0], ub[0][2], consequence)) if ub else "")
