"""C11 — A batch behaves like the same calls made one after another."""
import ast
from ..engine.model import AnalysisError, dotted
from ..engine.context import unparse, enclosing_stmt, stores_in, names_in, enclosing_loops
from ..engine.cfg import walk_no_nested, calls_in, facts_of, no_exc
from .c03 import edge_has_fact

EXPLANATION = (
    "Loop-shape analysis. Decided: in the server's batch loop the exposure gate is applied per call, inside the loop, "
    "immediately governing that call (so calls before a refused name still run, as they would one by one); the handler of a "
    "failing call appends exactly one wrapper and leaves the loop, the success path appends the result, and nothing else "
    "appends — results are in call order and nothing runs after the first failure; the wrapper class written is the class the "
    "client tests (shared with C07-R5); batch/oneway flags agree on both sides; BatchProxy submits the collected calls once "
    "and clears them on every path; the batch envelope (kwargs slot None) is accepted by every serializer's dumpsCall/loadsCall."
    'Also decided: the call list is dropped also when the submission raises; BatchProxy.__copy__ does not share the call list; marshal converts the members of batch containers. '
    "Also decided (round 7): The proxy's call list is emptied in place, never re-bound (batched method objects obtained earlier keep queueing into it). "
    "Also decided (round 9): The success path appends the call's result itself; the wrapper's payload is encoded by class_to_dict. "
    "Not decided: equivalence of effects with sequential execution on a stateful object."
)


def run(ctx, R, tier):
    p = ctx.p
    R.rule("C11-R1", "the exposure gate is applied per call inside the batch loop and governs that call (shared with C02-R1)", floor=2)
    R.rule("C11-R2", "stop at first failure: the handler appends one wrapper and breaks; the success path appends the result; no other append", floor=3)
    R.rule("C11-R3", "the wrapper class written by the server is the class the client re-raises (shared with C07-R5)", floor=3)
    R.rule("C11-R5", "the (name, args, kwargs) triple is written by the client and unpacked by the server in the same order", floor=1)
    R.rule("C11-R6", "for every serializer: the batch envelope (kwargs=None) is accepted by dumpsCall/loadsCall, and marshal converts the members of the batch containers (shared with C01-R9/R10)", floor=10)
    R.rule("C11-R4", "flags: batched replies carry FLAGS_BATCH; the client sets FLAGS_BATCH (+ONEWAY); BatchProxy clears its calls after every submit; oneway returns nothing", floor=5)

    # decided first (it does not depend on the shape of the batch loop): a batched call takes exactly the keyword arguments the same call takes on its own - no function
    # on the way to the user's method receives the user's **kwargs next to named parameters of its own (shared with C01-R7): `batch.request(url, method="POST")` must
    # not fail where `proxy.request(url, method="POST")` works
    from ..report import Rules as _RulesK
    from ..report import run_shared as _run_sharedK
    from . import c01 as _c01K
    R1K = _RulesK("C01")
    try:
        _run_sharedK(ctx, _c01K, R1K, tier)
    except AnalysisError as _shared_x:
        R.note("obligations shared from C01 are incomplete on this tree: %s" % _shared_x)
    for o in R1K.obs:
        if o.rule == "C01-R7" and o.key.endswith("|user-keywords-cannot-collide"):
            R.add("C11-R5", "%s|user-keywords-cannot-collide" % o.key.split("|")[1], o.desc + " (a batched call accepts the same keywords as the call made directly)", o.ok, o.loc, o.detail)
    hr = ctx.fn("Pyro5.server.Daemon.handleRequest")
    cfg = ctx.cfg(hr)
    rd = ctx.rd(hr)
    loops = [n for n in walk_no_nested(hr.node) if isinstance(n, ast.For)]

    def batch_true(atom, pol):
        return pol is True and isinstance(atom, ast.BinOp) and isinstance(atom.op, ast.BitAnd) and \
            any(ctx.resolves_to_object(x, hr, "Pyro5.protocol.FLAGS_BATCH") for x in (atom.left, atom.right))
    batch = [lp for lp in loops if all(cfg.guarded(n, lambda e: edge_has_fact(e, batch_true)) for n in cfg.nodes if n.kind == "for" and n.ast is lp)]
    if len(batch) != 1:
        raise AnalysisError("handleRequest: expected exactly one loop under the FLAGS_BATCH edge, found %d" % len(batch))
    lp = batch[0]

    # ---------------------------------------------------------------- R1
    dyn = [c for c, tgs in ctx.cg.calls_of(hr) if isinstance(c.func, ast.Name) and any(t.kind == "dyn" for t in tgs) and lp in enclosing_loops(c, hr.node)]
    if len(dyn) != 1:
        raise AnalysisError("batch loop: expected one dynamic method call, found %d" % len(dyn))
    call = dyn[0]
    gates = [c for c in ctx.calls_to(hr, "Pyro5.server._get_attribute") if lp in enclosing_loops(c, hr.node)]
    R.check(len(gates) == 1, "C11-R1", "batch|gate-inside-loop", "one _get_attribute call per iteration, inside the loop", hr.loc(lp),
            "the names of a batch are resolved outside the loop: a name that is refused makes the whole batch fail before the earlier calls ran "
            "(sequentially those calls would have executed)")
    ok = False
    why = "the call in the batch loop does not take its callee from this iteration's _get_attribute"
    if gates:
        for node in ctx.node_of(hr, call):
            defs = rd.reaching(node, call.func.id)
            ok = bool(defs) and all(d.kind == "assign" and isinstance(d.value, ast.Call) and d.value is gates[0] for d in defs)
            if ok:
                # the looked-up name is this iteration's own name (loop target), not something computed before the loop
                a1 = gates[0].args[1] if len(gates[0].args) > 1 else None
                gnode = ctx.node_of(hr, gates[0])[0]
                nd = rd.reaching(gnode, a1.id) if isinstance(a1, ast.Name) else []
                ok = bool(nd) and all(d.kind == "for" and d.node.ast is lp for d in nd)
                why = "the gate does not look up this iteration's method name"
    R.check(ok, "C11-R1", "batch|gate-governs-call", "the callee of each batched call is the gate's result for that call's own name", hr.loc(call), why)

    # ---------------------------------------------------------------- R2
    trys = [t for t in ast.walk(lp) if isinstance(t, ast.Try)]
    T = None
    for t in trys:
        if any(x is call for st in t.body for x in ast.walk(st)):
            T = t
    if T is None or not T.handlers:
        raise AnalysisError("batch loop: the method call is not inside a try with a handler")
    resvar = None
    appends = [c for c, _ in ctx.cg.calls_of(hr) if isinstance(c.func, ast.Attribute) and c.func.attr == "append" and lp in enclosing_loops(c, hr.node)]
    if appends:
        resvar = unparse(appends[0].func.value)
    H = T.handlers[0]
    h_app = [c for c in appends if _inside(c, H)]
    ok = len(h_app) == 1 and isinstance(H.body[-1], ast.Break) and len(T.handlers) == 1
    why = "handler appends %d time(s); last statement is %s" % (len(h_app), type(H.body[-1]).__name__ if H.body else "-")
    if ok:
        classes = [ctx.escape.class_of_expr(t, hr) for t in (H.type.elts if isinstance(H.type, ast.Tuple) else [H.type])] if H.type is not None else ["builtins.BaseException"]
        if not any(c and ctx.escape.is_sub("builtins.Exception", c) for c in classes):
            ok = False
            why = "the batch handler catches only %s: other exceptions of a batched call abort the whole batch instead of being reported at their position" % classes
    R.check(ok, "C11-R2", "batch|failure-appends-once-and-breaks", "a failing call appends exactly one wrapper and ends the loop", hr.loc(H),
            "after a failing call the batch goes on (or reports nothing): " + why)
    e_app = [c for c in appends if any(_inside(c, st) for st in T.orelse)] + [c for c in appends if any(_inside(c, st) for st in T.body)]
    others = [c for c in appends if c not in h_app and c not in e_app]
    ok = len(e_app) == 1 and not others and all(unparse(c.func.value) == resvar for c in appends)
    if ok:
        a = e_app[0].args[0] if e_app[0].args else None
        defs_ = [d for n in ctx.node_of(hr, e_app[0]) for d in rd.reaching(n, a.id)] if isinstance(a, ast.Name) else []
        ok = bool(defs_) and all(d.kind == "assign" and d.value is call for d in defs_)
    R.check(ok, "C11-R2", "batch|success-appends-result", "the success path appends that call's result itself (not a conversion of it), and nothing else appends", hr.loc(T),
            "%d success appends, %d other appends in the batch loop, or the appended value is not (only) what the method returned: a batched call's result differs from "
            "the same call made on its own" % (len(e_app), len(others)))
    inits = [st for st, t, k in stores_in(hr.node) if k == "assign" and unparse(t) == resvar and isinstance(st.value, ast.List) and not st.value.elts]
    ok = bool(inits) and all(cfg.guarded(n, lambda e: edge_has_fact(e, batch_true)) for st in inits for n in cfg.nodes_for(st)) and \
        not any(lp in enclosing_loops(st, hr.node) for st in inits)
    R.check(ok, "C11-R2", "batch|fresh-result-list", "the result list is created empty right before the loop", hr.loc(), "the batch result list is not a fresh list per request")

    # ---------------------------------------------------------------- R5
    bm = ctx.fn("Pyro5.client._BatchedRemoteMethod.__call__")
    apps = [c for c, _ in ctx.cg.calls_of(bm) if isinstance(c.func, ast.Attribute) and c.func.attr == "append" and c.args and isinstance(c.args[0], ast.Tuple)]
    ok = len(apps) == 1 and len(apps[0].args[0].elts) == 3
    why = "the client does not queue (name, args, kwargs) triples"
    if ok:
        e = apps[0].args[0].elts
        va = bm.node.args.vararg.arg if bm.node.args.vararg else None
        kw = bm.node.args.kwarg.arg if bm.node.args.kwarg else None
        client_order = ["name" if "name" in unparse(e[0]) else "?", "args" if unparse(e[1]) == va else "?", "kwargs" if unparse(e[2]) == kw else "?"]
        tg = lp.target.elts if isinstance(lp.target, ast.Tuple) else []
        srv = ["?", "?", "?"]
        if len(tg) == 3:
            names = [unparse(x) for x in tg]
            if gates and len(gates[0].args) > 1 and unparse(gates[0].args[1]) == names[0]:
                srv[0] = "name"
            st_args = [a for a in call.args if isinstance(a, ast.Starred)]
            if st_args and unparse(st_args[0].value) == names[1]:
                srv[1] = "args"
            kws = [k for k in call.keywords if k.arg is None]
            if kws and unparse(kws[0].value) == names[2]:
                srv[2] = "kwargs"
        ok = client_order == srv == ["name", "args", "kwargs"]
        why = "client queues %s, server unpacks %s" % (client_order, srv)
    R.check(ok, "C11-R5", "batch|triple-order", "a batched call travels as (name, args, kwargs) and is applied as method(*args, **kwargs)", bm.loc(), why)

    # ---------------------------------------------------------------- R3 (shared with C07-R5)
    from ..report import Rules
    from ..report import run_shared as _run_shared
    from . import c07
    R7 = Rules("C07")
    try:
        _run_shared(ctx, c07, R7, tier)
    except AnalysisError as _shared_x:
        # the other property's own anchors are gone on this tree: its check reports that; what it produced before is still shared
        R.note("obligations shared from C07 are incomplete on this tree: %s" % _shared_x)
    for o in R7.obs:
        if o.rule == "C07-R5":
            R.add("C11-R3", o.key.split("|", 1)[1], o.desc, o.ok, o.loc, o.detail)

    cb = ctx.fn("Pyro5.compatibility.Pyro4.BatchProxy.__call__")
    sup = [c for c in walk_no_nested(cb.node) if isinstance(c, ast.Call) and isinstance(c.func, ast.Attribute) and c.func.attr == "__call__"]
    owp = "oneway" if "oneway" in cb.params else None
    okc = owp is not None and len(sup) == 1 and ((sup[0].args and unparse(sup[0].args[0]) == owp) or any(k.arg == "oneway" and unparse(k.value) == owp for k in sup[0].keywords))
    R.check(okc, "C11-R4", "compatibility.BatchProxy.__call__|oneway-passed-through", "the Pyro4-style batch hands its own `oneway` argument to BatchProxy.__call__", cb.loc(),
            "the compatibility BatchProxy does not pass its `oneway` flag on (`%s`): a oneway batch is sent as a normal one, blocks and returns results" % (unparse(sup[0], 60) if sup else "?"))
    from .common import copy_does_not_alias
    copy_does_not_alias(ctx, R, "C11-R4", "Pyro5.client.BatchProxy", "calls queued on one of them are also submitted by the other")
    # ---------------------------------------------------------------- R6 (shared with C01-R9)
    from . import c01
    R1 = Rules("C01")
    try:
        _run_shared(ctx, c01, R1, tier)
    except AnalysisError as _shared_x:
        # the other property's own anchors are gone on this tree: its check reports that; what it produced before is still shared
        R.note("obligations shared from C01 are incomplete on this tree: %s" % _shared_x)
    for o in R1.obs:
        if o.rule == "C01-R9":
            R.add("C11-R6", o.key.split("|", 1)[1], o.desc + " (a batch request carries kwargs=None: it must work with every serializer)", o.ok, o.loc, o.detail)
        if o.rule == "C01-R10":
            R.add("C11-R6", o.key.split("|", 1)[1], o.desc + " (batch requests and replies are containers of calls / results / exception wrappers)", o.ok, o.loc, o.detail)

    # ---------------------------------------------------------------- R4
    batch_true_nodes = lambda st: all(cfg.guarded(n, lambda e: edge_has_fact(e, batch_true)) for n in cfg.nodes_for(st))
    wb = [st for st, t, k in stores_in(hr.node) if k == "assign" and isinstance(t, ast.Name) and isinstance(st.value, ast.Constant) and st.value.value is True
          and batch_true_nodes(st)]
    wbvar = wb[0].targets[0].id if wb else None
    ok = len(wb) == 1 and all(cfg.guarded(n, lambda e: edge_has_fact(e, batch_true)) for n in cfg.nodes_for(wb[0]))
    fl = [st for st, t, k in stores_in(hr.node) if k == "aug" and isinstance(st.op, ast.BitOr) and ctx.resolves_to_object(st.value, hr, "Pyro5.protocol.FLAGS_BATCH")]

    def was_batched(atom, pol):
        return pol is True and isinstance(atom, ast.Name) and atom.id == wbvar
    ok = ok and len(fl) == 1 and all(cfg.guarded(n, lambda e: edge_has_fact(e, was_batched)) for n in cfg.nodes_for(fl[0]))
    R.check(ok, "C11-R4", "server|reply-flag", "a batched request is answered with FLAGS_BATCH", hr.loc(), "the reply of a batch is not marked with FLAGS_BATCH (or a normal reply is)")
    ib = ctx.fn("Pyro5.client.Proxy._pyroInvokeBatch")
    icfg = ctx.cfg(ib)
    f0 = [st for st, t, k in stores_in(ib.node) if k == "assign" and isinstance(t, ast.Name) and ctx.resolves_to_object(st.value, ib, "Pyro5.protocol.FLAGS_BATCH")]
    ow = [st for st, t, k in stores_in(ib.node) if k == "aug" and isinstance(st.op, ast.BitOr) and ctx.resolves_to_object(st.value, ib, "Pyro5.protocol.FLAGS_ONEWAY")]

    def oneway_true(atom, pol):
        return pol is True and isinstance(atom, ast.Name) and atom.id == "oneway"
    inv = ctx.calls_to(ib, "Pyro5.client.Proxy._pyroInvoke")
    ok = len(f0) == 1 and len(ow) == 1 and all(icfg.guarded(n, lambda e: edge_has_fact(e, oneway_true)) for n in icfg.nodes_for(ow[0])) and len(inv) == 1 and \
        len(inv[0].args) >= 4 and unparse(inv[0].args[3]) == f0[0].targets[0].id and unparse(inv[0].args[1]) == ib.params[1]
    R.check(ok, "C11-R4", "client|request-flags", "_pyroInvokeBatch sends the calls with FLAGS_BATCH, plus FLAGS_ONEWAY exactly for oneway", ib.loc(), "batch request flags are wrong")
    for mname in ("__call__", "_pyroInvoke"):
        bc = ctx.fn("Pyro5.client.BatchProxy." + mname)
        bcfg = ctx.cfg(bc)
        sub = [c for c, _ in ctx.cg.calls_of(bc) if isinstance(c.func, ast.Attribute) and c.func.attr == "_pyroInvokeBatch"]
        resets = [n for st, t, k in stores_in(bc.node) if k == "assign" and unparse(t) == "self.__calls" and isinstance(st.value, (ast.List, ast.Call)) for n in bcfg.nodes_for(st)]
        resets += [n for c, _ in ctx.cg.calls_of(bc) if unparse(c.func) == "self.__calls.clear" for n in ctx.node_of(bc, c)]
        ok = len(sub) >= 1 and not any(enclosing_loops(c, bc.node) for c in sub)
        why = "%d submit sites" % len(sub)
        if ok:
            sn = [n for c in sub for n in ctx.node_of(bc, c)]
            ok = bool(resets) and bcfg.all_paths_pass(sn, lambda n: n in resets, edge_ok=no_exc, targets=[bcfg.exit])
            why = "after a submit the collected calls are not cleared on every path (e.g. the oneway path): the next submit through this BatchProxy " \
                  "executes them again"
            if ok and not all(c.args and unparse(c.args[0]) == "self.__calls" for c in sub):
                ok = False
                why = "the submitted calls are not the collected ones"
            if ok and bcfg.path_exists(sn, lambda n: n in sn, edge_ok=no_exc):
                ok = False
                why = "the batch can be submitted twice by one call"
        R.check(ok, "C11-R4", "BatchProxy.%s|submit-once-and-clear" % mname, "the collected calls are submitted once and cleared on every path", bc.loc(), why)
        if sub:
            okx = bool(resets) and bcfg.all_paths_pass(sn, lambda n: n in resets, targets=[bcfg.exit, bcfg.raise_exit])
            R.check(okx, "C11-R4", "BatchProxy.%s|cleared-also-when-the-submission-raises" % mname, "also when the submission raises, the collected calls are dropped before the method is left",
                    bc.loc(), "when the submission raises (an unexposed name after calls that did run, a lost connection) the calls stay queued: the next use of this BatchProxy "
                    "executes the already executed prefix again")
    # the batched method objects a caller holds (`add = batch.add`) share the proxy's call list: it is emptied in place, never re-bound - a fresh list after a
    # submission would leave every method object obtained earlier appending to the old one, and its calls would silently never be sent
    bp = p.cls("Pyro5.client.BatchProxy")
    rebinds = []
    for mname, m in sorted(bp.methods.items()):
        for st, t, k in stores_in(m.node):
            if isinstance(t, ast.Attribute) and t.attr.endswith("__calls") and isinstance(t.value, ast.Name) and t.value.id == m.self_name and mname != "__init__":
                rebinds.append((m, st))
    R.check(not rebinds, "C11-R4", "BatchProxy|call-list-never-rebound", "outside __init__ the proxy's own call list is emptied in place (clear()), never replaced by another list",
            rebinds[0][0].loc(rebinds[0][1]) if rebinds else bp.module.relpath,
            ("`%s` in BatchProxy.%s replaces the list that previously obtained batched-method objects append to: calls queued through them after this point are lost without any error"
             % (unparse(rebinds[0][1]), rebinds[0][0].name)) if rebinds else "")
    bc = ctx.fn("Pyro5.client.BatchProxy.__call__")
    bcfg = ctx.cfg(bc)

    def not_oneway(atom, pol):
        return pol is False and isinstance(atom, ast.Name) and atom.id == "oneway"
    rets = [n for n in bcfg.nodes if n.kind == "stmt" and isinstance(n.ast, ast.Return) and n.ast.value is not None]
    ok = bool(rets) and all(bcfg.guarded(n, lambda e: edge_has_fact(e, not_oneway)) for n in rets)
    R.check(ok, "C11-R4", "BatchProxy.__call__|oneway-returns-nothing", "results are returned only for a non-oneway batch", bc.loc(), "a oneway batch returns results")


def _inside(node, container):
    n = node
    while n is not None:
        if n is container:
            return True
        n = getattr(n, "_parent", None)
    return False
