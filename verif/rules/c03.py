"""C03 — A call returns its own reply or fails; never another call's answer."""
import ast
from ..engine.model import AnalysisError, dotted
from ..engine.context import unparse, enclosing_stmt, stores_in, names_in, enclosing_trys, enclosing_loops
from ..engine.cfg import walk_no_nested, calls_in, facts_of, no_exc, handler_is_catch_all

EXPLANATION = (
    "Decided: in Proxy._pyroInvoke the sequence check dominates every reply-carrying exit and raises exactly when the numbers "
    "differ; the whole send..receive..decode region lies in a try whose CommunicationError/KeyboardInterrupt handler always "
    "releases the connection before re-raising, and release closes and forgets the connection; one 16-bit increment per request "
    "dominating the request message built from it; oneway neither reads nor writes a reply (client and server); every reply the "
    "server builds echoes the received sequence number and serializer; the retry loop is bounded and limited to "
    "connection-closed/timeout; the receive filter raises before the body is read and the client accepts only MSG_RESULT; a "
    "released proxy reconnects before its next send; one thread per oneway request; only construction and the per-request increment "
    "write the sequence counter; the server remembers the request's flags/seq/serializer before anything in the guarded region can fail. "
    'Also decided: at most one reply per request and a failed receive leaves handleRequest; the 6-byte prefix is read and validated before the rest of the header; a missing CommunicationError handler in _pyroInvoke is a violation. '
    'Also decided (round 7): A _RemoteMethod (which captures the retry budget) is built per access and returned or called, never stored. '
    'Also decided (round 8): The retry budget is stored exactly as given (0 is a setting); PYRO_* environment settings are stored as converted, not through a truthiness fallback. '
    'Also decided (round 11): The proxy adopts a new connection only on the CONNECTOK branch of the handshake answer; every name read in client.py / protocol.py is bound somewhere (symbol tables). '
    "Also decided (round 10): The retry loop of _RemoteMethod only ever re-invokes Proxy._pyroInvoke (never a sender that consumes its input, like BatchProxy._pyroInvoke); a stream item is answered with what this call's next() produced (shared from C10). "
    'Also decided (round 12): Sequence check, serializer check and decoding of the reply run inside the body of the try whose handler releases the connection (not in its else-clause or after it); a failed stream fetch never turns later fetches into an invented end of the stream (shared from C10). '
    "Not decided: execution counts under fault scripts, what the transport delivers."
)

ONEWAY = "Pyro5.protocol.FLAGS_ONEWAY"


def flag_fact(ctx, f, atom, flag, varnames=None):
    """atom is `<var> & <flag>`"""
    if isinstance(atom, ast.BinOp) and isinstance(atom.op, ast.BitAnd):
        for a, b in ((atom.left, atom.right), (atom.right, atom.left)):
            if ctx.resolves_to_object(b, f, flag):
                if varnames is None or unparse(a) in varnames:
                    return True
    return False


def edge_has_fact(edge, pred):
    if edge.test is None:
        return False
    for t in edge.tests():
        if any(pred(atom, pol) for atom, pol in facts_of(t, edge.polarity)):
            return True
    from ..engine.guards import edge_forces
    return edge_forces(edge, [pred])


def edge_implies_any(edge, preds):
    """Does crossing this branch edge imply that at least one of the facts `preds` holds?  Handles the disjunctive cases:
    the false edge of `a and b` implies (not a) or (not b); the true edge of `a or b` implies a or b."""
    if edge.test is None:
        return False

    def holds(atom, pol):
        if any(pr(atom, pol) for pr in preds):
            return True
        if isinstance(atom, ast.BoolOp):
            if (isinstance(atom.op, ast.And) and pol is False) or (isinstance(atom.op, ast.Or) and pol is True):
                return all(any(holds(a2, p2) for a2, p2 in facts_of(v, pol)) for v in atom.values)
        return False
    for t in edge.tests():
        if any(holds(atom, pol) for atom, pol in facts_of(t, edge.polarity)):
            return True
    from ..engine.guards import edge_forces
    return edge_forces(edge, preds)


def run(ctx, R, tier):
    p = ctx.p
    es = ctx.escape
    R.rule("C03-R1", "client: the sequence check dominates every reply-carrying exit of _pyroInvoke and raises a CommunicationError exactly when the numbers differ", floor=5)
    R.rule("C03-R2", "client: send..receive..decode lie in one try whose CommunicationError/KeyboardInterrupt handler releases the connection on every path; release closes and forgets it", floor=5)
    R.rule("C03-R3", "client: exactly one `(seq + 1) & 0xffff` increment per request, dominating the request message that carries it", floor=2)
    R.rule("C03-R4", "oneway: the client returns before reading; the server sends nothing (every reply site except the ping answer is under the not-oneway edge)", floor=5)
    R.rule("C03-R5", "server: every reply echoes the sequence number and serializer of the received request", floor=6)
    R.rule("C03-R6", "retry loop: bounded by max_retries+1, handler limited to ConnectionClosedError/TimeoutError, re-raises on the last attempt", floor=3)
    R.rule("C03-R8", "recovery and exactly-once structure: a released proxy reconnects before the next send; one oneway thread per oneway request", floor=2)
    R.rule("C03-R7", "message type filter raises before the body is read; the client accepts exactly [MSG_RESULT]", floor=2)

    f = ctx.fn("Pyro5.client.Proxy._pyroInvoke")
    cfg = ctx.cfg(f)
    recv_calls = ctx.calls_to(f, "Pyro5.protocol.recv_stub")
    if len(recv_calls) != 1:
        raise AnalysisError("_pyroInvoke: expected exactly one recv_stub call")
    recv_stmt = enclosing_stmt(recv_calls[0])
    if not (isinstance(recv_stmt, ast.Assign) and isinstance(recv_stmt.targets[0], ast.Name)):
        raise AnalysisError("_pyroInvoke: received message not bound to a name")
    msgvar = recv_stmt.targets[0].id
    recv_nodes = ctx.node_of(f, recv_calls[0])

    # ---------------------------------------------------------------- R1
    seq_calls = [c for c in ctx.calls_to(f, "Pyro5.client.Proxy.__pyroCheckSequence")]
    good_seq = [c for c in seq_calls if len(c.args) == 1 and unparse(c.args[0]) == "%s.seq" % msgvar]
    R.check(bool(good_seq), "C03-R1", "_pyroInvoke|check-called", "the sequence check is called with the received message's seq", f.loc(),
            "no call self.__pyroCheckSequence(%s.seq) in _pyroInvoke" % msgvar)
    seq_nodes = [n for c in good_seq for n in ctx.node_of(f, c)]
    after = cfg.reachable(recv_nodes, edge_ok=no_exc)
    exits = []
    for n in cfg.nodes:
        if n.id in after and n.kind == "stmt" and isinstance(n.ast, (ast.Return, ast.Raise)) and n not in recv_nodes:
            exits.append(n)
    if len(exits) < 5:
        raise AnalysisError("_pyroInvoke: fewer exits after the receive than expected (%d)" % len(exits))
    for i, n in enumerate(sorted(exits, key=lambda n: n.lineno)):
        ok = any(cfg.dominates(s, n) for s in seq_nodes)
        R.check(ok, "C03-R1", "_pyroInvoke|exit:%s" % unparse(n.ast, 50), "exit after the receive is dominated by the sequence check", f.loc(n.ast),
                "`%s` can be reached with a reply whose sequence number was not compared with the request's" % unparse(n.ast, 60))
    g = ctx.fn("Pyro5.client.Proxy.__pyroCheckSequence")
    gcfg = ctx.cfg(g)
    seqparam = g.params[1] if len(g.params) > 1 else None
    raises = [n for n in gcfg.nodes if n.kind == "stmt" and isinstance(n.ast, ast.Raise)]
    ok = False
    for r in raises:
        cls = None
        e = r.ast.exc
        if isinstance(e, ast.Call):
            cls = es.class_of_expr(e.func, g)
        if cls and es.is_sub(cls, "Pyro5.errors.CommunicationError"):
            ok = True
    R.check(ok, "C03-R1", "__pyroCheckSequence|raises-commerror", "a mismatch raises a CommunicationError subclass (so that the connection is dropped)",
            g.loc(), "the sequence check does not raise a CommunicationError subclass")

    def eq_fact(atom, pol):
        if isinstance(atom, ast.Compare) and len(atom.ops) == 1:
            l, r = unparse(atom.left), unparse(atom.comparators[0])
            if {l, r} == {seqparam, "self._pyroSeq"}:
                if isinstance(atom.ops[0], ast.NotEq) and pol is False:
                    return True
                if isinstance(atom.ops[0], ast.Eq) and pol is True:
                    return True
        return False
    ok = gcfg.guarded(gcfg.exit, lambda e: edge_has_fact(e, eq_fact))
    R.check(ok, "C03-R1", "__pyroCheckSequence|returns-only-if-equal", "the check returns normally only on the edge where seq == self._pyroSeq", g.loc(),
            "the sequence check can return normally although the reply's number differs from the request's")

    # ---------------------------------------------------------------- R2
    send_calls = [c for c in ctx.calls_to(f, "Pyro5.socketutil.SocketConnection.send")]
    if not send_calls:
        raise AnalysisError("_pyroInvoke: send call vanished")
    region = None
    for t, part in enclosing_trys(recv_calls[0], f.node):
        if part == "body":
            region = t
    ok = region is not None
    why = "the receive is not inside a try"
    if ok:
        for c in send_calls:
            if not any(t is region and part == "body" for t, part in enclosing_trys(c, f.node)):
                ok = False
                why = "the request is sent outside the try whose handler releases the connection: a send failure leaves the dead connection on the proxy"
        # what is done with the reply (sequence check, serializer check, decoding) runs inside that same try body: in its else-clause, or after it, a failing check
        # raises its ProtocolError past the handler that releases the connection - the proxy keeps a connection whose stream is out of step
        after_recv = [c for c in walk_no_nested(f.node) if isinstance(c, ast.Call) and ((isinstance(c.func, ast.Attribute) and (c.func.attr.endswith("__pyroCheckSequence") or c.func.attr == "loads"))
                                                                                          or (isinstance(c.func, ast.Attribute) and c.func.attr in ("ProtocolError", "SerializeError")))]
        for c in after_recv:
            if not any(t is region and part == "body" for t, part in enclosing_trys(c, f.node)):
                ok = False
                why = "`%s` runs outside the body of the try whose handler releases the connection (in its else-clause or after it): when it raises, the proxy keeps the " \
                      "connection although the reply stream is out of step - every later call reads its predecessor's reply" % unparse(c, 60)
        # nothing after the region at function level that uses the reply
        top = region
        while getattr(top, "_parent", None) is not f.node:
            top = top._parent
        idx = f.node.body.index(top)
        if any(any(isinstance(n, ast.Call) for n in walk_no_nested(st)) for st in f.node.body[idx + 1:]):
            ok = False
            why = "code after the guarded region still runs calls"
    R.check(ok, "C03-R2", "_pyroInvoke|region", "send, receive and decoding lie in one guarded try", f.loc(region) if region is not None else f.loc(), why)
    if region is not None:
        covers_comm = covers_kbd = False
        rel_ok = True
        H = None
        for h in region.handlers:
            classes = [es.class_of_expr(t, f) for t in (h.type.elts if isinstance(h.type, ast.Tuple) else [h.type])] if h.type is not None else ["builtins.BaseException"]
            if any(c and es.is_sub("Pyro5.errors.CommunicationError", c) for c in classes):
                covers_comm = True
                H = h
            if any(c and es.is_sub("builtins.KeyboardInterrupt", c) for c in classes):
                covers_kbd = True
        R.check(covers_comm, "C03-R2", "_pyroInvoke|handler-covers-CommunicationError", "a handler of the region catches CommunicationError (whole subtree)",
                f.loc(region), "no handler of the send/receive region catches every CommunicationError")
        R.check(covers_kbd, "C03-R2", "_pyroInvoke|handler-covers-KeyboardInterrupt", "a handler of the region catches KeyboardInterrupt",
                f.loc(region), "KeyboardInterrupt during a call leaves the half-used connection on the proxy")
        if H is not None:
            hn = cfg.nodes_for(H)
            rel = [n for c in ctx.calls_to(f, "Pyro5.client.Proxy._pyroRelease") for n in ctx.node_of(f, c)]
            ok = bool(rel) and cfg.all_paths_pass(hn, lambda n: n in rel)
            R.check(ok, "C03-R2", "_pyroInvoke|release-on-every-path", "every path through the handler calls self._pyroRelease() before leaving", f.loc(H),
                    "the handler can leave _pyroInvoke without releasing the connection: the next call may read this call's late reply")
            ends = [n for st in H.body for n in walk_no_nested(st) if isinstance(n, ast.Raise)]
            R.check(bool(ends) and all(e.exc is None for e in ends), "C03-R2", "_pyroInvoke|handler-reraises", "the handler re-raises the error",
                    f.loc(H), "the handler swallows or replaces the communication error")
        else:
            R.fail("C03-R2", "_pyroInvoke|release-on-every-path", "every path through the handler calls self._pyroRelease() before leaving", f.loc(region),
                   "no handler catches the whole CommunicationError family, so e.g. a timeout or a protocol error leaves the used connection on the proxy: the next call reads this call's late reply")
            R.fail("C03-R2", "_pyroInvoke|handler-reraises", "the handler re-raises the error", f.loc(region), "no handler for the CommunicationError family")
    rel_fn = ctx.fn("Pyro5.client.Proxy._pyroRelease")
    closes = [c for c in ctx.calls_to(rel_fn, "Pyro5.socketutil.SocketConnection.close") if unparse(c.func) == "self._pyroConnection.close"]
    forgets = [st for st, t, k in stores_in(rel_fn.node) if k == "assign" and unparse(t) == "self._pyroConnection"
               and isinstance(st.value, ast.Constant) and st.value.value is None]
    R.check(bool(closes) and bool(forgets), "C03-R2", "_pyroRelease|close-and-forget", "_pyroRelease closes the connection and stores None", rel_fn.loc(),
            "_pyroRelease no longer closes the connection and resets self._pyroConnection to None")

    writers = sorted({g.qualname for g in p.functions.values() if g.module.name == "Pyro5.client" for st, t, k in stores_in(g.node) if unparse(t).endswith("._pyroSeq")})
    allowed_w = {"Pyro5.client.Proxy.__init__", "Pyro5.client.Proxy.__setstate__", "Pyro5.client.Proxy._pyroInvoke"}
    R.check(set(writers) <= allowed_w, "C03-R3", "_pyroSeq|writers", "the sequence counter is written only at construction and by the per-request increment", f.loc(),
            "%s also write(s) the sequence counter: after a release/reconnect the numbering can repeat, so a stale reply of an earlier call passes the sequence check" % sorted(set(writers) - allowed_w))
    # server: flags / seq / serializer of the request are known before anything in the guarded region can fail
    hq0 = ctx.fn("Pyro5.server.Daemon.handleRequest")
    hc0 = ctx.cfg(hq0)
    xf0 = ctx.exc_filter(hq0)
    cat0 = [t for t in hq0.node.body if isinstance(t, ast.Try) and any(handler_is_catch_all(h_) for h_ in t.handlers)]
    if not cat0:
        raise AnalysisError("handleRequest: catch-all try vanished")
    from ..engine.context import locals_assigned as _la
    for attr in ("flags", "seq", "serializer_id"):
        vs = _la(hq0, lambda v, attr=attr: isinstance(v, ast.Attribute) and v.attr == attr and isinstance(v.value, ast.Name))
        stn = [n for n in hc0.nodes if n.kind == "stmt" and isinstance(n.ast, ast.Assign) and isinstance(n.ast.value, ast.Attribute) and n.ast.value.attr == attr
               and any(isinstance(t, ast.Name) and t.id in vs for t in n.ast.targets) and any(_inside_try(n.ast, cat0[-1]) for _ in [0])]
        risky = [n for n in hc0.nodes if n.kind in ("stmt", "test", "for", "with") and n.ast is not None and _inside_body(n.ast, cat0[-1]) and
                 any(e.kind == "exc" and xf0(e) for e in n.succ)]
        ok = bool(stn) and all(any(hc0.dominates(s_, r_) for s_ in stn) for r_ in risky if r_ not in stn)
        R.check(ok, "C03-R5", "handleRequest|request-%s-known-before-failure" % attr, "the request's %s is stored in its local before any statement of the guarded region that can raise" % attr,
                hq0.loc(stn[0].ast) if stn else hq0.loc(),
                "a statement that can fail (e.g. deserialisation) runs before the request's %s is remembered: the error path then works with the initial value "
                "(a oneway request gets an error reply / the reply carries seq 0)" % attr)

    # ---------------------------------------------------------------- R8
    cc = ctx.calls_to(f, "Pyro5.client.Proxy.__pyroCreateConnection")

    def no_conn(atom, pol):
        if isinstance(atom, ast.Compare) and len(atom.ops) == 1 and unparse(atom.left) == "self._pyroConnection" and isinstance(atom.comparators[0], ast.Constant) \
                and atom.comparators[0].value is None:
            return (isinstance(atom.ops[0], ast.Is) and pol is True) or (isinstance(atom.ops[0], ast.IsNot) and pol is False)
        return False

    def has_conn(atom, pol):
        return no_conn(atom, not pol) if isinstance(atom, ast.Compare) else False
    send_nodes0 = [n for c in ctx.calls_to(f, "Pyro5.socketutil.SocketConnection.send") for n in ctx.node_of(f, c)]
    ccn = [n for c in cc for n in ctx.node_of(f, c)]
    ok = bool(ccn) and all(cfg.guarded(n, lambda e: edge_has_fact(e, no_conn)) for n in ccn) and \
        all(cfg.guarded(s_, lambda e: edge_has_fact(e, has_conn), edge_ok=None) or cfg.all_paths_pass([cfg.entry], lambda n: n in ccn or False, targets=[s_],
                                                                                                     edge_ok=lambda e: not edge_has_fact(e, has_conn)) for s_ in send_nodes0)
    R.check(ok, "C03-R8", "_pyroInvoke|reconnects-when-released", "a call on a released proxy first creates a new connection (new handshake) before it sends", f.loc(),
            "after a communication error released the connection, the next call does not reconnect before using self._pyroConnection")
    hq = ctx.fn("Pyro5.server.Daemon.handleRequest")
    ow = ctx.calls_to(hq, "Pyro5.server._OnewayCallThread.__init__")
    starts = [c for c, _ in ctx.cg.calls_of(hq) if isinstance(c.func, ast.Attribute) and c.func.attr == "start"]
    ok = len(ow) == 1 and len(starts) == 1 and starts[0].func.value is ow[0] and not enclosing_loops(ow[0], hq.node)
    R.check(ok, "C03-R8", "handleRequest|oneway-started-once", "a oneway request starts exactly one thread for its method, not in a loop", hq.loc(ow[0]) if ow else hq.loc(),
            "the oneway method can be started more than once (or not at all) for one request")

    # ---------------------------------------------------------------- R3
    seq_stores = [(st, t) for st, t, k in stores_in(f.node) if unparse(t) == "self._pyroSeq"]
    ok = len(seq_stores) == 1
    why = "%d stores to self._pyroSeq in _pyroInvoke" % len(seq_stores)
    if ok:
        st = seq_stores[0][0]
        v = st.value if isinstance(st, ast.Assign) else None
        form = False
        if isinstance(v, ast.BinOp) and isinstance(v.op, ast.BitAnd):
            for a, b in ((v.left, v.right), (v.right, v.left)):
                okc, val = ctx.const(b, f)
                if okc and val == 0xffff and isinstance(a, ast.BinOp) and isinstance(a.op, ast.Add):
                    parts = {unparse(a.left), unparse(a.right)}
                    if parts == {"self._pyroSeq", "1"}:
                        form = True
        if not form:
            ok = False
            why = "the store is not of the form (self._pyroSeq + 1) & 0xffff: `%s`" % unparse(st)
        if enclosing_loops(st, f.node):
            ok = False
            why = "the increment is inside a loop"
    R.check(ok, "C03-R3", "_pyroInvoke|one-increment", "exactly one 16-bit increment of the sequence counter", f.loc(seq_stores[0][0]) if seq_stores else f.loc(), why)
    sm = [c for c in ctx.calls_to(f, "Pyro5.protocol.SendingMessage.__init__")]
    ok = False
    why = "no request message is built from self._pyroSeq"
    for c in sm:
        if c.args and ctx.resolves_to_object(c.args[0], f, "Pyro5.protocol.MSG_INVOKE") and len(c.args) > 2 and unparse(c.args[2]) == "self._pyroSeq":
            ok = True
            if seq_stores:
                sn = cfg.nodes_for(seq_stores[0][0])
                for n in ctx.node_of(f, c):
                    if not any(cfg.dominates(s, n) for s in sn):
                        ok = False
                        why = "the request message can be built without a preceding increment"
    R.check(ok, "C03-R3", "_pyroInvoke|increment-dominates-request", "the increment dominates the MSG_INVOKE message built with self._pyroSeq",
            f.loc(sm[0]) if sm else f.loc(), why)

    # ---------------------------------------------------------------- R4 client
    def oneway_true(atom, pol):
        return pol is True and flag_fact(ctx, f, atom, ONEWAY, {"flags"})

    def oneway_false(atom, pol):
        return pol is False and flag_fact(ctx, f, atom, ONEWAY, {"flags"})
    ok = all(cfg.guarded(n, lambda e: edge_has_fact(e, oneway_false)) for n in recv_nodes)
    R.check(ok, "C03-R4", "_pyroInvoke|recv-only-if-not-oneway", "the client reads a reply only on the not-oneway edge", f.loc(recv_calls[0]),
            "a oneway call can reach recv_stub and consume a reply that belongs to another call")
    send_nodes = [n for c in send_calls for n in ctx.node_of(f, c)]
    rets = [n for n in cfg.nodes if n.kind == "stmt" and isinstance(n.ast, ast.Return) and n.id in cfg.reachable(send_nodes, edge_ok=no_exc)
            and cfg.guarded(n, lambda e: edge_has_fact(e, oneway_true))]
    R.check(bool(rets), "C03-R4", "_pyroInvoke|oneway-returns-after-send", "on the oneway edge the client returns right after sending", f.loc(),
            "no return under the `flags & FLAGS_ONEWAY` edge after the send")
    # ---------------------------------------------------------------- R4 server
    h = ctx.fn("Pyro5.server.Daemon.handleRequest")
    hcfg = ctx.cfg(h)
    from ..engine.context import locals_assigned
    srv_flagvars = set(locals_assigned(h, lambda v: isinstance(v, ast.Attribute) and v.attr == "flags"))
    if not srv_flagvars:
        raise AnalysisError("handleRequest: no local holds the request's flags (`x = msg.flags`)")

    def srv_oneway_false(atom, pol):
        return pol is False and flag_fact(ctx, h, atom, ONEWAY, srv_flagvars)

    def ping_true(atom, pol):
        if pol is True and isinstance(atom, ast.Compare) and len(atom.ops) == 1 and isinstance(atom.ops[0], ast.Eq):
            return any(ctx.resolves_to_object(x, h, "Pyro5.protocol.MSG_PING") for x in (atom.left, atom.comparators[0]))
        return False
    reply_sites = ctx.calls_to(h, "Pyro5.socketutil.SocketConnection.send") + ctx.calls_to(h, "Pyro5.server.Daemon._sendExceptionResponse")
    if len(reply_sites) < 5:
        raise AnalysisError("handleRequest: fewer reply sites than expected (%d)" % len(reply_sites))
    for i, c in enumerate(sorted(reply_sites, key=lambda c: c.lineno)):
        key = "handleRequest|reply-site:%s#%d" % (unparse(c.func), i)
        for n in ctx.node_of(h, c):
            if hcfg.guarded(n, lambda e: edge_has_fact(e, ping_true)):
                R.ok("C03-R4", key, "ping answer (exempt: a ping is never oneway-dispatched)", h.loc(c))
                continue
            ok = hcfg.guarded(n, lambda e: edge_has_fact(e, srv_oneway_false))
            R.check(ok, "C03-R4", key, "reply site is reachable only on the not-oneway edge", h.loc(c),
                    "the server can send a reply for a oneway request; the client never reads it, so the NEXT call on that connection receives it")

    # one request, at most one reply: after a reply went out no second reply site is reachable by normal control flow
    rnodes = [n for c in reply_sites for n in ctx.node_of(h, c)]
    noexc = lambda e: e.kind != "exc"
    twice = None
    for c in reply_sites:
        if hcfg.path_exists(ctx.node_of(h, c), lambda n: n in rnodes, edge_ok=noexc):
            twice = c
    R.check(twice is None, "C03-R4", "handleRequest|one-reply-per-request", "no reply site is followed (by normal control flow) by another one", h.loc(twice) if twice is not None else h.loc(),
            "after `%s` another reply can be sent for the same request (a missing return): the client reads the surplus message as the answer to its NEXT call" % (
                unparse(twice, 60) if twice is not None else ""))
    # a failed receive ends the request (and with it the connection): nothing is dispatched or answered for a message that was not read
    rc = ctx.calls_to(h, "Pyro5.protocol.recv_stub")
    ok = len(rc) == 1
    why = "recv_stub call vanished"
    if ok:
        rn = ctx.node_of(h, rc[0])
        others = [n for n in hcfg.nodes if n.kind == "stmt" and n not in rn and any(True for _ in calls_in(n))]
        # along exception edges out of the receive, no call statement may be reached without passing a re-raise
        reach = hcfg.path_exists(rn, lambda n: n in others and not any(isinstance(x, ast.Raise) for x in [n.ast]),
                                 edge_ok=lambda e, rn=rn: (e.src in rn and e.kind == "exc") or (e.src not in rn and e.kind != "exc"),
                                 node_blocked=lambda n: n.kind == "stmt" and isinstance(n.ast, ast.Raise))
        ok = not reach
        why = "when receiving the request fails, handleRequest goes on (dispatching / answering) instead of leaving: a timed-out idle connection gets an unsolicited error reply"
    R.check(ok, "C03-R4", "handleRequest|receive-failure-leaves", "an exception of recv_stub leaves handleRequest (it is re-raised, nothing else runs)", h.loc(rc[0]) if rc else h.loc(), why)

    # ---------------------------------------------------------------- R5
    srv = p.module("Pyro5.server")
    n_sm = 0
    for g in [x for x in p.functions.values() if x.module is srv]:
        for c in ctx.calls_to(g, "Pyro5.protocol.SendingMessage.__init__"):
            if not c.args:
                continue
            if not (ctx.resolves_to_object(c.args[0], g, "Pyro5.protocol.MSG_RESULT") or ctx.resolves_to_object(c.args[0], g, "Pyro5.protocol.MSG_PING")):
                continue
            n_sm += 1
            for idx, attr, what in ((2, "seq", "sequence number"), (3, "serializer_id", "serializer id")):
                if len(c.args) <= idx:
                    R.fail("C03-R5", "%s|%s#%d" % (g.qualname, attr, n_sm), "reply carries the request's " + what, g.loc(c), "argument missing")
                    continue
                ok, why = echo_ok(ctx, g, c, c.args[idx], attr)
                R.check(ok, "C03-R5", "%s|%s#%d" % (g.qualname, attr, n_sm), "reply carries the request's " + what, g.loc(c), why)
    if n_sm < 3:
        raise AnalysisError("server.py: fewer reply constructions than expected (%d)" % n_sm)

    # ---------------------------------------------------------------- R6
    rm = ctx.fn("Pyro5.client._RemoteMethod.__call__")
    loops = [n for n in walk_no_nested(rm.node) if isinstance(n, ast.For)]
    ok = len(loops) == 1
    why = "expected exactly one retry loop"
    if ok:
        lp = loops[0]
        it = lp.iter
        ok = isinstance(it, ast.Call) and isinstance(it.func, ast.Name) and it.func.id == "range" and len(it.args) == 1 and \
            isinstance(it.args[0], ast.BinOp) and isinstance(it.args[0].op, ast.Add) and \
            {unparse(it.args[0].left), unparse(it.args[0].right)} == {"self.__max_retries", "1"}
        why = "the retry loop does not iterate range(max_retries + 1): `%s`" % unparse(it)
    R.check(ok, "C03-R6", "_RemoteMethod.__call__|bounded", "at most max_retries+1 attempts", rm.loc(), why)
    trys = [n for n in walk_no_nested(rm.node) if isinstance(n, ast.Try)]
    allowed = {"Pyro5.errors.ConnectionClosedError", "Pyro5.errors.TimeoutError"}
    hs = [hh for t in trys for hh in t.handlers]
    ok = bool(hs)
    why = "no handler"
    for hh in hs:
        classes = [es.class_of_expr(t, rm) for t in (hh.type.elts if isinstance(hh.type, ast.Tuple) else [hh.type])] if hh.type is not None else ["<bare>"]
        if not set(classes) <= allowed:
            ok = False
            why = "the retry handler catches %s: errors that are not connection loss/timeouts would re-run the method" % sorted(set(map(str, classes)) - allowed)
    R.check(ok, "C03-R6", "_RemoteMethod.__call__|narrow", "retries only for ConnectionClosedError/TimeoutError", rm.loc(hs[0]) if hs else rm.loc(), why)
    ok = False
    rcfg = ctx.cfg(rm)
    for hh in hs:
        for n in [x for st in hh.body for x in walk_no_nested(st) if isinstance(x, ast.Raise) and x.exc is None]:
            def last_attempt(atom, pol):
                # `attempt >= max_retries` is read as `max_retries <= attempt` (canonical ordering), `==` in either order
                if isinstance(atom, ast.Compare) and len(atom.ops) == 1 and pol is True and isinstance(atom.ops[0], (ast.LtE, ast.Eq)) and loops \
                        and isinstance(loops[0].target, ast.Name):
                    sides = [unparse(atom.left), unparse(atom.comparators[0])]
                    if isinstance(atom.ops[0], ast.LtE):
                        return sides == ["self.__max_retries", loops[0].target.id]
                    return sorted(sides) == sorted(["self.__max_retries", loops[0].target.id])
                return False
            if all(rcfg.guarded(x, lambda e: edge_has_fact(e, last_attempt)) for x in rcfg.nodes_for(n)):
                ok = True
    R.check(ok, "C03-R6", "_RemoteMethod.__call__|reraise-last", "the error is re-raised on the last attempt", rm.loc(),
            "the last attempt's error is not re-raised under `attempt >= max_retries`: a failed call would return None")

    from .common import config_env_value_stored_as_converted
    config_env_value_stored_as_converted(ctx, R, "C03-R6", "MAX_RETRIES=0 (no retries) is a setting of this kind")
    # the budget a _RemoteMethod works with is the number it was given: 0 is a legal value ("do not retry"), so it is stored as it is - not through `x or default`,
    # a conditional on its truthiness or any other expression that maps 0 to something else
    rmi = ctx.fn("Pyro5.client._RemoteMethod.__init__")
    sts = [st for st, t, k in stores_in(rmi.node) if k == "assign" and isinstance(t, ast.Attribute) and t.attr.endswith("__max_retries")]
    okb = len(sts) == 1 and isinstance(sts[0].value, ast.Name) and sts[0].value.id in rmi.params
    R.check(okb, "C03-R6", "_RemoteMethod.__init__|budget-stored-as-given", "the retry budget is stored exactly as passed in (0 means no retry)", rmi.loc(sts[0]) if sts else rmi.loc(),
            "`%s`: a proxy whose _pyroMaxRetries is 0 gets another budget, so a call whose reply was lost is sent - and executed - again although retries were switched off"
            % (unparse(sts[0]) if sts else "no store of the budget"))
    # the retry budget is the proxy's current one: a _RemoteMethod captures _pyroMaxRetries when it is built, so it must be built per attribute access and
    # handed out, never remembered (in the proxy's __dict__, an attribute, a cache) where a later change of the setting would not reach it
    n_ctor = 0
    for g in [x for x in p.functions.values() if x.module.name == "Pyro5.client"]:
        for c in [x for x in walk_no_nested(g.node) if isinstance(x, ast.Call) and ctx.resolves_to_object(x.func, g, "Pyro5.client._RemoteMethod")]:
            n_ctor += 1
            st = enclosing_stmt(c)
            ok = (isinstance(st, ast.Return) and st.value is c) or (isinstance(getattr(c, "_parent", None), ast.Call) and c._parent.func is c)
            why = ""
            if not ok:
                kept = None
                if isinstance(st, ast.Assign) and len(st.targets) == 1 and isinstance(st.targets[0], ast.Name) and st.value is c:
                    nm = st.targets[0].id
                    uses = [x for x in walk_no_nested(g.node) if isinstance(x, ast.Name) and x.id == nm and isinstance(x.ctx, ast.Load)]
                    kept = [x for x in uses if not ((isinstance(enclosing_stmt(x), ast.Return) and enclosing_stmt(x).value is x) or
                                                    (isinstance(getattr(x, "_parent", None), ast.Call) and x._parent.func is x))]     # returned, or called on the spot
                    ok = bool(uses) and not kept
                why = "the _RemoteMethod built at %s is %s: it keeps the retry budget of the moment it was created, a later `proxy._pyroMaxRetries = 0` " \
                      "does not stop it from re-sending (and re-executing) a call" % (g.loc(c), "stored (`%s`)" % unparse(enclosing_stmt(kept[0])) if kept else "not simply returned")
            R.check(ok, "C03-R6", "%s|remote-method-not-remembered" % g.qualname.split("Pyro5.client.")[-1], "a _RemoteMethod is built per access and handed out, never stored", g.loc(c), why)
            # what the retry loop re-invokes must be re-invocable: Proxy._pyroInvoke builds the request anew from the arguments it is given each time. Any other sender
            # (BatchProxy._pyroInvoke empties its queue in a finally - the second attempt submits an EMPTY batch and the call returns normally without its results)
            # makes "retried" mean "something else was sent"
            snd = c.args[0] if c.args else None
            oks = snd is not None and ((g.cls is not None and g.cls.qualname == "Pyro5.client.Proxy" and unparse(snd) == "self._pyroInvoke") or
                                       (g.cls is not None and g.cls.qualname == "Pyro5.client._RemoteMethod" and isinstance(snd, ast.Attribute) and snd.attr.endswith("__send")))
            R.check(oks, "C03-R6", "%s|retry-loop-resends-through-Proxy._pyroInvoke" % g.qualname.split("Pyro5.client.")[-1],
                    "the sender handed to the retry loop is the proxy's own _pyroInvoke (the request is rebuilt from the same arguments on every attempt)", g.loc(c),
                    "`%s` puts `%s` under the retry loop of _RemoteMethod: that function is not written to be called twice for one call (a batch proxy clears its queued calls after the "
                    "first attempt, also a failed one) - after a connection error the retry sends something else and the call RETURNS, without having run its methods or without their results"
                    % (unparse(c, 80), unparse(snd, 50) if snd is not None else "nothing"))
    if n_ctor < 2:
        raise AnalysisError("client.py: fewer _RemoteMethod constructions than expected (%d)" % n_ctor)

    # ---------------------------------------------------------------- R7
    rs = ctx.fn("Pyro5.protocol.recv_stub")
    rcfg = ctx.cfg(rs)
    recvs = sorted(ctx.calls_to(rs, "Pyro5.socketutil.SocketConnection.recv"), key=lambda c: c.lineno)
    if len(recvs) not in (2, 3):
        raise AnalysisError("recv_stub: expected three recv calls (prefix, header rest, body), found %d" % len(recvs))
    R.check(len(recvs) == 3, "C03-R7", "recv_stub|prefix-read-and-validated-first", "the header is read in two steps: a short prefix that is validated, then the rest", rs.loc(recvs[0]),
            "the whole header is read before anything is validated: a peer that sends fewer bytes than a header (an HTTP probe, a wrong protocol version) gets no error and is "
            "not disconnected; the daemon waits for the remaining bytes")
    body_nodes = ctx.node_of(rs, recvs[-1])
    def type_accepted(atom, pol):
        if isinstance(atom, ast.Compare) and len(atom.ops) == 1 and unparse(atom.comparators[0]) == "accepted_msgtypes" and unparse(atom.left).endswith(".type"):
            return (isinstance(atom.ops[0], ast.NotIn) and pol is False) or (isinstance(atom.ops[0], ast.In) and pol is True)
        return False

    def no_filter(atom, pol):
        return pol is False and unparse(atom) == "accepted_msgtypes"
    filt = [n for n in rcfg.nodes if n.kind == "test" and any(type_accepted(a, pl) or type_accepted(a, not pl) for a, pl in facts_of(n.ast.test, True) + facts_of(n.ast.test, False)
                                                             if isinstance(a, ast.Compare)) or
            (n.kind == "test" and any(isinstance(x, ast.Compare) and isinstance(x.ops[0], (ast.NotIn, ast.In)) and unparse(x.comparators[0]) == "accepted_msgtypes" for x in ast.walk(n.ast.test)))]
    filt = filt[0] if filt else None
    ok = filt is not None
    why = "no `msg.type not in accepted_msgtypes` test in recv_stub"
    if ok:
        ok = all(rcfg.guarded(b_, lambda e: edge_implies_any(e, [type_accepted, no_filter])) for b_ in body_nodes) and \
            rcfg.guarded(rcfg.exit, lambda e: edge_implies_any(e, [type_accepted, no_filter]))
        why = "a message of a type that is not accepted is still read/returned (the type filter does not precede the read of the body)"
    R.check(ok, "C03-R7", "recv_stub|filter-before-body", "unaccepted message types raise before the body is read", rs.loc(filt.ast) if filt is not None else rs.loc(), why)
    arg = recv_calls[0].args[1] if len(recv_calls[0].args) > 1 else None
    ok = isinstance(arg, (ast.List, ast.Tuple)) and len(arg.elts) == 1 and ctx.resolves_to_object(arg.elts[0], f, "Pyro5.protocol.MSG_RESULT")
    R.check(ok, "C03-R7", "_pyroInvoke|accepts-only-MSG_RESULT", "the client accepts exactly [MSG_RESULT] as a call reply", f.loc(recv_calls[0]),
            "the client accepts other message types as the answer of a call: `%s`" % (unparse(arg) if arg is not None else "None"))

    # streamed results: a stream's table key is made fresh per stream; two streams of one conversation must not answer each other's item requests (shared with C10-R3)
    # the thread a oneway request is handed to really runs that request's call, once: Thread.__init__ is given `_methodcall` as its target (or run() calls it), and
    # everything `_methodcall` / run() read from the thread object was put there by __init__ from its parameters - a field that is never set makes the thread die
    # with AttributeError before the method is called: the client was told nothing (oneway) and the call never ran
    owc = p.cls("Pyro5.server._OnewayCallThread")
    oinit, omc = owc.methods.get("__init__"), owc.methods.get("_methodcall")
    if oinit is None or omc is None:
        raise AnalysisError("_OnewayCallThread.__init__ / _methodcall vanished")
    targets_mc = any(isinstance(c, ast.Call) and isinstance(c.func, ast.Attribute) and c.func.attr == "__init__" and
                     any(k.arg == "target" and unparse(k.value) == "%s._methodcall" % oinit.self_name for k in c.keywords) for c in walk_no_nested(oinit.node))
    orun = owc.methods.get("run")
    run_calls_mc = orun is not None and any(isinstance(c, ast.Call) and unparse(c.func) == "%s._methodcall" % orun.self_name for c in walk_no_nested(orun.node))
    set_in_init = {t.attr for st, t, k in stores_in(oinit.node) if isinstance(t, ast.Attribute) and isinstance(t.value, ast.Name) and t.value.id == oinit.self_name}
    read_later = set()
    for m_ in [x for x in (omc, orun) if x is not None]:
        for n in walk_no_nested(m_.node):
            if isinstance(n, ast.Attribute) and isinstance(n.value, ast.Name) and n.value.id == m_.self_name and isinstance(n.ctx, ast.Load) and n.attr.startswith(("pyro_", "parent_")):
                read_later.add(n.attr)
    unset = sorted(read_later - set_in_init)
    calls_m = [c for c in walk_no_nested(omc.node) if isinstance(c, ast.Call) and any(isinstance(a, ast.Starred) for a in c.args) and any(k.arg is None for k in c.keywords)]
    R.check((targets_mc or run_calls_mc) and not unset and len(calls_m) == 1, "C03-R8", "_OnewayCallThread|runs-the-call-it-was-given-once",
            "the oneway thread's target is _methodcall, which makes the one call from fields that __init__ has set (%d fields)" % len(read_later), oinit.loc(),
            ("the thread is not started on _methodcall" if not (targets_mc or run_calls_mc) else
             ("_methodcall / run read %s, which __init__ never sets: the thread dies with AttributeError before the method is called" % unset) if unset else
             "_methodcall makes %d calls of the request's method" % len(calls_m)) + " - a oneway request that was delivered is not executed exactly once")
    # the proxy adopts a connection only once the daemon has answered CONNECTOK: a connection published on the proxy earlier survives a refused or failed handshake as
    # `_pyroConnection` (closed, or never accepted) - "already connected" from then on: the next call is sent on it instead of reconnecting, and fails for ever
    cah3 = ctx.fn("Pyro5.client.Proxy.__pyroCreateConnection.connect_and_handshake")
    cfg3 = ctx.cfg(cah3)
    adopts = [st for st, t, k in stores_in(cah3.node) if k == "assign" and isinstance(t, ast.Attribute) and t.attr == "_pyroConnection"
              and not (isinstance(st.value, ast.Constant) and st.value.value is None)]
    if not adopts:
        raise AnalysisError("connect_and_handshake: the store of the new connection into the proxy vanished")

    def accepted(atom, pol):
        if isinstance(atom, ast.Compare) and len(atom.ops) == 1 and isinstance(atom.ops[0], (ast.Eq, ast.NotEq)):
            sides = [atom.left, atom.comparators[0]]
            if any(ctx.resolves_to_object(x, cah3, "Pyro5.protocol.MSG_CONNECTOK") for x in sides if isinstance(x, (ast.Attribute, ast.Name))):
                return (pol is True) == isinstance(atom.ops[0], ast.Eq)
        return False
    early_adopt = [st for st in adopts if not all(cfg3.guarded(n, lambda e: edge_has_fact(e, accepted)) for n in cfg3.nodes_for(st))]
    R.check(not early_adopt, "C03-R8", "connect_and_handshake|connection-adopted-only-after-CONNECTOK", "the proxy's _pyroConnection is set only on the CONNECTOK branch of the handshake answer",
            cah3.loc(early_adopt[0]) if early_adopt else cah3.loc(adopts[0]),
            "`%s` publishes the connection on the proxy before the daemon accepted it: after a refused, timed-out or broken handshake the proxy keeps that connection, "
            "takes itself for connected and sends the next call on it instead of connecting anew" % (unparse(early_adopt[0], 80) if early_adopt else ""))
    # a failed check must surface as the communication error it constructs: a name in the client or the wire code that nothing binds turns "reply out of sync" into NameError,
    # which the release-on-CommunicationError handler does not cover (the out-of-sync connection stays in use)
    from .common import names_bound
    names_bound(ctx, R, "C03-R1", {"Pyro5.client", "Pyro5.protocol"}, "a sequence / type / size check that fails does so with NameError instead of its ProtocolError, past the handler that releases the connection")
    from ..report import Rules
    from ..report import run_shared as _run_shared
    from . import c10
    R10 = Rules("C10")
    try:
        _run_shared(ctx, c10, R10, tier)
    except AnalysisError as _shared_x:
        # the other property's own anchors are gone on this tree: its check reports that; what it produced before is still shared
        R.note("obligations shared from C10 are incomplete on this tree: %s" % _shared_x)
    for o in R10.obs:
        if o.key == "C10-R3|_streamResponse|fresh-id":
            R.add("C03-R5", "_streamResponse|fresh-id", o.desc + " (an item request must never be answered from another call's stream)", o.ok, o.loc, o.detail)
        elif o.key == "C10-R6|__next__|drops-proxy-on-exhaustion":
            R.add("C03-R5", "__next__|ends-the-stream-only-on-the-server's-StopIteration", o.desc + " (a failed fetch raises its communication error; it never turns later fetches into a locally "
                  "invented end of the stream)", o.ok, o.loc, o.detail)
        elif o.key == "C10-R1|get_next_stream_item|returns-only-what-next-produced":
            R.add("C03-R5", "get_next_stream_item|answers-with-this-call's-item", o.desc + " (an item request is answered with its own item, never with the reply to an earlier request)", o.ok, o.loc, o.detail)


def _inside_try(node, t):
    n = node
    while n is not None:
        if n is t:
            return True
        n = getattr(n, "_parent", None)
    return False


def _inside_body(node, t):
    n = node
    child = node
    while n is not None:
        if n is t:
            return child in t.body
        child = n
        n = getattr(n, "_parent", None)
    return False


def echo_ok(ctx, g, call, arg, attr, depth=0):
    """is `arg` (seq / serializer_id argument of a reply construction in function g) an echo of the received request?"""
    if isinstance(arg, ast.Attribute) and arg.attr == attr:
        return True, ""
    if isinstance(arg, ast.Constant):
        return False, "the reply is built with the constant %r instead of the request's %s" % (arg.value, attr)
    if isinstance(arg, ast.Name):
        cfg = ctx.cfg(g)
        rd = ctx.rd(g)
        recv = ctx.calls_to(g, "Pyro5.protocol.recv_stub")
        recv_nodes = [n for c in recv for n in ctx.node_of(g, c)]
        for node in ctx.node_of(g, call):
            for d in rd.reaching(node, arg.id):
                if d.kind == "param":
                    if depth > 1:
                        return False, "parameter chain too deep"
                    idx = g.params.index(arg.id)
                    sites = ctx.cg.callers_of(g.qualname)
                    if not sites:
                        return False, "no call site passes %s" % arg.id
                    for caller, c2 in sites:
                        pos = idx - (1 if g.self_name else 0)
                        a2 = c2.args[pos] if pos < len(c2.args) else None
                        for k in c2.keywords:
                            if k.arg == arg.id:
                                a2 = k.value
                        if a2 is None:
                            return False, "call at %s does not pass %s" % (caller.loc(c2), arg.id)
                        ok, why = echo_ok(ctx, caller, c2, a2, attr, depth + 1)
                        if not ok:
                            return False, "via %s: %s" % (caller.loc(c2), why)
                    continue
                if d.kind in ("assign",) and isinstance(d.value, ast.Attribute) and d.value.attr == attr:
                    continue
                if d.kind == "assign" and d.value is not None and d.node is not None and recv_nodes and \
                        all(d.node.id not in cfg.reachable([r]) for r in recv_nodes):
                    # initialiser before the receive (the value used when not even a header could be read)
                    continue
                return False, "%s may hold `%s` (assigned at %s), which is not the received request's %s" % (
                    arg.id, unparse(d.value) if d.value is not None else d.kind, g.loc(d.node.ast) if d.node is not None else "?", attr)
        return True, ""
    return False, "unrecognised %s expression `%s`" % (attr, unparse(arg))
