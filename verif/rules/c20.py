"""C20 — The HTTP gateway forwards only authorised requests, and forwards them faithfully."""
import ast
from ..engine.model import AnalysisError, dotted
from ..engine.context import unparse, enclosing_stmt, stores_in, enclosing_loops, enclosing_trys, names_in
from ..engine.cfg import walk_no_nested, calls_in, facts_of, no_exc, handler_is_catch_all
from .c03 import edge_has_fact, edge_implies_any

EXPLANATION = (
    "Decided: in process_pyro_request every Pyro-traffic sink (name server access, lookup, proxy construction, metadata fetch, "
    "attribute access and invocation on the proxy) is dominated by the key gate (no key configured, or presented key == "
    "configured key) and by the expose-pattern gate (no pattern, or re.match anchored at the start of the object name); the "
    "refusal edges answer 403 and return; the keyless index page is reachable only for the empty path and filters its listing "
    "by the same pattern, which the name server applies with match() like the gate; redirect/options/405/404 handlers and every path of pyro_app outside GET/POST under pyro/ reach no "
    "sink; the member that is invoked is the second group of the path match, the keyword arguments are the parsed query "
    "parameters from which exactly $key is removed whenever a key is configured; one invocation per request, none for $meta; "
    "status 500 on the exception flag and in the catch-all, 200 otherwise; the key is compared as UTF-8 bytes, header before "
    "$key."
    "Also decided: the requested name cannot resolve to the proxy's own attributes; the cached name server proxy is validated; blank query values are kept; the reply body is bytes; the raw wire response is requested and honoured. "
    'Also decided (round 7): The presented key is compared with the configured one by equality; SQL the sqlite storage uses to answer a regex listing is held to the same literal-matching rule as the anchored pattern check. '
    "Not decided: HTTP parsing by wsgiref/urllib, what the operator's regex matches, JSON content."
    'Also decided (round 9): The forwarding proxy is constructed for the request. '
    'Also decided (round 11): String methods are called on the presented key only once it is known to be a str; the retry bound of the proxy method object is shared from C03 (one HTTP request, one invocation). '
    'Also decided (round 10): The json encoder behind the gateway encodes the whole result or raises (shared from C01). '
    'Also decided (round 12): No class of the gateway collects request data in a container shared by all its instances. '
)

GW = "Pyro5.utils.httpgateway"
SINK_FNS = {GW + ".get_nameserver", "Pyro5.client.Proxy.__init__", "Pyro5.core.locate_ns", "Pyro5.core.resolve", "Pyro5.client.Proxy._pyroInvoke",
            "Pyro5.client.Proxy._pyroGetMetadata", "Pyro5.client.Proxy._pyroBind", "Pyro5.client.BatchProxy.__init__"}


def run(ctx, R, tier):
    p = ctx.p
    R.rule("C20-R1", "every Pyro-traffic sink of process_pyro_request is dominated by the key gate and the expose-pattern gate; refusals answer 403; the index page is the only keyless path", floor=8)
    R.rule("C20-R2", "refusal handlers and all other paths of pyro_app reach no sink; process_pyro_request is entered only for GET/POST under pyro/", floor=6)
    R.rule("C20-R3", "faithful forwarding: member = parsed path group, kwargs = parsed query parameters minus $key, one invocation, none for $meta, status mapping", floor=6)
    R.rule("C20-R4", "key material: UTF-8 bytes comparison, header first then $key", floor=2)

    f = ctx.fn(GW + ".process_pyro_request")
    cfg = ctx.cfg(f)
    rd = ctx.rd(f)
    pathp, paramsp = f.params[1], f.params[2]

    # sinks
    sinks = []
    proxy_vars = set()
    for st, t, k in stores_in(f.node):
        if k == "with" and isinstance(t, ast.Name):
            proxy_vars.add(t.id)
    # the proxy that carries a request is made for that request (`with client.Proxy(uri) as proxy:`): per-request settings written onto it (the oneway option adds the
    # method to proxy._pyroOneway) must not survive into the next request through a kept proxy
    withs_ = [w for w in walk_no_nested(f.node) if isinstance(w, ast.With) and any(isinstance(it.optional_vars, ast.Name) and it.optional_vars.id in proxy_vars for it in w.items)]
    fresh_ = all(isinstance(it.context_expr, ast.Call) and ctx.resolves_to_object(it.context_expr.func, f, "Pyro5.client.Proxy")
                 for w in withs_ for it in w.items if isinstance(it.optional_vars, ast.Name) and it.optional_vars.id in proxy_vars)
    R.check(bool(withs_) and fresh_, "C20-R3", "proxy|made-for-this-request", "the forwarding proxy is constructed for the request (client.Proxy(uri) in the with statement)", f.loc(withs_[0]) if withs_ else f.loc(),
            "the request is forwarded through a proxy that is not constructed here (a kept / cached one): what one request set on it - e.g. the oneway option - applies to later requests")
    ns_vars = {t.id for st, t, k in stores_in(f.node) if k == "assign" and isinstance(t, ast.Name) and isinstance(st.value, ast.Call)
               and ctx.is_call_to(st.value, f, GW + ".get_nameserver")}
    for c, tgs in ctx.cg.calls_of(f):
        what = None
        if any(t.kind == "fn" and t.fn.qualname in SINK_FNS for t in tgs):
            what = unparse(c.func)
        elif isinstance(c.func, ast.Attribute) and isinstance(c.func.value, ast.Name) and c.func.value.id in (ns_vars | proxy_vars):
            what = unparse(c.func)
        elif isinstance(c.func, ast.Name) and c.func.id == "getattr" and c.args and isinstance(c.args[0], ast.Name) and c.args[0].id in proxy_vars:
            what = "getattr(%s, ...)" % c.args[0].id
        elif isinstance(c.func, ast.Call) and isinstance(c.func.func, ast.Name) and c.func.func.id == "getattr":
            what = "invoke " + unparse(c.func)
        if what:
            sinks.append((c, what))
    if len(sinks) < 5:
        raise AnalysisError("process_pyro_request: fewer Pyro-traffic sinks than expected (%d)" % len(sinks))

    keyvar = None
    for n in walk_no_nested(f.node):
        if isinstance(n, ast.Compare) and len(n.ops) == 1 and isinstance(n.ops[0], (ast.NotEq, ast.Eq)) and \
                "pyro_app.gateway_key" in (unparse(n.left), unparse(n.comparators[0])):
            other = n.comparators[0] if unparse(n.left) == "pyro_app.gateway_key" else n.left
            if isinstance(other, ast.Name):
                keyvar = other.id
            elif _utf8_encoded_name(other) is not None:
                # `presented.encode("utf-8") == configured`: the encoding written into the comparison itself
                keyvar = _utf8_encoded_name(other)
    eq_found = keyvar is not None
    if keyvar is None:
        # some other test against the configured key (membership, startswith ...): find the presented key's variable so that the remaining rules can still speak about it
        for n in walk_no_nested(f.node):
            if isinstance(n, ast.Compare) and len(n.ops) == 1 and "pyro_app.gateway_key" in (unparse(n.left), unparse(n.comparators[0])):
                other = n.comparators[0] if unparse(n.left) == "pyro_app.gateway_key" else n.left
                if isinstance(other, ast.Name):
                    keyvar = other.id
    R.check(eq_found, "C20-R1", "key|compared-for-equality", "the presented key is compared with the configured key by == / != (the whole key, nothing else)", f.loc(),
            "process_pyro_request no longer tests `presented == pyro_app.gateway_key`: any other relation (membership in the configured value is a substring test when that "
            "value is bytes/str, a prefix test, ...) lets requests through that do not present the configured key")

    # the key check itself cannot fail: the presented value comes out of the parsed query string, where a parameter given more than once is a LIST - a string method
    # called on it before it is known to be a str raises AttributeError out of the WSGI application (the web server's crash page) instead of the 403
    def _is_str_test(e, want):
        if isinstance(e, ast.UnaryOp) and isinstance(e.op, ast.Not):
            return _is_str_test(e.operand, not want)
        return want and isinstance(e, ast.Call) and isinstance(e.func, ast.Name) and e.func.id == "isinstance" and len(e.args) == 2 and \
            isinstance(e.args[0], ast.Name) and e.args[0].id == keyvar and unparse(e.args[1]) == "str"

    def known_text(atom, pol):
        return _is_str_test(atom, True) if pol is True else _is_str_test(atom, False) if pol is False else False
    unchecked = None
    if keyvar is not None:
        for c in walk_no_nested(f.node):
            if not (isinstance(c, ast.Call) and isinstance(c.func, ast.Attribute) and isinstance(c.func.value, ast.Name) and c.func.value.id == keyvar):
                continue
            short_circuit = False
            cur_, child_ = getattr(c, "_parent", None), c
            while cur_ is not None and not isinstance(cur_, ast.stmt):
                if isinstance(cur_, ast.BoolOp) and child_ in cur_.values:
                    before = cur_.values[:cur_.values.index(child_)]
                    if isinstance(cur_.op, ast.Or) and any(_is_str_test(b, False) for b in before):
                        short_circuit = True
                    if isinstance(cur_.op, ast.And) and any(_is_str_test(b, True) for b in before):
                        short_circuit = True
                cur_, child_ = getattr(cur_, "_parent", None), cur_
            if short_circuit or all(cfg.guarded(n, lambda e: edge_has_fact(e, known_text)) for n in ctx.node_of(f, c)):
                continue
            unchecked = unchecked or c
    R.check(keyvar is not None and unchecked is None, "C20-R1", "key|check-cannot-fail-on-a-repeated-parameter", "string methods are called on the presented key only once it is known to be a str", f.loc(unchecked) if unchecked is not None else f.loc(),
            "`%s` is evaluated on whatever the query string gave: `?$key=a&$key=b` makes it a list, AttributeError escapes the gateway - the request is answered by the web server's "
            "crash page, not refused with 403" % (unparse(unchecked, 60) if unchecked is not None else ""))

    def no_key_configured(atom, pol):
        return pol is False and unparse(atom) == "pyro_app.gateway_key"

    def key_matches(atom, pol):
        if isinstance(atom, ast.Compare) and len(atom.ops) == 1:
            sides = [atom.left, atom.comparators[0]]
            if any(unparse(x) == "pyro_app.gateway_key" for x in sides) and any((isinstance(x, ast.Name) and x.id == keyvar) or _utf8_encoded_name(x) == keyvar for x in sides if keyvar):
                return (isinstance(atom.ops[0], ast.NotEq) and pol is False) or (isinstance(atom.ops[0], ast.Eq) and pol is True)
        return False

    def no_pattern(atom, pol):
        return pol is False and unparse(atom) == "pyro_app.ns_regex"

    objvar = None
    for st, t, k in stores_in(f.node):
        if k == "assign" and isinstance(st.value, ast.Call) and isinstance(st.value.func, ast.Attribute) and st.value.func.attr == "groups":
            tg = st.targets[0]
            if isinstance(tg, ast.Tuple) and len(tg.elts) == 2:
                objvar, membervar = tg.elts[0].id, tg.elts[1].id
                groups_src = st.value.func.value
    if objvar is None:
        raise AnalysisError("process_pyro_request: `object_name, method = matches.groups()` vanished")

    def pattern_matches(atom, pol):
        # re.match(pyro_app.ns_regex, object_name): anchored at the start of the name
        if isinstance(atom, ast.Call) and dotted(atom.func) == "re.match" and len(atom.args) >= 2 and unparse(atom.args[0]) == "pyro_app.ns_regex" \
                and unparse(atom.args[1]) == objvar:
            return pol is True
        return False

    # ---------------------------------------------------------------- R1
    for i, (c, what) in enumerate(sorted(sinks, key=lambda x: (x[0].lineno, x[0].col_offset))):
        key = "sink:%s#%d" % (what[:40], i)
        for n in ctx.node_of(f, c):
            ok1 = cfg.guarded(n, lambda e: edge_implies_any(e, [no_key_configured, key_matches]))
            ok2 = cfg.guarded(n, lambda e: edge_implies_any(e, [no_pattern, pattern_matches]))
            why = []
            if not ok1:
                why.append("reachable without the gateway key having been checked")
            if not ok2:
                why.append("reachable for an object name that does not match the expose pattern from its first character (re.match)")
            R.check(ok1 and ok2, "C20-R1", key, "dominated by the key gate and the expose-pattern gate", f.loc(c), "; ".join(why))
    # refusals answer 403 and return
    def key_mismatch(atom, pol):
        return key_matches(atom, not pol) if isinstance(atom, ast.Compare) else False

    def key_not_text(atom, pol):
        # a presented key that is not one string ($key given twice arrives as a list) cannot be the configured key either
        return pol is False and isinstance(atom, ast.Call) and isinstance(atom.func, ast.Name) and atom.func.id == "isinstance" and len(atom.args) == 2 and \
            isinstance(atom.args[0], ast.Name) and atom.args[0].id == keyvar and unparse(atom.args[1]) == "str"

    def pat_mismatch(atom, pol):
        return pol is False and isinstance(atom, ast.Call) and dotted(atom.func) in ("re.match", "re.search", "re.fullmatch")
    kinds = set()
    for c, _ in ctx.cg.calls_of(f):
        if unparse(c.func) == "start_response" and c.args and isinstance(c.args[0], ast.Constant) and str(c.args[0].value).startswith("403"):
            st = enclosing_stmt(c)
            lst = getattr(st._parent, "body", []) if st in getattr(st._parent, "body", []) else getattr(st._parent, "orelse", [])
            returns = bool(lst) and isinstance(lst[-1], ast.Return)
            for n in ctx.node_of(f, c):
                if cfg.guarded(n, lambda e: edge_has_fact(e, key_mismatch) or edge_implies_any(e, [key_mismatch, key_not_text])):
                    kinds.add("key")
                    R.check(returns, "C20-R1", "refusal:key", "a wrong key is answered with 403 and the request ends there", f.loc(c), "the 403 branch does not return")
                elif cfg.guarded(n, lambda e: edge_has_fact(e, pat_mismatch)):
                    kinds.add("pattern")
                    R.check(returns, "C20-R1", "refusal:pattern", "a name outside the pattern is answered with 403 and the request ends there", f.loc(c), "the 403 branch does not return")
    R.check(kinds == {"key", "pattern"}, "C20-R1", "refusal:both-present", "both refusal branches (key, pattern) exist", f.loc(),
            "refusal branches found: %s (wrong key -> 403 and name outside the pattern -> 403 are both required)" % sorted(kinds))
    hp = ctx.calls_to(f, GW + ".return_homepage")

    def empty_path(atom, pol):
        return pol is False and unparse(atom) == pathp
    ok = len(hp) == 1 and all(cfg.guarded(n, lambda e: edge_has_fact(e, empty_path)) for n in ctx.node_of(f, hp[0]))
    R.check(ok, "C20-R1", "index-page|only-for-empty-path", "the keyless index page is reachable only for the empty path", f.loc(hp[0]) if hp else f.loc(),
            "return_homepage (which contacts the name server without a key) is reachable for a non-empty path")
    rh = ctx.fn(GW + ".return_homepage")
    lists = [c for c, _ in ctx.cg.calls_of(rh) if isinstance(c.func, ast.Attribute) and c.func.attr == "list"]
    ok = len(lists) == 1 and any(k.arg == "regex" and unparse(k.value) == "pyro_app.ns_regex" for k in lists[0].keywords)
    R.check(ok, "C20-R1", "index-page|filtered-by-pattern", "the index page lists only names matching the expose pattern", rh.loc(),
            "the index page lists objects without applying pyro_app.ns_regex")

    from ..report import Rules
    from ..report import run_shared as _run_shared
    from . import c14
    R14 = Rules("C14")
    try:
        _run_shared(ctx, c14, R14, tier)
    except AnalysisError as _shared_x:
        # the other property's own anchors are gone on this tree: its check reports that; what it produced before is still shared
        R.note("obligations shared from C14 are incomplete on this tree: %s" % _shared_x)
    for o in R14.obs:
        if o.key == "C14-R8|NameServer.list|literal-matching":
            R.add("C20-R1", "index-page|listing-anchored-like-the-gate", "the name server applies the expose pattern to the listing with match(), as the gateway's own check does", o.ok, o.loc,
                  o.detail or "")
        elif o.rule == "C14-R1" and "optimized_regex_list" in o.key:
            # the sqlite back-end may answer the regex listing itself: whatever SQL it uses must not be a pattern operator with its own (unanchored / wildcard) semantics
            R.add("C20-R1", "index-page|storage-regex-listing|" + o.key.split("|", 1)[1], "the sqlite storage's own regex listing (used for the index page when the name server runs on sqlite) "
                  "matches no more than the anchored pattern the gateway checks", o.ok, o.loc, o.detail or "")

    # "once": the gateway calls through an ordinary proxy method object, whose retry loop re-sends a call only as often as the retry budget says (0 by default): the
    # loop's bound and its give-up test are shared with C03-R6 - one attempt too many runs the remote method twice for one HTTP request when the first reply is late
    from . import c03 as _c03
    R03_ = Rules("C03")
    try:
        _run_shared(ctx, _c03, R03_, tier)
    except AnalysisError as _shared_x:
        R.note("obligations shared from C03 are incomplete on this tree: %s" % _shared_x)
    for o in R03_.obs:
        if o.rule == "C03-R6" and o.key.split("|")[1] in ("_RemoteMethod.__call__", "_RemoteMethod.__init__"):
            R.add("C20-R3", "forwarded-once|" + o.key.split("|", 1)[1], o.desc + " (one HTTP request is one invocation unless retries were asked for)", o.ok, o.loc, o.detail)
    # what a request asks for (its options, its parameters) lives in objects made for that request: a container that sits on a CLASS of the gateway module (or at module
    # level) and is filled from request data keeps it for every later request - one `X-Pyro-Options: oneway` would make all following calls oneway (200 with no result)
    gwmod = ctx.p.modules["Pyro5.utils.httpgateway"]
    shared_boxes = {}
    for cd in [n for n in ast.walk(gwmod.tree) if isinstance(n, ast.ClassDef)]:
        for st in cd.body:
            if isinstance(st, ast.Assign) and len(st.targets) == 1 and isinstance(st.targets[0], ast.Name) and \
                    (isinstance(st.value, (ast.List, ast.Dict, ast.Set)) or (isinstance(st.value, ast.Call) and isinstance(st.value.func, ast.Name) and st.value.func.id in ("set", "list", "dict") and not st.value.args)):
                shared_boxes[(cd.name, st.targets[0].id)] = st
    filled = None
    for cd in [n for n in ast.walk(gwmod.tree) if isinstance(n, ast.ClassDef)]:
        for x in ast.walk(cd):
            if isinstance(x, ast.Call) and isinstance(x.func, ast.Attribute) and x.func.attr in ("add", "append", "update", "extend", "insert", "setdefault", "__setitem__") and \
                    isinstance(x.func.value, ast.Attribute) and isinstance(x.func.value.value, ast.Name) and x.func.value.value.id in ("self", "cls", cd.name) and \
                    (cd.name, x.func.value.attr) in shared_boxes and not any(isinstance(a, ast.Assign) and any(isinstance(t, ast.Attribute) and t.attr == x.func.value.attr and
                                                                                                                 isinstance(t.value, ast.Name) and t.value.id == "self" for t in a.targets)
                                                                            for a in ast.walk(cd)):
                filled = filled or (cd, x)
    R.check(filled is None, "C20-R3", "request-state|not-kept-on-a-class", "no class of the gateway collects request data in a container shared by all its instances (%d class-level containers)" % len(shared_boxes),
            ("%s:%d" % (gwmod.relpath, filled[1].lineno)) if filled else gwmod.relpath,
            ("`%s` fills `%s.%s`, a container created once in the class body and shared by every instance: what one request put there (its options) is still there for the next "
             "request - e.g. every call after one oneway request is sent oneway and answered 200 without its result" % (unparse(filled[1], 60), filled[0].name, filled[1].func.value.attr)) if filled else "")
    from .common import names_bound
    names_bound(ctx, R, "C20-R3", {"Pyro5.utils.httpgateway"}, "the request is answered by the WSGI server's generic crash page instead of the gateway's 200/403/404/405/500 mapping")
    # the gateway forces the json serializer and relays the reply bytes: "that call's JSON result (200) or its error (500)" rests on the encoder refusing what json cannot
    # express (an error reply -> 500) instead of leaving it out (200 with part of the result)
    from . import c01
    R01 = Rules("C01")
    try:
        _run_shared(ctx, c01, R01, tier)
    except AnalysisError as _shared_x:
        R.note("obligations shared from C01 are incomplete on this tree: %s" % _shared_x)
    for o in R01.obs:
        if o.rule == "C01-R2" and o.key.startswith("C01-R2|JsonSerializer") and "encoder-keeps-everything-or-raises" in o.key:
            R.add("C20-R3", "json-reply|" + o.key.split("|", 1)[1], "the json encoder behind the gateway encodes the whole result or raises", o.ok, o.loc, o.detail or "")

    # ---------------------------------------------------------------- R2
    def reaches_sink(fn, seen=None):
        seen = seen if seen is not None else set()
        if fn.qualname in seen:
            return None
        seen.add(fn.qualname)
        for c, tgs in ctx.cg.calls_of(fn):
            for t in tgs:
                if t.kind == "fn":
                    if t.fn.qualname in SINK_FNS:
                        return "%s -> %s" % (fn.loc(c), t.fn.qualname)
                    if t.fn.module.name == GW:
                        r = reaches_sink(t.fn, seen)
                        if r:
                            return r
        return None
    for nm in ("redirect", "option_request", "invalid_request", "not_found", "cors_response_header", "singlyfy_parameters"):
        g = ctx.fn(GW + "." + nm)
        r = reaches_sink(g)
        R.check(r is None, "C20-R2", "traffic-free|%s" % nm, "reaches no Pyro-traffic sink", g.loc(), "Pyro traffic on a refusal path: %s" % r)
    app = ctx.fn(GW + ".pyro_app")
    acfg = ctx.cfg(app)
    direct = [c for c, tgs in ctx.cg.calls_of(app) if any(t.kind == "fn" and (t.fn.qualname in SINK_FNS or t.fn.qualname == GW + ".return_homepage") for t in tgs)]
    R.check(not direct, "C20-R2", "pyro_app|no-direct-sink", "pyro_app itself makes no Pyro traffic", app.loc(direct[0]) if direct else app.loc(),
            "pyro_app contacts Pyro directly at %s" % (app.loc(direct[0]) if direct else ""))
    pc = ctx.calls_to(app, f.qualname)

    def under_prefix(atom, pol):
        return pol is True and isinstance(atom, ast.Call) and isinstance(atom.func, ast.Attribute) and atom.func.attr == "startswith" and atom.args and \
            isinstance(atom.args[0], ast.Constant) and atom.args[0].value == "pyro/"

    from ..engine.context import locals_assigned
    methvars = set(locals_assigned(app, lambda v: isinstance(v, ast.Call) and isinstance(v.func, ast.Attribute) and v.func.attr == "get" and v.args and
                                   isinstance(v.args[0], ast.Constant) and v.args[0].value == "REQUEST_METHOD"))
    if not methvars:
        raise AnalysisError("pyro_app: the local holding REQUEST_METHOD vanished")

    def get_or_post(atom, pol):
        if isinstance(atom, ast.Compare) and len(atom.ops) == 1 and isinstance(atom.ops[0], ast.In) and unparse(atom.left) in methvars:
            okc, v = ctx.const(atom.comparators[0], app)
            vals = set(v) if okc and isinstance(v, (tuple, list)) else ({v} if okc and isinstance(v, str) else None)
            if isinstance(atom.comparators[0], (ast.Tuple, ast.List)):
                vals = {e.value for e in atom.comparators[0].elts if isinstance(e, ast.Constant)}
            if vals is None:
                return False
            if pol is True and vals <= {"GET", "POST", "OPTIONS"}:
                return "allowed"
            if pol is False and "OPTIONS" in vals and not (vals & {"GET", "POST"}):
                return "not-options"
        return False
    ok = len(pc) == 1
    why = "the call of process_pyro_request vanished from pyro_app"
    if ok:
        for n in ctx.node_of(app, pc[0]):
            if not acfg.guarded(n, lambda e: edge_has_fact(e, under_prefix)):
                ok = False
                why = "process_pyro_request is reachable for paths outside pyro/"
            elif not acfg.guarded(n, lambda e: edge_has_fact(e, lambda a, pl: get_or_post(a, pl) == "allowed")):
                ok = False
                why = "process_pyro_request is reachable for request methods other than GET/POST"
    R.check(ok, "C20-R2", "pyro_app|entry-condition", "process_pyro_request is entered only for GET/POST(/OPTIONS-filtered) under the pyro/ prefix", app.loc(), why)

    # ---------------------------------------------------------------- R3
    invokes = [c for c, w in sinks if w.startswith("invoke ") or w.startswith("getattr(")]
    ga = [c for c in invokes if isinstance(c.func, ast.Name)]          # getattr(proxy, method)
    calls = [c for c in invokes if isinstance(c.func, ast.Call)]       # getattr(proxy, method)(**parameters)
    if not ga or not calls:
        raise AnalysisError("process_pyro_request: proxy member access / invocation vanished")
    ok = True
    why = ""
    for c in ga:
        a1 = c.args[1] if len(c.args) > 1 else None
        if not (isinstance(a1, ast.Name) and a1.id == membervar):
            ok = False
            why = "the member fetched from the proxy is `%s`, not the member named in the request path" % (unparse(a1) if a1 is not None else "?")
        else:
            for n in ctx.node_of(f, c):
                defs = rd.reaching(n, membervar)
                if not (defs and all(d.kind == "unpack" and d.index == 1 for d in defs)):
                    ok = False
                    why = "`%s` is reassigned between parsing the path and the invocation" % membervar
    gs = groups_src
    gdefs = [d for n in cfg.nodes if n.kind == "stmt" for d in rd.reaching_out(n, gs.id)] if isinstance(gs, ast.Name) else []
    src_ok = bool(gdefs) and all(d.kind == "assign" and isinstance(d.value, ast.Call) and dotted(d.value.func) == "re.match" and
                                 len(d.value.args) == 2 and unparse(d.value.args[1]) == pathp for d in gdefs if d.kind != "param")
    R.check(ok and src_ok, "C20-R3", "member|is-parsed-path-group", "the invoked member is the second group of the path match", f.loc(ga[0]),
            why or "object/member are not taken from a match on the request path")
    # the name must not resolve to one of the Proxy object's own attributes (getattr finds those before Proxy.__getattr__ is asked)
    def remote_only(atom, pol):
        if isinstance(atom, ast.Call) and isinstance(atom.func, ast.Attribute) and atom.func.attr == "startswith" and unparse(atom.func.value) == membervar \
                and atom.args and isinstance(atom.args[0], ast.Constant) and atom.args[0].value == "_":
            return pol is False
        if isinstance(atom, ast.Compare) and len(atom.ops) == 1 and unparse(atom.left) == membervar and \
                unparse(atom.comparators[0]).endswith(("._pyroAttrs", "._pyroMethods")):
            return (isinstance(atom.ops[0], ast.In) and pol is True) or (isinstance(atom.ops[0], ast.NotIn) and pol is False)
        return False
    for i, c in enumerate(ga):
        g_ok = all(cfg.guarded(n, lambda e: edge_has_fact(e, remote_only)) for n in ctx.node_of(f, c))
        R.check(g_ok, "C20-R3", "member|remote-namespace-only#%d" % i,
                "the requested name cannot resolve to the Proxy's own methods: it is known to be remote metadata or not to start with an underscore", f.loc(c),
                "`%s` looks the requested name up on the Proxy object itself: a request for /_pyroInvoke (or /_pyroRelease, ...) runs the proxy's own method "
                "instead of being forwarded, and through _pyroInvoke's objectId parameter reaches objects that do not match the expose pattern" % unparse(c, 60))
    ok = True
    why = ""
    for c in calls:
        if c.args or len(c.keywords) != 1 or c.keywords[0].arg is not None or unparse(c.keywords[0].value) != paramsp:
            ok = False
            why = "the method is invoked with `%s`, not with exactly **%s" % (unparse(c, 60), paramsp)
        if enclosing_loops(c, f.node):
            ok = False
            why = "the invocation is inside a loop"
    for c in ga:
        if enclosing_loops(c, f.node):
            ok = False
            why = "the member access is inside a loop"
    R.check(ok and len(calls) == 1, "C20-R3", "invoke|exact-kwargs-once", "exactly one invocation, with exactly the query parameters", f.loc(calls[0]), why or "%d invocation sites" % len(calls))
    # parameter edits: only removal of $key, and it always happens when a key is configured
    edits = []
    for st, t, k in stores_in(f.node):
        if isinstance(t, ast.Subscript) and unparse(t.value) == paramsp:
            edits.append((st, k, unparse(t.slice)))
    for c, _ in ctx.cg.calls_of(f):
        if isinstance(c.func, ast.Attribute) and unparse(c.func.value) == paramsp and c.func.attr in ("pop", "clear", "update", "setdefault", "popitem", "__delitem__", "__setitem__"):
            edits.append((c, c.func.attr, unparse(c.args[0]) if c.args else ""))
    bad = [e for e in edits if not (e[1] in ("del", "pop") and e[2] == "'$key'")]
    R.check(not bad, "C20-R3", "parameters|only-$key-removed", "the only edit of the query parameters is the removal of $key", f.loc(bad[0][0]) if bad else f.loc(),
            "the forwarded parameters are modified: `%s`" % (unparse(bad[0][0]) if bad else ""))
    removal_stmts = []
    for e in edits:
        if e[1] in ("del", "pop") and e[2] == "'$key'":
            st = enclosing_stmt(e[0])
            # must be a statement of its own (not the right operand of `or`/`and`, which is evaluated conditionally)
            par = getattr(e[0], "_parent", None)
            cond = False
            x = e[0]
            while x is not None and x is not st:
                pr = getattr(x, "_parent", None)
                if isinstance(pr, ast.BoolOp) and pr.values[0] is not x:
                    cond = True
                if isinstance(pr, ast.IfExp) and pr.test is not x:
                    cond = True
                x = pr
            if not cond:
                removal_stmts.append(st)
    rm_nodes = [n for st in removal_stmts for n in cfg.nodes_for(st)]

    def has_key_param(atom, pol):
        return pol is False and isinstance(atom, ast.Compare) and len(atom.ops) == 1 and isinstance(atom.ops[0], ast.In) and \
            isinstance(atom.left, ast.Constant) and atom.left.value == "$key" and unparse(atom.comparators[0]) == paramsp
    ok = bool(rm_nodes)
    if ok:
        for c in calls:
            for n in ctx.node_of(f, c):
                # every path to the invocation: no key configured, or $key not in parameters, or passes an unconditional removal
                def okedge(e):
                    return not (edge_has_fact(e, no_key_configured) or edge_has_fact(e, has_key_param))
                reach = cfg.reachable([cfg.entry], edge_ok=okedge, node_blocked=lambda x: x in rm_nodes)
                if n.id in reach:
                    ok = False
    R.check(ok, "C20-R3", "parameters|$key-always-removed", "whenever a key is configured, a $key query parameter is removed before the call is forwarded", f.loc(),
            "with a gateway key configured a request can be forwarded with its $key parameter still in place (e.g. when the key came in the header): "
            "the remote method receives the gateway secret as an unexpected keyword argument")

    def is_meta(atom, pol):
        return pol is True and isinstance(atom, ast.Compare) and len(atom.ops) == 1 and isinstance(atom.ops[0], ast.Eq) and \
            any(isinstance(x, ast.Constant) and x.value == "$meta" for x in (atom.left, atom.comparators[0]))
    ok = not any(cfg.guarded(n, lambda e: edge_has_fact(e, is_meta)) for c in invokes for n in ctx.node_of(f, c))
    R.check(ok, "C20-R3", "$meta|no-invocation", "$meta answers from metadata without invoking anything", f.loc(), "the $meta branch invokes a member on the proxy")
    # status mapping
    ok = True
    why = ""
    n_sr = 0
    for c, _ in ctx.cg.calls_of(f):
        if unparse(c.func) != "start_response" or not c.args or not isinstance(c.args[0], ast.Constant):
            continue
        n_sr += 1
        status = str(c.args[0].value)[:3]
        in_handler = any(part == "handler" for t, part in enclosing_trys(c, f.node))

        def exc_flag(atom, pol):
            return pol is True and isinstance(atom, ast.BinOp) and isinstance(atom.op, ast.BitAnd) and "FLAGS_EXCEPTION" in unparse(atom)
        flagged = all(cfg.guarded(n, lambda e: edge_has_fact(e, exc_flag)) for n in ctx.node_of(f, c))
        want = "500" if (in_handler or flagged) else None
        if want and status != want:
            ok = False
            why = "status %s at %s where the call failed (500 expected)" % (status, f.loc(c))
        if not want and status not in ("200", "403"):
            ok = False
            why = "status %s at %s on a success/refusal path" % (status, f.loc(c))
    R.check(ok and n_sr >= 6, "C20-R3", "status|mapping", "500 on the exception flag and in the catch-all, 200/403 otherwise", f.loc(), why)
    cat = [t for t in walk_no_nested(f.node) if isinstance(t, ast.Try) and any(handler_is_catch_all(h) for h in t.handlers)]
    ok = bool(cat) and all(any(t is cat[0] and part == "body" for t, part in enclosing_trys(c, f.node)) for c, w in sinks)
    R.check(ok, "C20-R3", "errors|catch-all-to-500", "every sink runs under the catch-all that answers 500 with the error", f.loc(), "a sink is outside the catch-all")

    # ---------------------------------------------------------------- R4
    kdefs = [st for st, t, k in stores_in(f.node) if k == "assign" and isinstance(t, ast.Name) and t.id == keyvar]
    enc = [st for st in kdefs if isinstance(st.value, ast.Call) and isinstance(st.value.func, ast.Attribute) and st.value.func.attr == "encode" and
           st.value.args and isinstance(st.value.args[0], ast.Constant) and st.value.args[0].value.lower().replace("-", "") == "utf8" and unparse(st.value.func.value) == keyvar]
    cmp_nodes = [n for n in cfg.nodes if n.kind == "test" and any(key_matches(a, pl) or key_matches(a, not pl) for pol_ in (True, False) for a, pl in facts_of(n.ast.test, pol_))]
    ok = len(enc) == 1 and bool(cmp_nodes) and all(any(cfg.dominates(e, c) for e in cfg.nodes_for(enc[0])) for c in cmp_nodes)
    if not enc and cmp_nodes:
        # the encoding is part of the comparison: every comparison with the configured key has `<presented>.encode("utf-8")` on its other side
        cmps = [n for n in walk_no_nested(f.node) if isinstance(n, ast.Compare) and len(n.ops) == 1 and "pyro_app.gateway_key" in (unparse(n.left), unparse(n.comparators[0]))]
        ok = bool(cmps) and all(_utf8_encoded_name(c.comparators[0] if unparse(c.left) == "pyro_app.gateway_key" else c.left) == keyvar for c in cmps)
    R.check(ok, "C20-R4", "key|utf8-bytes", "the presented key is UTF-8 encoded before it is compared with the configured bytes", f.loc(),
            "the presented key is not compared as UTF-8 bytes")
    src = [st for st in kdefs if st not in enc]
    ok = len(src) == 1 and isinstance(src[0].value, ast.BoolOp) and isinstance(src[0].value.op, ast.Or) and len(src[0].value.values) == 2 and \
        "HTTP_X_PYRO_GATEWAY_KEY" in unparse(src[0].value.values[0]) and "$key" in unparse(src[0].value.values[1]) and \
        isinstance(src[0].value.values[1], ast.Call) and src[0].value.values[1].func.attr == "get"
    R.check(ok, "C20-R4", "key|header-then-param", "the key is taken from the header first, then from $key (read-only)", f.loc(src[0]) if src else f.loc(),
            "key lookup is `%s`" % (unparse(src[0].value) if src else "?"))

    # the name server proxy is cached across requests: a request must not be answered from a dead connection
    gn = ctx.fn("Pyro5.utils.httpgateway.get_nameserver")
    gcfg = ctx.cfg(gn)
    glob = [n.names[0] for n in walk_no_nested(gn.node) if isinstance(n, ast.Global) and n.names]
    cached = glob[0] if glob else None
    rets = [n for n in gcfg.nodes if n.kind == "stmt" and isinstance(n.ast, ast.Return) and isinstance(n.ast.value, ast.Name) and n.ast.value.id == cached]
    pings = [c for c in walk_no_nested(gn.node) if isinstance(c, ast.Call) and isinstance(c.func, ast.Attribute) and isinstance(c.func.value, ast.Name)
             and c.func.value.id == cached and not c.args]
    ok = bool(cached) and bool(rets) and bool(pings)
    why = "get_nameserver returns the cached proxy without calling it first"
    if ok:
        pn = [x for c in pings for x in ctx.node_of(gn, c)]
        ok = all(any(gcfg.dominates(x, r) for x in pn) for r in rets)
        if ok:
            recover = False
            for c in pings:
                for t, part in enclosing_trys(c, gn.node):
                    if part == "body":
                        for h in t.handlers:
                            if any(isinstance(st, ast.Assign) and any(isinstance(tt, ast.Name) and tt.id == cached for tt in st.targets) for st in h.body):
                                recover = True
            ok = recover
            why = "a failed liveness call on the cached name server proxy is not followed by dropping it and reconnecting"
    R.check(ok, "C20-R3", "get_nameserver|cached-proxy-validated", "the cached name server proxy is returned only after a liveness call; a lost connection drops the cache and reconnects", gn.loc(), why +
            ": after the name server connection was lost between two requests, the next authorised request is not forwarded at all (500 from the lookup)")

    # the gateway hands the reply's JSON bytes and flags through unchanged: it asks the proxy for the raw wire message
    inv = ctx.fn("Pyro5.client.Proxy._pyroInvoke")
    icfg = ctx.cfg(inv)
    rc = ctx.calls_to(inv, "Pyro5.protocol.recv_stub")
    mv = enclosing_stmt(rc[0]).targets[0].id if rc and isinstance(enclosing_stmt(rc[0]), ast.Assign) else None

    def raw(want):
        def pred(atom, pol):
            return pol is want and isinstance(atom, ast.Attribute) and atom.attr == "_pyroRawWireResponse"
        return pred
    raw_rets = [n for n in icfg.nodes if n.kind == "stmt" and isinstance(n.ast, ast.Return) and isinstance(n.ast.value, ast.Name) and n.ast.value.id == mv
                and icfg.guarded(n, lambda e: edge_has_fact(e, raw(True)))]
    decs = [n for c, _ in ctx.cg.calls_of(inv) if isinstance(c.func, ast.Attribute) and c.func.attr == "loads" for n in ctx.node_of(inv, c)]
    ok = bool(mv) and bool(raw_rets) and bool(decs) and all(icfg.guarded(n, lambda e: edge_has_fact(e, raw(False))) for n in decs)
    sets = [st for st, t, k in stores_in(f.node) if k == "assign" and isinstance(t, ast.Attribute) and t.attr == "_pyroRawWireResponse"
            and isinstance(st.value, ast.Constant) and st.value.value is True]
    inv_nodes = [n for c in calls for n in ctx.node_of(f, c)]
    ok_set = bool(sets) and all(any(cfg.dominates(x, n) for st in sets for x in cfg.nodes_for(st)) for n in inv_nodes)
    R.check(ok and ok_set, "C20-R3", "raw-wire-response|requested-and-honoured", "the gateway sets _pyroRawWireResponse before invoking, and _pyroInvoke then returns the received message undecoded",
            inv.loc(raw_rets[0].ast) if raw_rets else inv.loc(),
            ("the gateway no longer asks for the raw reply before the invocation" if not ok_set else
             "_pyroInvoke no longer returns the received message as is when _pyroRawWireResponse is set: the gateway reads .flags/.data of whatever comes back"))

    # exactly the query parameters: blank values are kept; and the body handed to the WSGI server is bytes (the payload of a reply with annotations is a memoryview)
    pq = [c for c in walk_no_nested(app.node) if isinstance(c, ast.Call) and unparse(c.func).endswith("parse_qs")]
    okq = len(pq) == 1 and any(k.arg == "keep_blank_values" and isinstance(k.value, ast.Constant) and k.value.value is True for k in pq[0].keywords)
    R.check(okq, "C20-R3", "parameters|blank-values-kept", "the query string is parsed with keep_blank_values=True", app.loc(pq[0]) if pq else app.loc(),
            "parse_qs drops parameters with an empty value: /pyro/obj/m?x= invokes m() without x instead of m(x='')")
    bodies = [r for r in walk_no_nested(f.node) if isinstance(r, ast.Return) and isinstance(r.value, ast.List) and any(
        isinstance(x, ast.Attribute) and x.attr == "data" for e_ in r.value.elts for x in ast.walk(e_))]
    okb = bool(bodies) and all(isinstance(e_, ast.Call) and isinstance(e_.func, ast.Name) and e_.func.id == "bytes" for r in bodies for e_ in r.value.elts)
    R.check(okb, "C20-R3", "reply-body|bytes", "the reply payload is handed to the WSGI server as bytes(...)", f.loc(bodies[0]) if bodies else f.loc(),
            "the received payload object is returned as is: for a reply that carries annotations it is a memoryview, which WSGI servers refuse (500 instead of the call's result)")


def _utf8_encoded_name(e):
    """`<name>.encode("utf-8")` -> name, else None"""
    if isinstance(e, ast.Call) and isinstance(e.func, ast.Attribute) and e.func.attr == "encode" and isinstance(e.func.value, ast.Name):
        a = e.args[0] if e.args else next((k.value for k in e.keywords if k.arg == "encoding"), None)
        if a is None or (isinstance(a, ast.Constant) and isinstance(a.value, str) and a.value.lower().replace("-", "").replace("_", "") == "utf8"):
            return e.func.value.id
    return None
