"""
C. Call resolution with receiver typing.

Types are small strings:  cls:<qual> (instance of a package class), type:<qual> (the class object),
mod:<name>, fn:<qual>, ext:<dotted> (external module / object), super:<qual>, sers (a registry of serializer instances).
"""
import ast
import builtins
from .model import dotted, mangle, AnalysisError
from .cfg import walk_no_nested

# ---------------------------------------------------------------------------------------------
# Receiver-type hints (frozen table, confirmed by reading the code; one line of reason each)
ATTR_HINTS = {
    # (class qualname, attribute) -> types
    ("Pyro5.svr_threads.ClientConnectionJob", "daemon"): {"cls:Pyro5.server.Daemon"},            # passed by SocketServer_Threadpool.events(self.daemon)
    ("Pyro5.svr_threads.ClientConnectionJob", "csock"): {"cls:Pyro5.socketutil.SocketConnection"},  # assigned SocketConnection(clientSocket) in __init__
    ("Pyro5.svr_threads.SocketServer_Threadpool", "daemon"): {"cls:Pyro5.server.Daemon"},        # init(daemon, ...) is called by Daemon.__init__ with self
    ("Pyro5.svr_threads.SocketServer_Threadpool", "pool"): {"cls:Pyro5.svr_threads.Pool"},       # Pool() in init
    ("Pyro5.svr_threads.SocketServer_Threadpool", "housekeeper"): {"cls:Pyro5.svr_threads.Housekeeper"},
    ("Pyro5.svr_threads.Housekeeper", "pyroDaemon"): {"cls:Pyro5.server.Daemon"},                # Housekeeper(daemon)
    ("Pyro5.svr_threads.Worker", "pool"): {"cls:Pyro5.svr_threads.Pool"},                        # Worker(self) from Pool
    ("Pyro5.svr_threads.Worker", "job"): {"cls:Pyro5.svr_threads.ClientConnectionJob"},          # the only job type the library submits
    ("Pyro5.svr_multiplex.SocketServer_Multiplex", "daemon"): {"cls:Pyro5.server.Daemon"},
    ("Pyro5.svr_existingconn.SocketServer_ExistingConnection", "daemon"): {"cls:Pyro5.server.Daemon"},
    ("Pyro5.svr_existingconn.SocketServer_ExistingConnection", "conn"): {"cls:Pyro5.socketutil.SocketConnection"},
    ("Pyro5.server.Daemon", "transportServer"): {"cls:Pyro5.svr_threads.SocketServer_Threadpool",
                                                  "cls:Pyro5.svr_multiplex.SocketServer_Multiplex",
                                                  "cls:Pyro5.svr_existingconn.SocketServer_ExistingConnection"},
    ("Pyro5.server.DaemonObject", "daemon"): {"cls:Pyro5.server.Daemon"},
    ("Pyro5.server._OnewayCallThread", "pyro_daemon"): {"cls:Pyro5.server.Daemon"},
    ("Pyro5.client.Proxy", "_pyroConnection"): {"cls:Pyro5.socketutil.SocketConnection"},
    ("Pyro5.client.Proxy", "_pyroUri"): {"cls:Pyro5.core.URI"},
    ("Pyro5.client._StreamResultIterator", "proxy"): {"cls:Pyro5.client.Proxy"},
    ("Pyro5.client.BatchProxy", "_BatchProxy__proxy"): {"cls:Pyro5.client.Proxy"},
    ("Pyro5.nameserver.NameServer", "storage"): {"cls:Pyro5.nameserver.MemoryStorage", "cls:Pyro5.nameserver.SqlStorage"},
    ("Pyro5.nameserver.NameServerDaemon", "nameserver"): {"cls:Pyro5.nameserver.NameServer"},
    ("Pyro5.nameserver.AutoCleaner", "nameserver"): {"cls:Pyro5.nameserver.NameServer"},
    ("Pyro5.nameserver.BroadcastServer", "nsUri"): {"cls:Pyro5.core.URI"},
}

PARAM_HINTS = {
    # (function qualname prefix, parameter) -> types; the longest matching prefix wins
    ("Pyro5.server.", "conn"): {"cls:Pyro5.socketutil.SocketConnection"},
    ("Pyro5.server.", "connection"): {"cls:Pyro5.socketutil.SocketConnection"},
    ("Pyro5.server.Daemon._streamResponse", "client"): {"cls:Pyro5.socketutil.SocketConnection"},
    ("Pyro5.server.Daemon.combine", "daemon"): {"cls:Pyro5.server.Daemon"},
    ("Pyro5.server._default_methodcall_error_handler", "daemon"): {"cls:Pyro5.server.Daemon"},
    ("Pyro5.protocol.", "connection"): {"cls:Pyro5.socketutil.SocketConnection"},
    ("Pyro5.protocol.", "pyroConnection"): {"cls:Pyro5.socketutil.SocketConnection"},
    ("Pyro5.svr_multiplex.SocketServer_Multiplex.handleRequest", "conn"): {"cls:Pyro5.socketutil.SocketConnection"},
    ("Pyro5.svr_multiplex.SocketServer_Multiplex.combine_loop", "server"): {"cls:Pyro5.svr_multiplex.SocketServer_Multiplex"},
    ("Pyro5.svr_threads.Pool.process", "job"): {"cls:Pyro5.svr_threads.ClientConnectionJob"},
    ("Pyro5.svr_threads.Pool.notify_done", "worker"): {"cls:Pyro5.svr_threads.Worker"},
    ("Pyro5.svr_threads.Worker.process", "job"): {"cls:Pyro5.svr_threads.ClientConnectionJob"},
    ("Pyro5.client.Proxy.__pyroCreateConnection.connect_and_handshake", "conn"): {"cls:Pyro5.socketutil.SocketConnection"},
    ("Pyro5.client._StreamResultIterator.__init__", "proxy"): {"cls:Pyro5.client.Proxy"},
    ("Pyro5.client.BatchProxy.__init__", "proxy"): {"cls:Pyro5.client.Proxy"},
}

# element types of containers (frozen, confirmed by reading): locals that are taken out of these containers get the element type,
# whatever the local is called (hints never depend on the name of a local variable)
CONTAINER_ELEMS = {
    ("attr", "Pyro5.svr_threads.Pool", "idle"): {"cls:Pyro5.svr_threads.Worker"},      # Pool.idle / Pool.busy hold Worker threads only
    ("attr", "Pyro5.svr_threads.Pool", "busy"): {"cls:Pyro5.svr_threads.Worker"},
    ("param", "Pyro5.svr_multiplex.SocketServer_Multiplex.events", "eventsockets"): {"cls:Pyro5.socketutil.SocketConnection"},
    # ^ file objects delivered by the selector are SocketConnections (or the server socket, which events() tests by identity first)
    ("for-items-key", "Pyro5.svr_multiplex.SocketServer_Multiplex.loop", ""): {"cls:Pyro5.svr_multiplex.SocketServer_Multiplex"},
    # ^ keys of the per-server event dict are the `data` registered with the selector: transport servers of this kind (combine_loop)
}

ELEM_HINTS = {
    # (class, attribute, constant key) -> element types of `self.<attr>[<key>]`
    ("Pyro5.server.Daemon", "objectsById", "Pyro5.core.DAEMON_NAME"): {"cls:Pyro5.server.DaemonObject"},   # written once in Daemon.__init__ as interface(self)
}

SERIALIZER_REGISTRIES = {"Pyro5.serializers.serializers", "Pyro5.serializers.serializers_by_id"}


class Target:
    __slots__ = ("kind", "fn", "name")

    def __init__(self, kind, fn=None, name=None):
        self.kind = kind   # fn | ext | ctor | dyn | unknown
        self.fn = fn       # FunctionInfo for kind fn
        self.name = name   # dotted external name / description

    def key(self):
        return (self.kind, self.fn.qualname if self.fn else self.name)

    def __repr__(self):
        return "<T %s %s>" % (self.kind, self.fn.qualname if self.fn else self.name)


class CallGraph:
    def __init__(self, program):
        self.p = program
        self.attr_types = {}
        self._local_cache = {}
        self._infer_attr_types()
        self._calls_cache = {}
        self.stats = {"total": 0, "fn": 0, "ext": 0, "ctor": 0, "dyn": 0, "unknown": 0}

    # ------------------------------------------------------------------ types
    def serializer_classes(self):
        base = self.p.classes.get("Pyro5.serializers.SerializerBase")
        if base is None:
            raise AnalysisError("anchor class vanished: Pyro5.serializers.SerializerBase")
        return [c for c in self.p.subclasses(base)]

    def _infer_attr_types(self):
        for (cq, attr), tys in ATTR_HINTS.items():
            if cq not in self.p.classes:
                raise AnalysisError("receiver hint names a vanished class: %s" % cq)
            self.attr_types[(cq, attr)] = set(tys)
        # self.x = ClassName(...)   (two rounds so that chained attribute types settle)
        for _ in range(2):
            for f in list(self.p.functions.values()):
                if not f.is_method or f.self_name is None:
                    continue
                for n in walk_no_nested(f.node):
                    if isinstance(n, ast.Assign):
                        for t in n.targets:
                            if isinstance(t, ast.Attribute) and isinstance(t.value, ast.Name) and t.value.id == f.self_name:
                                tys = self.expr_types(n.value, f)
                                tys = {x for x in tys if x.startswith("cls:")}
                                if tys:
                                    key = (f.cls.qualname, mangle(f.cls.name, t.attr))
                                    if key not in ATTR_HINTS:
                                        self.attr_types.setdefault(key, set()).update(tys)

    def _param_hint(self, f, name):
        best = None
        for (prefix, pn), tys in PARAM_HINTS.items():
            if pn == name and f.qualname.startswith(prefix):
                if best is None or len(prefix) > len(best[0]):
                    best = (prefix, tys)
        return set(best[1]) if best else set()

    def local_types(self, f, name, depth=0):
        key = (f.qualname, name)
        if key in self._local_cache:
            return self._local_cache[key]
        self._local_cache[key] = set()   # recursion guard
        depth = 0                        # the cached answer must not depend on how deep the first asker was
        out = set()
        if name in f.params:
            if name == f.self_name and f.cls is not None:
                out.add("cls:" + f.cls.qualname)
            elif "classmethod" in f.decorators and f.params and name == f.params[0] and f.cls is not None:
                out.add("type:" + f.cls.qualname)
            out |= self._param_hint(f, name)
        if depth < 4:
            for n in walk_no_nested(f.node):
                if isinstance(n, ast.Assign):
                    for t in n.targets:
                        if isinstance(t, ast.Name) and t.id == name:
                            out |= self.expr_types(n.value, f, depth + 1)
                elif isinstance(n, (ast.With,)):
                    for it in n.items:
                        if isinstance(it.optional_vars, ast.Name) and it.optional_vars.id == name:
                            out |= self.expr_types(it.context_expr, f, depth + 1)
                elif isinstance(n, ast.For):
                    if isinstance(n.target, ast.Name) and n.target.id == name:
                        it = self.expr_types(n.iter, f, depth + 1)
                        if "sers" in it or "sers-values" in it:
                            out.add("ser")
                        out |= self.elem_types(n.iter, f, depth + 1)
                    elif isinstance(n.target, ast.Tuple) and n.target.elts and isinstance(n.target.elts[0], ast.Name) and n.target.elts[0].id == name:
                        if isinstance(n.iter, ast.Call) and isinstance(n.iter.func, ast.Attribute) and n.iter.func.attr == "items":
                            out |= set(CONTAINER_ELEMS.get(("for-items-key", f.qualname, ""), ()))
                elif isinstance(n, ast.Assign) and isinstance(n.value, ast.Tuple):
                    # a, b = x, y
                    for t in n.targets:
                        if isinstance(t, ast.Tuple) and len(t.elts) == len(n.value.elts):
                            for te, ve in zip(t.elts, n.value.elts):
                                if isinstance(te, ast.Name) and te.id == name:
                                    out |= self.expr_types(ve, f, depth + 1)
        self._local_cache[key] = out
        return out

    def elem_types(self, expr, f, depth=0):
        """types of the elements of a container expression: list(X), X.copy(), self.<attr>, <param>, local alias of one of those"""
        if depth > 6:
            return set()
        if isinstance(expr, ast.Call) and isinstance(expr.func, ast.Name) and expr.func.id in ("list", "tuple", "set", "sorted", "iter", "reversed") and expr.args:
            return self.elem_types(expr.args[0], f, depth + 1)
        if isinstance(expr, ast.Call) and isinstance(expr.func, ast.Attribute) and expr.func.attr in ("copy", "keys"):
            return self.elem_types(expr.func.value, f, depth + 1)
        if isinstance(expr, ast.Attribute):
            out = set()
            for t in self.expr_types(expr.value, f, depth + 1):
                if t.startswith("cls:"):
                    for c in self.p.mro(self.p.classes[t[4:]]):
                        out |= set(CONTAINER_ELEMS.get(("attr", c.qualname, expr.attr), ()))
            return out
        if isinstance(expr, ast.Name):
            g = f
            while g is not None:
                if self.is_local(g, expr.id):
                    if expr.id in g.params:
                        return set(CONTAINER_ELEMS.get(("param", g.qualname, expr.id), ()))
                    out = set()
                    for n in walk_no_nested(g.node):
                        if isinstance(n, ast.Assign):
                            for t in n.targets:
                                if isinstance(t, ast.Name) and t.id == expr.id:
                                    out |= self.elem_types(n.value, g, depth + 1)
                                elif isinstance(t, ast.Tuple) and isinstance(n.value, ast.Tuple) and len(t.elts) == len(n.value.elts):
                                    for te, ve in zip(t.elts, n.value.elts):
                                        if isinstance(te, ast.Name) and te.id == expr.id:
                                            out |= self.elem_types(ve, g, depth + 1)
                    return out
                g = g.parent
        return set()

    def is_local(self, f, name):
        """is `name` a local (assigned / parameter) of f?"""
        cache = getattr(f, "_locals", None)
        if cache is None:
            cache = set(f.params)
            for n in walk_no_nested(f.node):
                if isinstance(n, ast.Name) and isinstance(n.ctx, (ast.Store, ast.Del)):
                    cache.add(n.id)
                elif isinstance(n, ast.ExceptHandler) and n.name:
                    cache.add(n.name)
                elif isinstance(n, (ast.Import, ast.ImportFrom)):
                    for a in n.names:
                        cache.add((a.asname or a.name).split(".")[0])
            for st in ast.iter_child_nodes(f.node):
                pass
            # nested defs are locals too
            for n in ast.walk(f.node):
                if n is not f.node and isinstance(n, (ast.FunctionDef, ast.ClassDef)) and self._direct_child_scope(n, f.node):
                    cache.add(n.name)
            f._locals = cache
        return name in cache

    @staticmethod
    def _direct_child_scope(n, fnode):
        p = getattr(n, "_parent", None)
        while p is not None and not isinstance(p, (ast.FunctionDef, ast.Lambda, ast.ClassDef)):
            p = getattr(p, "_parent", None)
        return p is fnode

    def _nested_function(self, f, name):
        g = f
        while g is not None:
            q = g.qualname + "." + name
            if q in self.p.functions and self.p.functions[q].parent is g:
                return self.p.functions[q]
            g = g.parent
        return None

    def expr_types(self, expr, f, depth=0):
        """set of type strings for an expression evaluated inside function f (f may be None for module level with .module attr)"""
        p = self.p
        mod = f.module
        if depth > 6:
            return set()
        if isinstance(expr, ast.Name):
            if f is not None and hasattr(f, "params"):
                g = f
                while g is not None:
                    if self.is_local(g, expr.id):
                        nf = self._nested_function(g, expr.id)
                        if nf is not None:
                            return {"fn:" + nf.qualname}
                        li = getattr(g, "_local_imports", None)
                        if li is None:
                            p.resolve_dotted(mod, "__probe__", g)   # fills _local_imports
                            li = getattr(g, "_local_imports", {})
                        if expr.id in li:
                            break
                        return self.local_types(g, expr.id, depth)
                    g = g.parent
            r = p.resolve_dotted(mod, expr.id, f if hasattr(f, "params") else None)
            return self._resolved_to_types(r, expr.id)
        if isinstance(expr, ast.Attribute):
            d = dotted(expr)
            base = self.expr_types(expr.value, f, depth + 1)
            out = set()
            for t in base:
                out |= self._attr_of_type(t, expr.attr, f)
            if not out and d:
                r = p.resolve_dotted(mod, d, f if hasattr(f, "params") else None)
                if r and not (isinstance(expr.value, ast.Name) and f is not None and hasattr(f, "params") and self.is_local(f, expr.value.id)
                              and expr.value.id not in getattr(f, "_local_imports", {})):
                    out |= self._resolved_to_types(r, d)
            return out
        if isinstance(expr, ast.Call):
            if isinstance(expr.func, ast.Name) and expr.func.id == "super":
                if f is not None and f.cls is not None:
                    return {"super:" + f.cls.qualname}
                return set()
            if isinstance(expr.func, ast.Attribute) and expr.func.attr == "pop" and not expr.args:
                et = self.elem_types(expr.func.value, f, depth + 1)
                if et:
                    return et
            if isinstance(expr.func, ast.Attribute) and expr.func.attr == "__new__":
                # C.__new__(C): an uninitialised instance of C
                bt = self.expr_types(expr.func.value, f, depth + 1)
                inst = {"cls:" + t[5:] for t in bt if t.startswith("type:")}
                if inst:
                    return inst
            ft = self.expr_types(expr.func, f, depth + 1)
            out = set()
            for t in ft:
                if t.startswith("type:"):
                    out.add("cls:" + t[5:])
                elif t.startswith("fn:"):
                    out |= self.return_types(p.functions[t[3:]], depth + 1)
                elif t == "sers-get" or t == "sers-values":
                    out.add("ser" if t == "sers-get" else "sers-values")
                elif t.startswith("ext:"):
                    out.add("extcall:" + t[4:])
            if isinstance(expr.func, ast.Attribute) and expr.func.attr == "__new__":
                # C.__new__(C)
                bt = self.expr_types(expr.func.value, f, depth + 1)
                for t in bt:
                    if t.startswith("type:"):
                        out.add("cls:" + t[5:])
            return self._expand_ser(out)
        if isinstance(expr, ast.Subscript):
            bt = self.expr_types(expr.value, f, depth + 1)
            if "sers" in bt:
                return self._expand_ser({"ser"})
            if isinstance(expr.value, ast.Attribute):
                kd = dotted(expr.slice)
                kr = p.resolve_dotted(mod, kd, f if hasattr(f, "params") else None) if kd else None
                if kr and kr[0] == "object":
                    for ot in self.expr_types(expr.value.value, f, depth + 1):
                        if ot.startswith("cls:"):
                            for c in p.mro(p.classes[ot[4:]]):
                                h = ELEM_HINTS.get((c.qualname, expr.value.attr, kr[1]))
                                if h:
                                    return set(h)
            return set()
        if isinstance(expr, ast.IfExp):
            return self.expr_types(expr.body, f, depth + 1) | self.expr_types(expr.orelse, f, depth + 1)
        if isinstance(expr, ast.BoolOp):
            out = set()
            for v in expr.values:
                out |= self.expr_types(v, f, depth + 1)
            return out
        return set()

    def _expand_ser(self, tys):
        if "ser" in tys:
            tys = set(tys)
            tys.discard("ser")
            for c in self.serializer_classes():
                tys.add("cls:" + c.qualname)
        return tys

    def _resolved_to_types(self, r, name):
        if r is None:
            if hasattr(builtins, name.split(".")[0]):
                return {"ext:builtins." + name}
            return set()
        kind, q = r
        if kind == "module":
            return {"mod:" + q}
        if kind == "class":
            return {"type:" + q}
        if kind == "function":
            return {"fn:" + q}
        if kind == "external":
            return {"ext:" + q}
        if kind == "object":
            if q in SERIALIZER_REGISTRIES:
                return {"sers"}
            # module-level instance: X = ClassName(...)
            mname, _, cname = q.rpartition(".")
            m = self.p.modules.get(mname)
            if m and cname in m.constants:
                v = m.constants[cname]
                if isinstance(v, ast.Call):
                    d = dotted(v.func)
                    if d:
                        rr = self.p.resolve_dotted(m, d)
                        if rr and rr[0] == "class":
                            return {"cls:" + rr[1]}
                        if rr and rr[0] == "external":
                            return {"extcall:" + rr[1]}
            return set()
        return set()

    def _attr_of_type(self, t, attr, f):
        p = self.p
        out = set()
        if t.startswith("cls:") or t.startswith("type:"):
            cq = t.split(":", 1)[1]
            ci = p.classes.get(cq)
            if ci is None:
                return out
            m = p.lookup_method(ci, attr)
            if m is None and f is not None and f.cls is not None:
                m = p.lookup_method(ci, mangle(f.cls.name, attr))
            if m is not None:
                if "property" in m.decorators:
                    return self.return_types(m, 2)
                out.add("fn:" + m.qualname)
                # virtual dispatch: overrides in subclasses
                if t.startswith("cls:"):
                    for sc in p.subclasses(ci):
                        if attr in sc.methods:
                            out.add("fn:" + sc.methods[attr].qualname)
                return out
            names = [attr]
            if f is not None and f.cls is not None:
                names.append(mangle(f.cls.name, attr))
            for c in p.mro(ci):
                for nm in names:
                    tys = self.attr_types.get((c.qualname, nm))
                    if tys:
                        return self._expand_ser(set(tys))
                    if nm in c.class_attrs:
                        v = c.class_attrs[nm]
                        if isinstance(v, ast.Call) and dotted(v.func) == "property":
                            return set()
            ext = p.external_bases(ci)
            for b in ext:
                out.add("ext:%s.%s" % (b, attr))
            return out
        if t.startswith("mod:"):
            r = p.resolve_dotted(p.modules[t[4:]], attr)
            return self._resolved_to_types(r, attr)
        if t.startswith("super:"):
            ci = p.classes[t[6:]]
            m = p.lookup_method(ci, attr, after=ci)
            if m is not None:
                return {"fn:" + m.qualname}
            for b in p.external_bases(ci):
                out.add("ext:%s.%s" % (b, attr))
            return out
        if t.startswith("ext:"):
            return {"ext:%s.%s" % (t[4:], attr)}
        if t.startswith("extcall:"):
            return {"ext:%s().%s" % (t[8:], attr)}
        if t == "sers":
            if attr == "get":
                return {"sers-get"}
            if attr == "values":
                return {"sers-values"}
            return {"ext:dict." + attr}
        return out

    def return_types(self, fi, depth=0):
        cache = getattr(fi, "_ret_types", None)
        if cache is not None:
            return cache
        fi._ret_types = set()
        out = set()
        if depth < 5 and not isinstance(fi.node, ast.Lambda):
            for n in walk_no_nested(fi.node):
                if isinstance(n, ast.Return) and n.value is not None:
                    out |= {t for t in self.expr_types(n.value, fi, depth + 1) if t.startswith("cls:")}
        fi._ret_types = out
        return out

    # ------------------------------------------------------------------ calls
    def resolve_call(self, call, f):
        """list of Target for one ast.Call inside function f"""
        func = call.func
        out = []
        seen = set()

        def add(t):
            if t.key() not in seen:
                seen.add(t.key())
                out.append(t)
        if isinstance(func, ast.Name) and func.id == "super":
            return [Target("ext", name="builtins.super")]
        tys = self.expr_types(func, f)
        for t in sorted(tys):
            if t.startswith("fn:"):
                add(Target("fn", fn=self.p.functions[t[3:]]))
            elif t.startswith("type:"):
                ci = self.p.classes[t[5:]]
                init = self.p.lookup_method(ci, "__init__")
                if init is not None:
                    add(Target("fn", fn=init))
                else:
                    add(Target("ctor", name=ci.qualname))
            elif t.startswith("cls:"):
                ci = self.p.classes[t[4:]]
                m = self.p.lookup_method(ci, "__call__")
                if m is not None:
                    add(Target("fn", fn=m))
                else:
                    add(Target("unknown", name="call of instance of " + ci.qualname))
            elif t.startswith("ext:"):
                add(Target("ext", name=t[4:]))
            elif t.startswith("extcall:"):
                add(Target("ext", name=t[8:] + "()()"))
            elif t in ("sers-get", "sers-values"):
                add(Target("ext", name="dict." + t[5:]))
        if not out:
            if isinstance(func, ast.Name):
                g = f
                is_local = False
                while g is not None:
                    if self.is_local(g, func.id):
                        is_local = True
                        break
                    g = g.parent
                if is_local:
                    add(Target("dyn", name="local:" + func.id))
                else:
                    add(Target("unknown", name="name:" + func.id))
            elif isinstance(func, ast.Attribute):
                add(Target("unknown", name="attr:" + func.attr))
            else:
                add(Target("dyn", name="expr:" + type(func).__name__))
        return out

    def calls_of(self, f):
        """[(ast.Call, [Target])] for all calls lexically in f (not in nested defs)"""
        if f.qualname in self._calls_cache:
            return self._calls_cache[f.qualname]
        res = []
        body = f.node.body if not isinstance(f.node, ast.Lambda) else [f.node.body]
        for st in body:
            if isinstance(st, (ast.FunctionDef, ast.ClassDef)):
                continue
            for n in walk_no_nested(st):
                if isinstance(n, ast.Call):
                    tg = self.resolve_call(n, f)
                    res.append((n, tg))
        # decorators and defaults are evaluated in the enclosing scope: not part of f
        self._calls_cache[f.qualname] = res
        return res

    def statistics(self):
        st = {"total": 0, "fn": 0, "ext": 0, "ctor": 0, "dyn": 0, "unknown": 0}
        samples = []
        for f in self.p.functions.values():
            for call, tgs in self.calls_of(f):
                st["total"] += 1
                kinds = {t.kind for t in tgs}
                if "fn" in kinds:
                    st["fn"] += 1
                elif "ctor" in kinds:
                    st["ctor"] += 1
                elif "ext" in kinds:
                    st["ext"] += 1
                elif "dyn" in kinds:
                    st["dyn"] += 1
                else:
                    st["unknown"] += 1
                    if len(samples) < 12:
                        samples.append("%s: %s" % (f.loc(call), tgs[0].name))
        st["unknown_samples"] = samples
        return st

    def callers_of(self, qualname):
        """[(FunctionInfo caller, ast.Call)] typed call sites that may reach the function"""
        out = []
        for f in self.p.functions.values():
            for call, tgs in self.calls_of(f):
                for t in tgs:
                    if t.kind == "fn" and t.fn.qualname == qualname:
                        out.append((f, call))
        return out

    def callers_by_name(self, method_name):
        """name-based fallback: every call `<anything>.method_name(...)` or `method_name(...)` in the package
        (who-may-call rules only: extra edges can only add callers)"""
        out = []
        for f in self.p.functions.values():
            body = f.node.body if not isinstance(f.node, ast.Lambda) else [f.node.body]
            for st in body:
                if isinstance(st, (ast.FunctionDef, ast.ClassDef)):
                    continue
                for n in walk_no_nested(st):
                    if isinstance(n, ast.Call):
                        fn = n.func
                        if (isinstance(fn, ast.Attribute) and fn.attr == method_name) or \
                           (isinstance(fn, ast.Name) and fn.id == method_name):
                            out.append((f, n))
        return out
